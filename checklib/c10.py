"""C10 — layout/comments never change the parse: proof audit + layout-model correspondence + AST oracle."""
from .common import Ctx, Obligation, tail


def run(args):
    ctx = Ctx("C10", args.tier, args.seed)
    ctx.assumptions += [
        "token scanning (identifiers, numbers, strings, f-strings) is atomic in the model: the harness cuts sources at the real lexer's own token spans",
        "the parser is not modelled here: 'same syntax tree' is decided by the oracle on the real parser (AST Debug output with spans erased)",
    ]
    ctx.proof_stage("IncanModel.Props.C10")
    ok, out = ctx.build_harness()
    failures = []
    if not ok:
        ob = Obligation("correspondence", "harness build against /repo")
        ob.ok, ob.detail = False, tail(out, 15)
        ctx.obligations.append(ob)
    else:
        cases, metas = ctx.run_harness("c10")
        lex_cases = [c for c in cases if c[0].startswith("c10 lex ")]
        edit_cases = [c for c in cases if c[0].startswith("c10 edit ")]
        model = ctx.run_driver([c[0] for c in lex_cases])
        ctx.evaluations = len(cases)
        ctx.tie("layout model = real lexer token kinds (INDENT/DEDENT/NEWLINE/token/EOF streams)", lex_cases, model)
        hist = {}
        tok_hist = {"I": 0, "D": 0, "N": 0, "T": 0}
        for req, real in lex_cases:
            ctx.nontrivial.add(hash(req))
            for t in real.split(","):
                if t and t[0] in tok_hist:
                    tok_hist[t[0]] += 1
        for req, real in edit_cases:
            p = req.split(" ")
            ek = p[3]
            hist.setdefault(ek, {"same": 0, "other": 0})
            ctx.nontrivial.add(hash(req))
            if real == "same":
                hist[ek]["same"] += 1
                continue
            hist[ek]["other"] += 1
            if ek == "crlf_whole_file" and real == "differs" and ctx.known("C10-crlf-inside-multiline-string"):
                continue
            failures.append({"request": " ".join(p[:6]), "edited_source_hex": p[6] if len(p) > 6 else "-", "real": real,
                             "why": f"layout edit `{ek}` changed the syntax tree (or made the file unparseable)"})
        cut_cases = [c for c in cases if c[0].startswith("c10 cut ")]
        hist["cut_no_final_newline"] = {"same": 0, "both-reject": 0, "other": 0}
        for req, real in cut_cases:
            p = req.split(" ")
            ctx.nontrivial.add(hash(req))
            if real in ("same", "both-reject"):
                hist["cut_no_final_newline"][real] += 1
                continue
            hist["cut_no_final_newline"]["other"] += 1
            failures.append({"request": " ".join(p[:5]), "edited_source_hex": p[5] if len(p) > 5 else "-", "real": real,
                             "why": "the text up to the end of this line parses differently with and without its final newline"})
        for f in failures[:5]:
            ctx.violation("oracle", f)
        ctx.samples = [{"request": r[:300], "real": o[:200]} for r, o in lex_cases[:1] + edit_cases[:3] + edit_cases[-3:]]
        ctx.coverage_extra = {"edit_histogram": hist, "layout_tokens_seen": tok_hist, "lex_cases": len(lex_cases),
                              "edit_cases": len(edit_cases), "harness_meta": metas}
    ctx.conclude_broken_obligations(failures)
    return ctx.finish(
        rule="every .incn file of the repository that parses + synthetic nested programs; per file: each of 10 layout edit kinds applied at seeded positions (AST compared with the original) and the edited text re-lexed against the layout model; plus the text cut at the end of seeded logical lines, parsed with and without its final newline (every kind of last statement); distinct = distinct (file, edit, position) / source",
        extra_cov=getattr(ctx, "coverage_extra", None))
