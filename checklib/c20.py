"""C20 — derived JSON / equality / ordering / hashing / clone: proof audit + compiled-program correspondence + Python oracle."""
import json
import struct

from .common import Ctx, Obligation, tail


def dec_str(t):
    return "" if t == "-" else "".join(chr(int(x, 16)) for x in t.split(","))


def parse_ty(toks):
    t, rest = toks[0], toks[1:]
    k = t[0]
    if k in "ibsf":
        return (k,), rest
    if k in "OLD":
        u, rest = parse_ty(rest)
        return (k, u), rest
    n = int(t[1:])
    fs = []
    for _ in range(n):
        name = dec_str(rest[0][1:])
        ft, rest = parse_ty(rest[1:])
        fs.append((name, ft))
    return ("S", fs), rest


def parse_val(toks):
    """-> (python value used for JSON comparison, ordering key, rest)"""
    t, rest = toks[0], toks[1:]
    k, tl = t[0], t[1:]
    if k == "i":
        n = int(tl)
        return n, (n,), rest
    if k == "b":
        b = tl == "T"
        return b, (int(b),), rest
    if k == "s":
        s = dec_str(tl)
        return s, (tuple(ord(c) for c in s),), rest
    if k == "f":
        f = struct.unpack(">d", bytes.fromhex(tl.split(":")[0]))[0]
        return f, (f,), rest
    if k == "n":
        return None, (0,), rest
    if k == "o":
        v, key, rest = parse_val(rest)
        return v, (1, key), rest
    if k == "l":
        vs, keys = [], []
        for _ in range(int(tl)):
            v, key, rest = parse_val(rest)
            vs.append(v)
            keys.append(key)
        return vs, (tuple(keys),), rest
    if k in "dS":
        pairs, keys = [], []
        for _ in range(int(tl)):
            name = dec_str(rest[0][1:])
            v, key, rest = parse_val(rest[1:])
            pairs.append((name, v))
            keys.append(key)
        return ("obj", pairs), (tuple(keys),), rest
    raise ValueError(t)


def to_pairs(v):
    """normalise the python value into the shape json.loads(object_pairs_hook=...) gives"""
    if isinstance(v, tuple) and v and v[0] == "obj":
        return ("obj", [(k, to_pairs(x)) for k, x in v[1]])
    if isinstance(v, list):
        return [to_pairs(x) for x in v]
    return v


def hook(pairs):
    return ("obj", [(k, v) for k, v in pairs])


def same_json(a, b):
    if isinstance(a, float) or isinstance(b, float):
        return isinstance(a, (int, float)) and isinstance(b, (int, float)) and not isinstance(a, bool) and not isinstance(b, bool) and float(a) == float(b)
    if type(a) is not type(b):
        return False
    if isinstance(a, tuple):
        return len(a[1]) == len(b[1]) and all(ka == kb and same_json(va, vb) for (ka, va), (kb, vb) in zip(a[1], b[1]))
    if isinstance(a, list):
        return len(a) == len(b) and all(same_json(x, y) for x, y in zip(a, b))
    return a == b


def rustc_accepts(ds):
    s = set(ds)
    return (("Eq" not in s or "PartialEq" in s) and ("Ord" not in s or {"PartialOrd", "Eq", "PartialEq"} <= s)
            and ("PartialOrd" not in s or "PartialEq" in s) and ("Copy" not in s or "Clone" in s))


def run(args):
    ctx = Ctx("C20", args.tier, args.seed)
    ctx.assumptions += ["serde / serde_json implement serde's documented data model for derived structs (object per struct in field order, Option as value-or-null) and their text layer; rustc's derived PartialEq/Ord/Hash are field-wise in declaration order — these libraries are trusted, the model states their contract",
                        "Dict fields carry at most one entry in generated values (HashMap iteration order is unspecified, so JSON text with several entries is not deterministic)",
                        "string literals nested in list/dict literals go through an identity helper in generated programs (bare ones do not build: C02)",
                        "floats: bit equality on the generator's values (no NaN); float text is serde_json's own"]
    ctx.proof_stage("IncanModel.Props.C20")
    ok, out = ctx.build_harness()
    failures = []
    if not ok:
        ob = Obligation("correspondence", "harness build against /repo")
        ob.ok, ob.detail = False, tail(out, 15)
        ctx.obligations.append(ob)
    else:
        cases, metas = ctx.run_harness("c20", extra=[ctx.scratch], timeout=3400)
        ctx.evaluations = len(cases)
        by = {k: [c for c in cases if c[0].startswith(f"c20 {k} ")] for k in ("json", "cmp", "hash", "clone", "derives")}
        for k, label in (("json", "model encode (rendered as serde_json text) and decode∘encode = json_stringify output and from_json round trip of compiled programs"),
                         ("cmp", "model eqV / cmpV = the six comparison operators on two values of a compiled model"),
                         ("hash", "model (equal keys collapse) = Dict[M, int] built by a compiled program"),
                         ("clone", "model (clone equals original, mutation of the original leaves the clone) = compiled program"),
                         ("derives", "model structDerives = the #[derive(..)] list the emitter writes, for subsets of the documented derives in varying order")):
            m = ctx.run_driver([c[0] for c in by[k]])
            ctx.tie(label, by[k], m)
        hist = {"json_ok": 0, "roundtrip_ok": 0, "cmp_ok": 0, "hash_ok": 0, "clone_ok": 0, "derive_lists_ok": 0, "field_types": {}}
        for req, real in by["json"]:
            p = req.split(" ")
            ctx.nontrivial.add(req)
            if len(p) > 4:
                hist["class_chains"] = hist.get("class_chains", 0) + 1
            for tok in p[2].split(";"):
                hist["field_types"][tok[0]] = hist["field_types"].get(tok[0], 0) + 1
            if not real.startswith("ok "):
                failures.append({"request": req, "real": real, "why": "program deriving Serialize/Deserialize did not build and run"})
                continue
            lines = real[3:].split("\x01")
            pyv, _, _ = parse_val(p[3].split(";"))
            try:
                got = json.loads(lines[0], object_pairs_hook=hook)
            except Exception as e:  # noqa: BLE001
                failures.append({"request": req, "real": real, "why": f"json_stringify output is not JSON: {e}"})
                continue
            if not same_json(to_pairs(pyv), got):
                failures.append({"request": req, "real": real, "why": "JSON does not have exactly the declared field names in order with the documented type mapping / values"})
            else:
                hist["json_ok"] += 1
            if len(lines) < 2 or lines[1] != "true":
                failures.append({"request": req, "real": real, "why": "T.from_json(json_stringify(v)) is not Ok(v)"})
            else:
                hist["roundtrip_ok"] += 1
        for req, real in by["cmp"]:
            p = req.split(" ")
            ctx.nontrivial.add(req)
            if len(p) > 5:
                hist["class_chains"] = hist.get("class_chains", 0) + 1
            _, kv, _ = parse_val(p[3].split(";"))
            _, kw, _ = parse_val(p[4].split(";"))
            exp = "ok " + " ".join(str(x).lower() for x in (kv == kw, kv != kw, kv < kw, kv <= kw, kv > kw, kv >= kw))
            if real != exp:
                failures.append({"request": req, "real": real, "expected": exp, "why": "== / ordering is not structural, lexicographic in declaration order"})
            else:
                hist["cmp_ok"] += 1
        for req, real in by["hash"]:
            p = req.split(" ")
            ctx.nontrivial.add(req)
            _, kv, _ = parse_val(p[3].split(";"))
            _, kw, _ = parse_val(p[4].split(";"))
            exp = f"ok {1 if kv == kw else 2} true"
            if real != exp:
                failures.append({"request": req, "real": real, "expected": exp, "why": "equal model values must be one dict key and be found again; unequal ones must stay distinct"})
            else:
                hist["hash_ok"] += 1
        for req, real in by["clone"]:
            ctx.nontrivial.add(req)
            if real != "ok true true false":
                failures.append({"request": req, "real": real, "expected": "ok true true false", "why": "a clone must equal the original and be unaffected by later mutation of the original"})
            else:
                hist["clone_ok"] += 1
        for req, real in by["derives"]:
            ctx.nontrivial.add(req)
            written = [] if req.split(" ")[2] == "-" else req.split(" ")[2].split(",")
            got = real.split(",")
            missing = [d for d in written if d not in got]
            if real.startswith("rejected") or real.startswith("panic") or missing:
                failures.append({"request": req, "real": real, "why": f"derive list lost {missing}" if missing else "model with these derives was not emitted"})
            elif not rustc_accepts(got):
                failures.append({"request": req, "real": real, "why": "emitted derive list violates a supertrait requirement (rustc would reject it)"})
            else:
                hist["derive_lists_ok"] += 1
        for f in failures[:5]:
            ctx.violation("oracle", f)
        ctx.samples = [{"request": r[:200], "real": o[:200]} for r, o in by["json"][:2] + by["cmp"][:2] + by["hash"][:1] + by["clone"][:1] + by["derives"][:2]]
        ctx.coverage_extra = {"histogram": hist, "harness_meta": metas, "oracle_failures": len(failures)}
    ctx.conclude_broken_obligations(failures)
    return ctx.finish(
        rule="generated model/class declarations (1–5 fields drawn from int, bool, str, float, Option[..], List[..], Dict[str, ..], a nested model, Option of it; field names incl. Rust keywords; a third of the ordering programs and a quarter of the JSON programs declare the fields over a chain of 2-3 classes related by `extends`) with generated values (empty strings/collections, negative and 64-bit-extreme ints, non-ASCII, JSON escapes, None) — json_stringify + from_json round trip; pairs of values differing in one field under four spellings of the Ord derives — six operators; Eq+Hash models as Dict keys; clone then mutate; every subset of 8 derives (rotation of the written order) through the emitter; each program compiled with rustc and run; distinct = distinct request",
        extra_cov=getattr(ctx, "coverage_extra", None))
