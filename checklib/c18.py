"""C18 — LSP convergence: proof audit + replay of the real server's event order on the model + oracle."""
from .common import Ctx, Obligation, tail


def expected_finals(hist):
    exp = {}
    for h in hist.split(","):
        if h[0] == "c":
            exp[h[1:]] = "none"
        else:
            d, v, k = h[1:].split(".")
            exp[d] = "none" if k in ("b", "l") else "v" + v   # a text with a syntax error has no AST: hover says nothing
    return exp


def run(args):
    ctx = Ctx("C18", args.tier, args.seed)
    ctx.assumptions += [
        "handlers' synchronous first parts run in arrival order (tower-lsp first-polls handler futures in arrival order); real OS threads / the multi-thread tokio scheduler are not exercised — the model's schedule space (any store order) is a superset",
        "the server's receive/store order is observed through the `incan_verif` hook (src/lsp/mod.rs verif_hooks); what the editor sees through publishDiagnostics and a final hover",
    ]
    ctx.proof_stage("IncanModel.Props.C18")
    ok, out = ctx.build_harness()
    failures = []
    if not ok:
        ob = Obligation("correspondence", "harness build against /repo")
        ob.ok, ob.detail = False, tail(out, 15)
        ctx.obligations.append(ob)
    else:
        cases, metas = ctx.run_harness("c18", extra=[ctx.scratch])
        dep_cases = [c for c in cases if c[0].startswith("c18 dep ")]
        cases = [c for c in cases if not c[0].startswith("c18 dep ")]
        ctx.tie("model effectiveText (an open dependency's editor text is what its importer is analysed against) = importer diagnostics with the text in the editor vs the same text on disk",
                dep_cases, ctx.run_driver([c[0] for c in dep_cases]), canon=lambda s: s.split(" ")[0])
        n_dep_sensitive = 0
        for req, real in dep_cases:
            ctx.nontrivial.add(req)
            if not real.startswith("same"):
                failures.append({"request": req, "real": real, "why": "the importer's diagnostics must be those of the dependency's latest (editor) text, not of the file on disk"})
            elif real.endswith(" 1"):
                n_dep_sensitive += 1
        if dep_cases and n_dep_sensitive == 0:
            failures.append({"request": "c18 dep *", "real": "no variant changed the importer's diagnostics", "why": "the dependency scenarios are not sensitive to the dependency's text: they would prove nothing"})
        model = ctx.run_driver([c[0] for c in cases])
        ctx.evaluations = len(cases)
        ctx.tie("model replay of the server's own event log = what hover answers after quiescence (and every real store passes the model's guard)",
                cases, model, canon=lambda s: s.split(" ")[0] if "MODEL-GUARD-MISMATCH" not in s else s)
        orders = set()
        hist_kinds = {"with_close": 0, "with_broken": 0, "with_import": 0, "two_docs": 0}
        overtakes = 0
        for req, real in cases:
            p = req.split(" ")
            hist, evs = p[2], p[3]
            ctx.nontrivial.add((hist, evs))
            orders.add(evs)
            if "c" in [h[0] for h in hist.split(",")]:
                hist_kinds["with_close"] += 1
            if ".b" in hist or ".l" in hist:
                hist_kinds["with_broken"] += 1
            if ".i" in hist:
                hist_kinds["with_import"] += 1
            if "1." in hist.replace("o0", "").replace("g0", "") and ("o1" in hist or "g1" in hist):
                hist_kinds["two_docs"] += 1
            # did a later notification start before an earlier one stored?
            seq = evs.split(",") if evs != "-" else []
            recvs = [i for i, e in enumerate(seq) if e.startswith("recv")]
            if any(seq[i - 1].startswith("recv") for i in recvs[1:]):
                overtakes += 1
            finals = dict(x.split("=") for x in real.split(" ")[0].split(";") if "=" in x)
            for d, e in expected_finals(hist).items():
                if finals.get("doc" + d) != e:
                    failures.append({"request": req[:400], "real": real[:400],
                                     "why": f"after quiescence doc{d} answers {finals.get('doc' + d)} but the latest version sent is {e}"})
                    break
            if "STUCK" in real:
                failures.append({"request": req[:400], "real": real[:300], "why": "handlers did not finish"})
        for f in failures[:5]:
            ctx.violation("oracle", f)
        ctx.samples = [{"request": r[:300], "real": o[:300]} for r, o in cases[:2] + cases[len(cases)//2:len(cases)//2+2] + cases[-2:]]
        ctx.coverage_extra = {"scenarios": len(cases), "distinct_event_orders": len(orders), "history_kinds": hist_kinds,
                              "scenarios_with_overlapping_handlers": overtakes, "harness_meta": metas}
    ctx.conclude_broken_obligations(failures)
    return ctx.finish(
        rule="4 hand-written histories (slow old version overtaken, syntax error in newest, close vs pending analysis, reopen) + seeded histories of 2–5 notifications over 1–2 documents (valid / with an import / broken texts, closes); per history one serial schedule + seeded schedules of Start/Poll/Drain actions with ≤ 4 handlers in flight; distinct = distinct (history, observed event order)",
        extra_cov=getattr(ctx, "coverage_extra", None))
