"""C06 — compile-time vs run-time evaluation: proof audit + checker/run correspondence + agreement oracle."""
from .common import Ctx, Obligation, tail


def run(args):
    ctx = Ctx("C06", args.tier, args.seed)
    ctx.assumptions += ["string helpers: the compile-time side calls incan_core::strings and the run-time side incan_stdlib::strings — proved identical as models and tied to both in C05",
                        "float arithmetic is executed (Lean Float = IEEE binary64) but not reasoned about; float results are compared bit for bit after parsing the printed shortest round-trip decimal",
                        "programs the backend cannot build (C02's concern: run-time String concatenation of non-literals, most numeric/str operators in const context) give no run-time observation and are counted, not judged",
                        "rustc/cargo trusted"]
    ctx.proof_stage("IncanModel.Props.C06")
    ok, out = ctx.build_harness()
    failures = []
    if not ok:
        ob = Obligation("correspondence", "harness build against /repo")
        ob.ok, ob.detail = False, tail(out, 15)
        ctx.obligations.append(ob)
    else:
        cases, metas = ctx.run_harness("c06", extra=[ctx.scratch], timeout=3400)
        by = {k: [c for c in cases if c[0].startswith(f"c06 {k} ")] for k in ("const", "run", "construn", "cycle")}
        ctx.evaluations = len(cases)
        m_const = ctx.run_driver([c[0] for c in by["const"]])
        ctx.tie("model constEval = real checker on `const K = E` (verdict and error class, type, TypeCheckInfo.const_values)", by["const"], m_const)
        built = lambda cs: [c for c in cs if c[1].startswith("ok") or c[1].startswith("err")]  # noqa: E731
        run_b = built(by["run"])
        m_run = ctx.run_driver([c[0] for c in run_b])
        ctx.tie("model runEval = the expression evaluated in a function body of a compiled program (value or panic class)", run_b, m_run)
        crun_b = built(by["construn"])
        m_crun = ctx.run_driver([c[0] for c in crun_b])
        ctx.tie("model runEval = value printed for `const K: T = E` by a compiled program (Rust const expressions, concat! chains)", crun_b, m_crun)
        m_cyc = ctx.run_driver([c[0] for c in by["cycle"]])
        ctx.tie("model visit (in-progress stack) = real checker on const dependency graphs (ok / cycle path)", by["cycle"], m_cyc)
        hist = {"const_ok_value": 0, "const_ok_novalue": 0, "const_err": {}, "agree_value": 0, "agree_error": 0, "unbuildable_run": 0,
                "unbuildable_const": 0, "const_vs_body_same": 0, "cycles": 0, "acyclic": 0}
        # ORACLE 1: compile-time value == run-time value of the same expression; compile-time index/step errors == run-time errors
        run_by_expr = {c[0].split(" ")[3]: c[1] for c in by["run"]}
        for req, real in by["const"]:
            expr = req.split(" ")[3]
            ctx.nontrivial.add(expr)
            if real.startswith("panic") or real.startswith("lex-error") or real.startswith("parse-error"):
                failures.append({"request": req, "real": real, "why": "checker did not produce a verdict for a generated const initializer"})
                continue
            if real.startswith("err"):
                cls = real.split(" ")[1]
                hist["const_err"][cls] = hist["const_err"].get(cls, 0) + 1
            r = run_by_expr.get(expr)
            if r is None:
                if real.startswith("ok"):
                    hist["const_ok_value" if not real.endswith(" none") else "const_ok_novalue"] += 1
                continue
            if not (r.startswith("ok") or r.startswith("err")):
                hist["unbuildable_run"] += 1
                continue
            if real.startswith("ok"):
                val = real.split(" ")[2]
                if val == "none":
                    hist["const_ok_novalue"] += 1
                    continue
                hist["const_ok_value"] += 1
                if r != f"ok {val}":
                    failures.append({"request": req, "real": real, "run_time": r, "why": "the value the compiler records for the const differs from the value of the same expression evaluated at run time"})
                else:
                    hist["agree_value"] += 1
            elif real in ("err stringIndexOutOfRange", "err sliceStepZero"):
                if r != real:
                    failures.append({"request": req, "real": real, "run_time": r, "why": "compile-time error does not match what run-time evaluation does"})
                else:
                    hist["agree_error"] += 1
        # ORACLE 2: a built const prints what the function-body evaluation prints
        for req, real in by["construn"]:
            expr = req.split(" ")[3]
            ctx.nontrivial.add("K:" + expr)
            if not (real.startswith("ok") or real.startswith("err")):
                hist["unbuildable_const"] += 1
                continue
            r = run_by_expr.get(expr)
            if r is not None and (r.startswith("ok") or r.startswith("err")) and r != real:
                failures.append({"request": req, "real": real, "run_time": r, "why": "the const holds a different value than its initializer evaluated in a function"})
            else:
                hist["const_vs_body_same"] += 1
        # ORACLE 3: cycles are reported (and nothing loops): ground truth by an independent DFS
        for req, real in by["cycle"]:
            g = {}
            for ent in req.split(" ")[2].split(","):
                n, ds = ent.split(":")
                g[n] = [] if ds == "-" else ds.split("+")
            ctx.nontrivial.add(req)
            cyc = has_cycle(g)
            hist["cycles" if cyc else "acyclic"] += 1
            if real.startswith("TIMEOUT") or real.startswith("panic"):
                failures.append({"request": req, "real": real, "why": "const resolution did not end with a verdict"})
            elif cyc and not real.startswith("cycle"):
                failures.append({"request": req, "real": real, "why": "a const dependency cycle was not reported"})
            elif not cyc and real != "ok":
                failures.append({"request": req, "real": real, "why": "an acyclic const graph was rejected"})
        for f in failures[:5]:
            ctx.violation("oracle", f)
        ctx.samples = [{"request": r[-160:], "real": o} for r, o in by["const"][:3] + by["run"][:2] + by["construn"][:2] + by["cycle"][:2]]
        ctx.coverage_extra = {"histogram": hist, "harness_meta": metas, "oracle_failures": len(failures)}
    ctx.conclude_broken_obligations(failures)
    return ctx.finish(
        rule="seeded random const initializers over 8 base consts (strings with non-ASCII and escapes, empty string, positive/negative/zero ints, bool, float): string concat/index/slice (all bound combinations, known and unknown bounds, nested slices), int/float arithmetic (7 operators), comparisons, and/or/not, membership, ill-typed and non-const shapes; each through the real checker; the well-typed ones also evaluated in a function body of a compiled program; the emittable fragment also as a compiled const; random const dependency graphs (forward-only and arbitrary edges) under a watchdog; past failures first; distinct = distinct expression / graph",
        extra_cov=getattr(ctx, "coverage_extra", None))


def has_cycle(g):
    color = {}

    def dfs(n):
        color[n] = 1
        for d in g.get(n, []):
            if d not in g:
                continue
            if color.get(d) == 1:
                return True
            if color.get(d) is None and dfs(d):
                return True
        color[n] = 2
        return False
    return any(color.get(n) is None and dfs(n) for n in g)
