"""C06 — compile-time vs run-time evaluation: proof audit + checker/run correspondence + agreement oracle."""
from .common import Ctx, Obligation, tail


def run(args):
    ctx = Ctx("C06", args.tier, args.seed)
    ctx.assumptions += ["string helpers: the compile-time side calls incan_core::strings and the run-time side incan_stdlib::strings — proved identical as models and tied to both in C05",
                        "float arithmetic is executed (Lean Float = IEEE binary64) but not reasoned about; float results are compared bit for bit after parsing the printed shortest round-trip decimal",
                        "programs the backend cannot build (C02's concern: run-time String concatenation of non-literals, most numeric/str operators in const context) give no run-time observation and are counted, not judged",
                        "rustc/cargo trusted"]
    ctx.proof_stage("IncanModel.Props.C06")
    ok, out = ctx.build_harness()
    failures = []
    if not ok:
        ob = Obligation("correspondence", "harness build against /repo")
        ob.ok, ob.detail = False, tail(out, 15)
        ctx.obligations.append(ob)
    else:
        cases, metas = ctx.run_harness("c06", extra=[ctx.scratch], timeout=3400)
        by = {k: [c for c in cases if c[0].startswith(f"c06 {k} ")] for k in ("const", "run", "construn", "cycle", "frozen", "frozenset")}
        ctx.evaluations = len(cases)
        m_const = ctx.run_driver([c[0] for c in by["const"]])
        ctx.tie("model constEval = real checker on `const K = E` (verdict and error class, type, TypeCheckInfo.const_values)",
                [(c[0], " ".join(x for x in c[1].split(" ") if not x.startswith("body="))) for c in by["const"]], m_const)
        built = lambda cs: [c for c in cs if c[1].startswith("ok") or c[1].startswith("err")]  # noqa: E731
        run_b = built(by["run"])
        m_run = ctx.run_driver([c[0] for c in run_b])
        ctx.tie("model runEval = the expression evaluated in a function body of a compiled program (value or panic class)", run_b, m_run)
        crun_b = built(by["construn"])
        m_crun = ctx.run_driver([c[0] for c in crun_b])
        ctx.tie("model runEval = value printed for `const K: T = E` by a compiled program (Rust const expressions, concat! chains)", crun_b, m_crun)
        ctx.tie("model contains (scan in literal order) = membership answered by compiled const sets", by["frozenset"], ctx.run_driver([c[0] for c in by["frozenset"]]))
        m_cyc = ctx.run_driver([c[0] for c in by["cycle"]])
        ctx.tie("model visit (in-progress stack) = real checker on const dependency graphs (ok / cycle path)", by["cycle"], m_cyc)
        hist = {"const_ok_value": 0, "const_ok_novalue": 0, "const_err": {}, "agree_value": 0, "agree_error": 0, "unbuildable_run": 0,
                "unbuildable_const": 0, "const_vs_body_same": 0, "cycles": 0, "acyclic": 0}
        # ORACLE 1: compile-time value == run-time value of the same expression; compile-time index/step errors == run-time errors
        run_by_expr = {c[0].split(" ")[3]: c[1] for c in by["run"]}
        hist.update({"python_agrees": 0, "type_agrees": 0})
        for req, real in by["run"] + by["construn"]:
            if not (real.startswith("ok") or real.startswith("err")):
                continue
            exp = py_oracle(req)
            if exp is None:
                continue
            if real != f"{exp[0]} {exp[1]}":
                failures.append({"request": req, "real": real, "python": f"{exp[0]} {exp[1]}", "why": "the compiled program's result differs from the documented (Python) meaning of the expression"})
            else:
                hist["python_agrees"] += 1
        for req, real in by["const"]:
            expr = req.split(" ")[3]
            ctx.nontrivial.add(expr)
            if real.startswith("ok"):
                f = real.split(" ")
                cty, val, bty = f[1], f[2], f[3].split("=", 1)[1]
                if bty not in ("rejected", "?") and cty.replace("FrozenStr", "str") != bty.replace("FrozenStr", "str"):
                    failures.append({"request": req, "real": real, "why": f"the type decided for the const ({cty}) differs from the type of the same expression in a function body ({bty})"})
                else:
                    hist["type_agrees"] += 1
                exp = py_oracle(req)
                if val != "none" and exp is not None and exp != ("ok", val):
                    failures.append({"request": req, "real": real, "python": f"{exp[0]} {exp[1]}", "why": "the value recorded for the const differs from the documented (Python) meaning of its initializer"})
            elif real in ("err stringIndexOutOfRange", "err sliceStepZero"):
                exp = py_oracle(req)
                # The compile-time evaluator only sees operands whose value it knows, so when an earlier operand has
                # no compile-time value it may report the error of a later operand where run time stops at the
                # earlier one: both agree that the initializer cannot be evaluated. A disagreement is an error
                # reported for an initializer that evaluates fine.
                if exp is not None and exp[0] == "ok":
                    failures.append({"request": req, "real": real, "python": f"{exp[0]} {exp[1]}", "why": "a compile-time index/step error is reported where evaluation has none (or another one)"})
            if real.startswith("panic") or real.startswith("lex-error") or real.startswith("parse-error"):
                failures.append({"request": req, "real": real, "why": "checker did not produce a verdict for a generated const initializer"})
                continue
            if real.startswith("err"):
                cls = real.split(" ")[1]
                hist["const_err"][cls] = hist["const_err"].get(cls, 0) + 1
            r = run_by_expr.get(expr)
            if r is None:
                if real.startswith("ok"):
                    hist["const_ok_value" if not real.endswith(" none") else "const_ok_novalue"] += 1
                continue
            if not (r.startswith("ok") or r.startswith("err")):
                hist["unbuildable_run"] += 1
                continue
            if real.startswith("ok"):
                val = real.split(" ")[2]
                if val == "none":
                    hist["const_ok_novalue"] += 1
                    continue
                hist["const_ok_value"] += 1
                if r != f"ok {val}":
                    failures.append({"request": req, "real": real, "run_time": r, "why": "the value the compiler records for the const differs from the value of the same expression evaluated at run time"})
                else:
                    hist["agree_value"] += 1
            elif real in ("err stringIndexOutOfRange", "err sliceStepZero"):
                # an error reported at compile time must be an expression that fails at run time too; which of two
                # failing operands is named may differ when the earlier one has no compile-time value (see below)
                if not r.startswith("err"):
                    failures.append({"request": req, "real": real, "run_time": r, "why": "a compile-time index/step error is reported for an expression that evaluates fine at run time"})
                else:
                    hist["agree_error"] += 1
        # ORACLE 2: a built const prints what the function-body evaluation prints
        for req, real in by["construn"]:
            expr = req.split(" ")[3]
            ctx.nontrivial.add("K:" + expr)
            if not (real.startswith("ok") or real.startswith("err")):
                hist["unbuildable_const"] += 1
                continue
            r = run_by_expr.get(expr)
            if r is not None and (r.startswith("ok") or r.startswith("err")) and r != real:
                failures.append({"request": req, "real": real, "run_time": r, "why": "the const holds a different value than its initializer evaluated in a function"})
            else:
                hist["const_vs_body_same"] += 1
        # ORACLE 4: frozen (const) sets / lists answer like the same literal at run time (membership, length)
        hist["frozen_agree"] = 0
        for req, real in by["frozen"]:
            ctx.nontrivial.add(req)
            exp = req.split(" ")[3]
            if real == exp:
                hist["frozen_agree"] += 1
            else:
                failures.append({"request": req, "real": real, "why": "a const set / list answers membership or length differently from what its literal means at run time"})
        # ORACLE 3: cycles are reported (and nothing loops): ground truth by an independent DFS
        for req, real in by["cycle"]:
            g = {}
            for ent in req.split(" ")[2].split(","):
                n, ds = ent.split(":")
                g[n] = [] if ds == "-" else ds.split("+")
            ctx.nontrivial.add(req)
            cyc = has_cycle(g)
            hist["cycles" if cyc else "acyclic"] += 1
            if real.startswith("TIMEOUT") or real.startswith("panic"):
                failures.append({"request": req, "real": real, "why": "const resolution did not end with a verdict"})
            elif cyc and not real.startswith("cycle"):
                failures.append({"request": req, "real": real, "why": "a const dependency cycle was not reported"})
            elif not cyc and real != "ok":
                failures.append({"request": req, "real": real, "why": "an acyclic const graph was rejected"})
        for f in failures[:5]:
            ctx.violation("oracle", f)
        ctx.samples = [{"request": r[-160:], "real": o} for r, o in by["const"][:3] + by["run"][:2] + by["construn"][:2] + by["cycle"][:2]]
        ctx.coverage_extra = {"histogram": hist, "harness_meta": metas, "oracle_failures": len(failures)}
    ctx.conclude_broken_obligations(failures)
    return ctx.finish(
        rule="seeded random const initializers over 8 base consts (strings with non-ASCII and escapes, empty string, positive/negative/zero ints, bool, float): string concat/index/slice (all bound combinations, known and unknown bounds, nested slices), int/float arithmetic (7 operators), comparisons, and/or/not, membership, ill-typed and non-const shapes; each through the real checker; the well-typed ones also evaluated in a function body of a compiled program; the emittable fragment also as a compiled const; random const dependency graphs (forward-only and arbitrary edges) under a watchdog; past failures first; distinct = distinct expression / graph",
        extra_cov=getattr(ctx, "coverage_extra", None))


# ---------------------------------------------------------------- Python itself as the oracle for values
import struct


class Unsupported(Exception):
    pass


def dec_str(t):
    return "" if t == "-" else "".join(chr(int(x, 16)) for x in t.split(","))


def parse_e(toks):
    """prefix tokens -> nested tuple; returns (node, rest)"""
    t, rest = toks[0], toks[1:]
    k, tl = t[0], t[1:]
    if k == "i":
        return ("int", int(tl)), rest
    if k == "f":
        return ("float", struct.unpack(">d", bytes.fromhex(tl))[0]), rest
    if k == "b":
        return ("bool", tl == "T"), rest
    if k == "s":
        return ("str", dec_str(tl)), rest
    if k == "r":
        return ("ref", tl), rest
    if k == "A":
        return ("absent",), rest
    if k == "O":
        return ("other",), rest
    if k in "N!":
        e, rest = parse_e(rest)
        return ("neg" if k == "N" else "not", e), rest
    if k == "B":
        l, rest = parse_e(rest)
        r, rest = parse_e(rest)
        return ("bin", tl, l, r), rest
    if k == "X":
        b, rest = parse_e(rest)
        i, rest = parse_e(rest)
        return ("index", b, i), rest
    if k == "S":
        b, rest = parse_e(rest)
        a, rest = parse_e(rest)
        c, rest = parse_e(rest)
        d, rest = parse_e(rest)
        return ("slice", b, a, c, d), rest
    raise Unsupported(t)


def py_eval(e, env):
    k = e[0]
    if k in ("int", "float", "bool", "str"):
        return e[1]
    if k == "ref":
        if e[1] not in env:
            raise Unsupported("ref")
        return env[e[1]]
    if k == "neg":
        v = py_eval(e[1], env)
        if isinstance(v, bool) or not isinstance(v, (int, float)):
            raise Unsupported("neg")
        return -v
    if k == "not":
        v = py_eval(e[1], env)
        if not isinstance(v, bool):
            raise Unsupported("not")
        return not v
    if k == "index":
        b, i = py_eval(e[1], env), py_eval(e[2], env)
        if not isinstance(b, str) or isinstance(i, bool) or not isinstance(i, int):
            raise Unsupported("index")
        return b[i]
    if k == "slice":
        b = py_eval(e[1], env)
        bounds = [None if x[0] == "absent" else py_eval(x, env) for x in e[2:5]]
        if not isinstance(b, str) or any(isinstance(x, bool) or not (x is None or isinstance(x, int)) for x in bounds):
            raise Unsupported("slice")
        return b[bounds[0]:bounds[1]:bounds[2]]
    if k == "bin":
        op = e[1]
        if op in ("and", "or"):
            l = py_eval(e[2], env)
            if not isinstance(l, bool):
                raise Unsupported("logic")
            if (op == "and" and not l) or (op == "or" and l):
                return l
            r = py_eval(e[3], env)
            if not isinstance(r, bool):
                raise Unsupported("logic")
            return r
        l, r = py_eval(e[2], env), py_eval(e[3], env)
        num = lambda v: isinstance(v, (int, float)) and not isinstance(v, bool)  # noqa: E731
        if op in ("in", "notIn"):
            if not (isinstance(l, str) and isinstance(r, str)):
                raise Unsupported("in")
            return (l in r) if op == "in" else (l not in r)
        if op in ("eq", "ne", "lt", "gt", "le", "ge"):
            if not ((num(l) and num(r)) or (type(l) is type(r))):
                raise Unsupported("cmp")
            return {"eq": l == r, "ne": l != r, "lt": l < r, "gt": l > r, "le": l <= r, "ge": l >= r}[op]
        if op == "add" and isinstance(l, str) and isinstance(r, str):
            return l + r
        if not (num(l) and num(r)):
            raise Unsupported("arith")
        if op == "add":
            return l + r
        if op == "sub":
            return l - r
        if op == "mul":
            return l * r
        if op == "div":
            return l / r
        if op == "floorDiv":
            return l // r
        if op == "mod":
            return l % r
        if op == "pow":
            # Incan: int result only for a non-negative int literal exponent
            lit_nonneg = e[3][0] == "int"
            v = l ** r
            return v if (lit_nonneg and isinstance(l, int)) else float(v)
    raise Unsupported(k)


def show_py(v):
    if isinstance(v, bool):
        return f"bool:{str(v).lower()}"
    if isinstance(v, int):
        return f"int:{v}"
    if isinstance(v, float):
        return "float:" + struct.pack(">d", v).hex()
    return "str:" + (",".join(format(ord(c), "x") for c in v) if v else "-")


def py_oracle(req):
    """('ok', shown) | ('err', class) | None when outside what Python can judge"""
    parts = req.split(" ")
    env = {}
    try:
        for d in parts[2].split("|"):
            n, enc = d.split("=")
            env[n] = py_eval(parse_e(enc.split(";"))[0], env)
        e = parse_e(parts[3].split(";"))[0]
        return ("ok", show_py(py_eval(e, env)))
    except ZeroDivisionError:
        return ("err", "zeroDivision")
    except IndexError:
        return ("err", "stringIndexOutOfRange")
    except ValueError:
        return ("err", "sliceStepZero")
    except (Unsupported, OverflowError, TypeError):
        return None


def has_cycle(g):
    color = {}

    def dfs(n):
        color[n] = 1
        for d in g.get(n, []):
            if d not in g:
                continue
            if color.get(d) == 1:
                return True
            if color.get(d) is None and dfs(d):
                return True
        color[n] = 2
        return False
    return any(color.get(n) is None and dfs(n) for n in g)
