"""C14 — imports: proof audit + resolver correspondence on generated layouts + agreement/visibility oracle."""
from .common import Ctx, Obligation, tail

EXPECT = {"from-public": "accept", "from-private": "reject", "from-private-const": "reject", "from-mixed": "reject",
          "module-public": "accept", "module-private": "reject", "qualified-private": "reject", "qualified-public": "accept",
          "missing-module-used": "reject", "missing-module-unused": "reject",
          "cycle-2": "reject", "cycle-self": "reject", "cycle-3": "reject"}
FINDING_FOR = {"qualified-private": "C14-qualified-access-bypasses-visibility",
               "missing-module-used": "C14-missing-module-silent", "missing-module-unused": "C14-missing-module-silent",
               "cycle-2": "C14-cycle-accepted-silently", "cycle-self": "C14-cycle-accepted-silently", "cycle-3": "C14-cycle-accepted-silently"}


def run(args):
    ctx = Ctx("C14", args.tier, args.seed)
    ctx.assumptions += ["no module files exist above the modelled directory tree (the real `crate::` lookup walks up to the file-system root)",
                        "the language server's resolver is `resolve_import_path` (called directly); the LSP transport is not involved here"]
    ctx.proof_stage("IncanModel.Props.C14")
    ok, out = ctx.build_harness()
    failures = []
    if not ok:
        ob = Obligation("correspondence", "harness build against /repo")
        ob.ok, ob.detail = False, tail(out, 15)
        ctx.obligations.append(ob)
    else:
        cases, metas = ctx.run_harness("c14", extra=[ctx.scratch])
        model = ctx.run_driver([c[0] for c in cases])
        ctx.evaluations = len(cases)
        res = [(c, m) for c, m in zip(cases, model) if c[0].startswith("c14 resolve")]
        chk = [(c, m) for c, m in zip(cases, model) if c[0].startswith("c14 check") and m != "unmodelled"]
        ctx.tie("model resolveCli / resolveShared = collect_modules / resolve_import_path on generated layouts", [c for c, _ in res], [m for _, m in res])
        ctx.tie("model visibility verdict = real check_with_imports verdict", [(c[0], c[1].split(" ")[0]) for c, _ in chk], [m for _, m in chk])
        vis = [(c, m) for c, m in zip(cases, model) if c[0].startswith("c14 vis")]
        ctx.tie("model exportedNames + rejectedNames = real exported_symbols + validate_import_visibility on generated modules", [c for c, _ in vis], [m for _, m in vis])
        hist = {"agree": 0, "differ": {}, "forms": {}}
        for req, real in cases:
            p = req.split(" ")
            ctx.nontrivial.add(req)
            if real.startswith("panic") or "panic" in real:
                failures.append({"request": req, "real": real, "why": "resolver/checker panicked"})
                continue
            if p[1] == "resolve":
                entry_dir, importer_dir, imp = p[3], p[4], p[5]
                form, segs, ab, lv = imp.split(":")
                hist["forms"][form] = hist["forms"].get(form, 0) + 1
                f = dict(x.split("=", 1) for x in real.split(" "))
                if f["cli"] == f["shared"]:
                    hist["agree"] += 1
                    continue
                # which hypothesis of resolvers_agree_partial is violated?
                if form == "m" and segs.count(".") >= 1:
                    fid = "C14-cli-drops-last-segment"
                elif importer_dir != entry_dir:
                    fid = "C14-cli-resolves-relative-to-entry"
                elif f["shared"].endswith("mod.incn") or f["shared"].endswith("mod.incan"):
                    fid = "C14-cli-ignores-mod-files"
                else:
                    fid = None
                hist["differ"][fid or "unexplained"] = hist["differ"].get(fid or "unexplained", 0) + 1
                if fid and ctx.known(fid):
                    continue
                failures.append({"request": req, "real": real, "why": "the command-line compiler and the language server resolve this import to different files"})
            elif p[1] == "vis":
                # expected: accepted iff the name is a pub declaration of m or a variant of a pub enum of m
                ok_names = set()
                for dd in p[2].split(";"):
                    k, n, pub, vs = dd.split(":")
                    if pub == "1":
                        ok_names.add(n)
                        if k == "enum" and vs != "-":
                            ok_names.update(vs.split("+"))
                exp = "accept" if p[4] in ok_names else "reject"
                hist["vis"] = hist.get("vis", 0) + 1
                if real != exp:
                    failures.append({"request": req, "real": real, "why": f"expected {exp}: only names carried by pub declarations may be imported"})
            else:
                name = p[2]
                verdict = real.split(" ")[0]
                if verdict.startswith("collect-error"):
                    verdict = "reject"
                exp = EXPECT.get(name)
                if exp and verdict != exp:
                    fid = FINDING_FOR.get(name)
                    if fid and ctx.known(fid):
                        continue
                    failures.append({"request": req, "real": real, "why": f"expected {exp}"})
        for f in failures[:5]:
            ctx.violation("oracle", f)
        ctx.samples = [{"request": r[:250], "real": o} for r, o in cases[:3] + cases[100:102] + cases[-3:]]
        ctx.coverage_extra = {"histogram": hist, "harness_meta": metas, "oracle_failures": len(failures)}
    ctx.conclude_broken_obligations(failures)
    return ctx.finish(
        rule="13 hand-made directory layouts × 17 import spellings (module / from forms, 1–3 segments, super/.., crate, alias, std, missing), imports written inside a sub-directory module (4 layouts × 5 spellings), seeded random layouts; 13 whole-project scenarios (public/private × 3 import styles, missing modules, 2/3/self cycles) through collect_modules + check_with_imports; distinct = distinct request",
        extra_cov=getattr(ctx, "coverage_extra", None))
