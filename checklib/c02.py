"""C02 — every program that type-checks also builds: proof audit + checker/build correspondence + build oracle."""
from .common import Ctx, Obligation, tail

PROBE_WHAT = {
 "len-before-less-than": "`len(xs) < n` is emitted as `xs.len() as i64 < n`, which rustc parses as the start of generic arguments (emit/expressions/builtins.rs Len; the unparenthesised cast is pinned by the `builtins`/`classes` snapshots)",
 "string-variable-concat": "`s + t` on str variables is emitted as `str_concat(s, t)` passing `String` where `&str` is expected (pinned by snapshots)",
 "unimported-pub-name-of-imported-module": "multi-file: a pub item of an imported module that the import does not name is accepted by its bare name; the generated `use` lines name only the imported items (E0425)",
 "string-variable-concat-reused": "`a = s + t; b = s + t`: `str_concat(s, t)` takes its operands by value, so the second use of `s` / `t` is a use after move (E0382); lending the operands would change the `str_concat(s, \" world\")` text the `assignments` / `string_operations` snapshots pin",
 "string-variable-used-twice": "a str variable compared twice in one function is moved into the first helper call (E0382)",
 "list-of-string-literals": "`xs: List[str] = [\"a\"]` is emitted as `vec![\"a\"]` (Vec<&str>) where Vec<String> is required",
 "dict-literal-with-string-keys": "`d: Dict[str, int] = {\"a\": 1}` is emitted with `&str` keys where String keys are required",
 "const-floor-division": "const initializers using //, %, /, ** or string comparison are emitted as calls of non-const helper functions (E0015)",
 "const-string-index": "string indexing / slicing / membership in a const initializer is accepted by the checker and refused by the emitter (phase 1)",
 "int-float-comparison": "`n < x` with int n and float x is emitted as `(n) as f64 < x`, a cast followed by `<` (syn parse error)",
 "pow-literal-base": "`2 ** 3` is emitted as `2.pow(3 as u32)` on an integer literal of ambiguous type (E0689)",
 "tuple-unpack": "`a, b = (1, 2)` is lowered to a single binding `a_b` (E0425 on the first use of `a`)",
 "tuple-assign-swap": "`xs[0], xs[1] = (xs[1], xs[0])` is accepted by the checker; lowering answers `TupleAssign not yet implemented`",
 "newtype-named-argument": "`Pos(n=5)` on a newtype is accepted by the checker; the emitter panics building a tuple-struct literal with a named field",
 "derive-eq-with-float-field": "`@derive(Eq)` on a model with a float field is accepted; `f64: Eq` does not hold",
 "model-key-dict-read": "`d[k]` with a model key needs `K: Display` for the KeyError text (stdlib dict_get)",
 "user-method-named-pop": "a user method called `pop` keeps the builtin list lowering (`s.pop().unwrap_or_default()`), pinned by the `classes` snapshot",
 "match-arms-string-literals": "a match expression whose arms are string literals yields `&str` where `String` is expected",
 "string-literal-concat-returned": "`return \"a\" + \"b\"` is folded to `concat!(..)` (&'static str) in a function returning String",
 "nested-retype-of-outer-variable": "assigning a value of another type to an outer `mut` variable from a nested block is accepted by the checker (type compared only for same-block re-assignment; pinned by the `inferred_reassign` snapshot, whose `num = num / 2` relies on it) and rejected by rustc (E0308)",
 "append-while-iterating": "appending to a list inside a `for` over the same list is accepted; rustc rejects the mutable borrow (E0502)",
 "derive-partialord-alone": "`@derive(PartialOrd)` without PartialEq is accepted; rustc needs PartialEq",
 "list-count-method": "`xs.count(1)` (also `xs.index(x)`) type-checks and is emitted as a method call `Vec` does not have (E0599): `detect_list_helpers_usage` sets a flag no emitter reads",
 "annotated-none-binding": "`o: Option[int] = None` is emitted as `let o = None::<_>;`: the annotation is dropped, and when nothing else fixes the type rustc cannot infer it (E0282); the emitted text is pinned by the type_annotations / patterns / lowercase_types snapshots",
 "default-parameter-omitted": "`def f(a: int, b: int = 2)` called as `f(1)`: default parameter values are parsed and type-checked but the backend emits the function with two plain parameters and the call with one argument (E0061)",
 "mutating-builtin-on-immutable-collection": "`xs = [1]; xs.append(2)` on an immutable list is accepted (the `function_calls` snapshot source relies on it); rustc E0596",
 "type-name-as-value-argument": "a type name bound to a variable (`f = Pos`) is typed as an instance and accepted as an argument",
}


def run(args):
    ctx = Ctx("C02", args.tier, args.seed)
    ctx.assumptions += ["rustc's requirements on the constructs of the core fragment (assignment only to `let mut`, equal types, bool conditions, helper parameter types) as stated in Sem/CoreTyping.lean (rustS): trusted, and validated by building every generated program",
                        "the theorem covers function bodies of the core fragment; declarations, strings held in variables, floats, collections of strings, consts, pattern matching and multi-file layout are covered by the probes and the project stream only",
                        "cargo/rustc trusted; multi-file projects are built by the real `incan build` in-process with a shared target directory"]
    ctx.proof_stage("IncanModel.Props.C02")
    ok, out = ctx.build_harness()
    failures = []
    if not ok:
        ob = Obligation("correspondence", "harness build against /repo")
        ob.ok, ob.detail = False, tail(out, 15)
        ctx.obligations.append(ob)
    else:
        cases, metas = ctx.run_harness("c02", extra=[ctx.scratch], timeout=3400)
        ctx.evaluations = len(cases)
        core = [c for c in cases if c[0].startswith("c02 core ")]
        probes = [c for c in cases if c[0].startswith("c02 probe ")]
        projects = [c for c in cases if c[0].startswith("c02 project ")]
        negative = [c for c in cases if c[0].startswith("c02 negative ")]
        derive = [c for c in cases if c[0].startswith("c02 derive ")]
        examples = [c for c in cases if c[0].startswith("c02 example ")]
        model = ctx.run_driver([c[0] for c in core])
        ctx.tie("model chkB (checker as implemented) and rustB (lowering + rustc) = real checker verdict and real build outcome, on well-typed, borderline and ill-typed variants of generated function bodies",
                [(r, " ".join(o.split(" ")[:2]).strip()) for r, o in core], model)
        hist = {"accepted_and_built": 0, "rejected": 0, "accepted_not_built_known": 0, "probes_open": 0, "probes_now_building": 0, "projects_built": 0, "variants": {}}
        for req, real in core:
            tag = req.split(" ")[2]
            ctx.nontrivial.add(req)
            hist["variants"][tag] = hist["variants"].get(tag, 0) + 1
            if real.startswith("accept built"):
                hist["accepted_and_built"] += 1
            elif real in ("reject",):
                hist["rejected"] += 1
            elif real.startswith("accept"):
                if tag == "nested-retype" and ctx.known("C02-nested-retype-of-outer-variable"):
                    hist["accepted_not_built_known"] += 1
                    continue
                failures.append({"request": req[:300], "real": real, "why": "the checker accepts this function body but the generated project does not build"})
            else:
                failures.append({"request": req[:300], "real": real, "why": "no checker verdict"})
        for req, real in probes:
            name = req.split(" ")[2]
            ctx.nontrivial.add(req)
            if real.startswith("accept built") or real.startswith("reject"):
                hist["probes_now_building"] += 1
                continue
            if real.startswith("accept"):
                if ctx.known(f"C02-{name}"):
                    hist["probes_open"] += 1
                    continue
                failures.append({"request": req, "real": real, "why": "checker accepts, build fails"})
            else:
                failures.append({"request": req, "real": real, "why": "no checker verdict"})
        hist.update({"negative_rejected": 0, "derive_subsets_built": 0, "repository_examples_built": 0})
        for req, real in negative + derive + examples:
            ctx.nontrivial.add(req)
            kind = req.split(" ")[1]
            if real == "reject":
                hist["negative_rejected"] += kind == "negative"
            elif real.startswith("accept built"):
                if kind == "derive":
                    hist["derive_subsets_built"] += 1
                if kind == "example":
                    hist["repository_examples_built"] += 1
            elif real.startswith("accept"):
                failures.append({"request": req, "real": real, "why": "the checker accepts this program but the generated project does not build"})
            else:
                failures.append({"request": req, "real": real, "why": "no checker verdict"})
        for req, real in projects:
            ctx.nontrivial.add(req)
            exp = req.split(" ")[3]
            if real == f"built {exp}":
                hist["projects_built"] += 1
            else:
                failures.append({"request": req, "real": real, "why": "a multi-file project the checker accepts does not build (or prints something else)"})
        for f in failures[:5]:
            ctx.violation("oracle", f)
        ctx.samples = [{"request": r[:200], "real": o[:120]} for r, o in core[:3] + probes[:2] + projects[:1]]
        ctx.coverage_extra = {"histogram": hist, "harness_meta": metas, "oracle_failures": len(failures)}
    ctx.conclude_broken_obligations(failures)
    return ctx.finish(
        rule="generated function bodies of the core fragment (as in C01) in 9 variants: well-typed, immutable accumulator, re-typing an outer variable from a nested block, same-block re-typing, undefined name, `mut` shadow inside a block, compound / plain assignment to an immutable whose name is bound mutably in an earlier function, wrong return type — checker verdict in-process, then every program built by rustc in one batch; 19 ill-typed programs the checker must not let through to rustc; derive subsets (10 derives, rotated order, model and class) built; every single-file example and valid fixture of the repository that needs no external crate built and run; 21 probes, one per recorded construct that type-checks but does not build; multi-file projects with nested module directories built by the real `incan build`; distinct = distinct request",
        extra_cov=getattr(ctx, "coverage_extra", None))
