"""C01 — compiled programs behave as the source says: proof audit + compiled-program correspondence + CPython oracle."""
import subprocess

from .common import Ctx, Obligation, tail

GROUPING = "C01-grouping-lost-in-infix-emission"


def python_says(pyfile, whole_i64=False):
    """Run the Python rendering of the program: ('done'|'ZeroDivisionError'|'IndexError', printed lines)."""
    try:
        p = subprocess.run(["python3", "-X", "int_max_str_digits=0", pyfile], stdout=subprocess.PIPE, stderr=subprocess.PIPE, text=True, timeout=20)
    except subprocess.TimeoutExpired:
        return None
    lines = p.stdout.strip("\n").split("\n") if p.stdout.strip("\n") else []
    # integers beyond 62 bits: outside the fragment (the documented semantics says nothing about i64 overflow)
    for ln in lines:
        for tok in ln.split(" "):
            t = tok.lstrip("-")
            if t.isdigit() and len(t) >= 18 and not (whole_i64 and -2**63 <= int(tok) < 2**63):
                return "overflow"
    if p.returncode == 0:
        stop = "done"
    elif "ZeroDivisionError" in p.stderr:
        stop = "ZeroDivisionError"
    elif "IndexError" in p.stderr:
        stop = "IndexError"
    else:
        return None
    return f"{stop} {','.join(lines) if lines else '-'}"


def run(args):
    ctx = Ctx("C01", args.tier, args.seed)
    ctx.assumptions += ["integers stay far from the i64 limits in generated programs (the model computes in unbounded integers; overflow behaviour is outside the documented semantics)",
                        "the Rust meaning of the restructured core (nested if/else, while, for, assignment, short-circuit operators, helper calls) is the interpreter's: trusted, and validated on every run by executing the compiled programs",
                        "rustc's precedence table for the operators the emitter writes infix (`||` < `&&` < comparisons (non-chaining) < `+ -` < `*` < unary) as transcribed in Sem/Regroup.lean",
                        "CPython is the reference for the documented (Python-like) semantics of the fragment; stdout formatting differences (True/true) are normalised",
                        "floats, models/classes/enums, Option/Result matching and string variables are outside this fragment (C04/C05/C07/C17/C20 cover their runtime kernels; string variables mostly do not build: C02)"]
    ctx.proof_stage("IncanModel.Props.C01")
    ok, out = ctx.build_harness()
    failures = []
    if not ok:
        ob = Obligation("correspondence", "harness build against /repo")
        ob.ok, ob.detail = False, tail(out, 15)
        ctx.obligations.append(ob)
    else:
        cases, metas = ctx.run_harness("c01", extra=[ctx.scratch], timeout=3400)
        ctx.evaluations = len(cases)
        feat_cases = [c for c in cases if c[0].startswith("c01 feat ")]
        cases = [c for c in cases if not c[0].startswith("c01 feat ")]
        comp_cases = [c for c in cases if c[0].startswith("c01 comp ")]
        cases = [c for c in cases if not c[0].startswith("c01 comp ")]
        disp_cases = [c for c in cases if c[0].startswith("c01 dispatch ")]
        cases = [c for c in cases if not c[0].startswith("c01 dispatch ")]
        pys = [python_says(c[0].split(" ")[-1]) for c in cases]
        n_over = sum(1 for x in pys if x == "overflow")
        keep = [i for i, x in enumerate(pys) if x != "overflow"]
        cases = [cases[i] for i in keep]
        pys = [pys[i] for i in keep]
        model = ctx.run_driver([c[0] for c in cases])
        pred = [m.split(" safe=")[0] for m in model]
        ctx.tie("model (restructuring + rustc's re-reading of the emitted text + interpreter) = stdout and stop reason of the compiled program", cases, pred)
        hist = {"skipped_integer_overflow": 0, "agree_with_python": 0, "unsafe_programs": 0, "unsafe_and_wrong": 0, "stops": {}, "unbuildable": 0}
        hist["skipped_integer_overflow"] = n_over
        for (req, real), m, exp in zip(cases, model, pys):
            p = req.split(" ")
            kind, pyfile = p[1], p[-1]
            ctx.nontrivial.add(p[3])
            safe = " safe=1" in m
            if not safe:
                hist["unsafe_programs"] += 1
            if not (real.startswith("done") or real.startswith("ZeroDivisionError") or real.startswith("IndexError")):
                hist["unbuildable"] += 1
                failures.append({"request": req[:300], "real": real, "why": "a program of the core fragment did not build and run to a defined outcome"})
                continue
            hist["stops"][real.split(" ")[0]] = hist["stops"].get(real.split(" ")[0], 0) + 1
            if exp is None:
                failures.append({"request": req[:300], "real": real, "why": "the Python rendering of the program did not run: oracle unavailable"})
                continue
            if real == exp:
                hist["agree_with_python"] += 1
                continue
            # wrong behaviour: is it the recorded grouping loss (unsafe program AND the re-reading model explains it)?
            if (not safe) and m.split(" safe=")[0] == real and ctx.known(GROUPING):
                hist["unsafe_and_wrong"] += 1
                continue
            failures.append({"request": req[:400], "real": real, "python": exp, "source": pyfile.replace(".py", ".incn"),
                             "why": "the compiled program prints / stops differently from the documented meaning of its source"})
        # second stream: feature programs beyond the core fragment, CPython oracle only (no Lean model)
        hist["feature_programs_agree"] = 0
        for req, real in feat_cases:
            name, pyfile = req.split(" ")[2], req.split(" ")[-1]
            ctx.nontrivial.add(req)
            # the boundary template prints values up to the ends of the 64-bit range on purpose
            exp = python_says(pyfile, whole_i64=(name == "int-boundary-arithmetic"))
            if exp is None or exp == "overflow":
                failures.append({"request": req, "real": real, "why": "the Python rendering of the feature program did not run: oracle unavailable"})
            elif real != exp:
                failures.append({"request": req, "real": real, "python": exp, "source": pyfile.replace(".py", ".incn"),
                                 "why": f"feature program `{name}`: the compiled program prints / stops differently from the documented meaning of its source"})
            else:
                hist["feature_programs_agree"] += 1
        # third stream: method dispatch along `extends` chains — model tie + the documented rule (most derived wins)
        ctx.tie("model comprehension (filter on the loop variable, then the element expression) = list printed by compiled comprehensions over lists and ranges",
                comp_cases, ctx.run_driver([c[0] for c in comp_cases]))
        for req, _ in comp_cases:
            ctx.nontrivial.add(req)
        ctx.tie("model dispatch (inheritedMethods: retain + push per class, ancestors first) = which body a method call runs in compiled class chains", disp_cases, ctx.run_driver([c[0] for c in disp_cases]))
        hist["class_chains_agree"] = 0
        for req, real in disp_cases:
            ctx.nontrivial.add(req)
            levels = [(l.split(":")[0], [m for m in l.split(":")[1].split(",") if m]) for l in req.split(" ")[2].split(";")]
            lines = []
            for i in range(len(levels)):
                for m in ("a", "b", "c", "d"):
                    owners = [c for c, ms in levels[:i + 1] if m in ms]
                    if owners:
                        lines.append(f"{i}.{m}={owners[-1]}")
            exp = "done " + (",".join(lines) if lines else "-")
            if real != exp:
                failures.append({"request": req, "real": real, "expected": exp, "why": "a method call on an instance of a subclass must run the most derived body (overriding), an inherited method the ancestor's"})
            else:
                hist["class_chains_agree"] += 1
        for f in failures[:5]:
            ctx.violation("oracle", f)
        ctx.samples = [{"request": r[:240], "real": o[:120]} for r, o in cases[:2] + cases[-2:]]
        ctx.coverage_extra = {"histogram": hist, "harness_meta": metas, "oracle_failures": len(failures)}
    ctx.conclude_broken_obligations(failures)
    return ctx.finish(
        rule="seeded random programs of the core fragment: a function f(a, b, flag, xs) with up to 3 levels of nested if / 0–3 elif / else, bounded while loops with break/continue, for over range and over lists, compound assignments with all five integer operators, prints of integer and boolean expressions built by a precedence-layered generator (so the source groups as written, without parentheses), calls of two printing helpers (evaluation order observable), list append / len / indexing with positive and negative indices; every program called with three argument tuples, compiled with rustc and run; 7 grouping probes; 3 hand-written regression programs first; plus 12 feature templates beyond the core fragment with seeded constants (Option/Result/`?`, enum match, model and class methods with mutation, f-strings incl. literal braces, string methods, dicts, recursion, comprehensions and slices, tuples, numeric promotion through comparisons, while/break/continue/early return) judged by CPython only; plus class chains of depth 1-3 declaring random subsets of four methods, every available method called on an instance of every class (model dispatch + the overriding rule); distinct = distinct program",
        extra_cov=getattr(ctx, "coverage_extra", None))
