"""Shared machinery for every property check.

Stages (DESIGN.md §1.1):  PROOF (lake build + axiom/grep audit)  ->  TIE (harness vs Lean driver)
->  ORACLE (property predicate on the real outputs)  ->  classification + evidence.
"""
import hashlib
import json
import os
import re
import subprocess
import sys
import time

VERIF = os.path.dirname(os.path.dirname(os.path.abspath(__file__)))
LEAN = os.path.join(VERIF, "lean")
HARNESS = os.path.join(VERIF, "harness")
BUILD = os.path.join(VERIF, ".build")
SCRATCH = os.path.join(BUILD, "scratch")
REPLAY = os.path.join(BUILD, "replay")
TARGET = os.path.join(BUILD, "target")
HARNESS_BIN = os.path.join(TARGET, "release", "verif-harness")
DRIVER_BIN = os.path.join(LEAN, ".lake", "build", "bin", "driver")
REPO = "/repo"

ALLOWED_AXIOMS = {"propext", "Classical.choice", "Quot.sound"}
FORBIDDEN = re.compile(
    r"\bsorry\b|\badmit\b|^\s*axiom\s|\bnative_decide\b|\bbv_decide\b|\bimplemented_by\b|\bunsafe\s|maxHeartbeats\s+0\b"
)

ENV = dict(os.environ)
ENV.update({"CARGO_NET_OFFLINE": "true", "CARGO_TARGET_DIR": TARGET})

TRUSTED_BASE = [
    "Lean 4.33.0 kernel (lake build re-checks every changed module; thorough tier adds leanchecker)",
    "axioms allowed in property theorems: propext, Classical.choice, Quot.sound (audited with #print axioms on every run)",
    "hand-written Lean model tied to /repo by the correspondence harness (differential, coverage as reported here)",
    "rustc/cargo, std, and the harness + check scripts themselves",
]


def sh(cmd, cwd=None, timeout=None, env=None, input=None):
    p = subprocess.run(cmd, cwd=cwd, env=env or ENV, stdout=subprocess.PIPE, stderr=subprocess.STDOUT,
                       text=True, timeout=timeout, input=input)
    return p.returncode, p.stdout


class Obligation:
    def __init__(self, kind, name):
        self.kind = kind  # "theorem" | "correspondence" | "audit"
        self.name = name
        self.ok = None
        self.detail = ""

    def as_json(self):
        return {"kind": self.kind, "name": self.name, "ok": bool(self.ok), "detail": self.detail[:400]}


class Ctx:
    def __init__(self, prop, tier, seed):
        self.prop = prop
        self.tier = tier
        self.seed = seed
        self.t0 = time.time()
        self.obligations = []
        self.violations = []      # list of (replay_path, suffix)
        self.known_lines = []     # KNOWN-FINDING lines printed
        self.coverage = {}
        self.assumptions = []
        self.samples = []
        self.evaluations = 0
        self.nontrivial = set()
        self.notes = []
        os.makedirs(SCRATCH, exist_ok=True)
        os.makedirs(REPLAY, exist_ok=True)
        self.scratch = os.path.join(SCRATCH, f"{prop}-{os.getpid()}")
        os.makedirs(self.scratch, exist_ok=True)
        self.findings = load_known_findings(prop)

    # ---------------------------------------------------------------- PROOF stage
    def lean_build(self, modules):
        """Build the property module(s) and the driver. Returns True when every module checked."""
        ok_all = True
        rc, out = sh(["lake", "build"] + modules + ["driver"], cwd=LEAN, timeout=3000)
        if rc != 0:
            ok_all = False
        self.lake_log = out
        return ok_all, out

    def proof_stage(self, prop_module, extra_modules=()):
        """Kernel-check the property module; audit axioms of every theorem in it; grep audit."""
        mods = [prop_module] + list(extra_modules)
        ok, out = self.lean_build(mods)
        thms = theorems_in(prop_module)
        if not ok:
            failing = sorted(set(re.findall(r"error: (IncanModel/[\w/]+\.lean):(\d+)", out)))
            ob = Obligation("theorem", f"{prop_module} (lake build)")
            ob.ok = False
            ob.detail = "lake build failed: " + "; ".join(f"{f}:{l}" for f, l in failing[:8]) + "\n" + tail(out, 30)
            self.obligations.append(ob)
            for t in thms:
                o = Obligation("theorem", t)
                o.ok = False
                o.detail = "module did not build"
                self.obligations.append(o)
            return False
        # axiom audit
        axioms = print_axioms(prop_module, thms)
        all_ok = True
        for t in thms:
            o = Obligation("theorem", t)
            ax = axioms.get(t)
            if ax is None:
                o.ok = False
                o.detail = "no #print axioms output"
            else:
                bad = [a for a in ax if a not in ALLOWED_AXIOMS]
                o.ok = not bad
                o.detail = "axioms: " + (", ".join(sorted(ax)) or "none") + (f"  FORBIDDEN: {bad}" if bad else "")
            all_ok &= bool(o.ok)
            self.obligations.append(o)
        # grep audit over all lean sources the module can depend on
        g = Obligation("audit", "grep: no sorry/admit/axiom/native_decide/bv_decide/implemented_by/unsafe/maxHeartbeats 0")
        hits = grep_audit()
        g.ok = not hits
        g.detail = "; ".join(hits[:5])
        all_ok &= g.ok
        self.obligations.append(g)
        if self.tier == "thorough":
            lc = Obligation("audit", f"leanchecker {prop_module}")
            rc, out = sh(["lake", "env", "leanchecker", prop_module], cwd=LEAN, timeout=3000)
            lc.ok = rc == 0
            lc.detail = tail(out, 5)
            all_ok &= lc.ok
            self.obligations.append(lc)
        return all_ok

    # ---------------------------------------------------------------- TIE stage
    def build_harness(self):
        rc, out = sh(["cargo", "build", "--release", "--offline"], cwd=HARNESS, timeout=3000)
        self.cargo_log = out
        return rc == 0, out

    def run_harness(self, sub, extra=(), timeout=3000, name=None):
        path = os.path.join(self.scratch, (name or sub) + ".tsv")
        rc, out = sh([HARNESS_BIN, sub, self.tier, str(self.seed), path] + list(extra), timeout=timeout)
        if rc != 0:
            raise RuntimeError(f"harness {sub} failed rc={rc}: {tail(out, 20)}")
        cases, metas = [], []
        with open(path, encoding="utf-8", errors="surrogateescape", newline="\n") as f:
            for line in f:
                line = line.rstrip("\n")
                if line.startswith("#"):
                    metas.append(json.loads(line[1:]))
                    continue
                req, _, real = line.partition("\t")
                cases.append((req, real))
        return cases, metas

    def run_driver(self, requests, timeout=3000):
        inp = "\n".join(requests) + "\n"
        p = subprocess.run([DRIVER_BIN], input=inp, stdout=subprocess.PIPE, stderr=subprocess.PIPE, text=True,
                           timeout=timeout)
        if p.returncode != 0:
            raise RuntimeError(f"driver failed rc={p.returncode}: {p.stderr[-500:]}")
        outs = p.stdout.split("\n")
        if outs and outs[-1] == "":
            outs.pop()
        if len(outs) != len(requests):
            raise RuntimeError(f"driver answered {len(outs)} lines for {len(requests)} requests")
        return outs

    def tie(self, stream_name, cases, model_outs, canon=None):
        """Compare real vs model outputs; records a correspondence obligation. Returns disagreements."""
        ob = Obligation("correspondence", stream_name)
        dis = []
        for (req, real), mod in zip(cases, model_outs):
            a, b = (canon(real), canon(mod)) if canon else (real, mod)
            if a != b:
                dis.append({"request": req, "real": real, "model": mod})
        ob.ok = not dis
        ob.detail = f"{len(cases)} cases, {len(dis)} disagreements" + (f"; first: {json.dumps(dis[0])}" if dis else "")
        self.obligations.append(ob)
        return dis

    # ---------------------------------------------------------------- classification
    def write_replay(self, tag, payload):
        h = hashlib.sha1(json.dumps(payload, sort_keys=True, default=str).encode()).hexdigest()[:10]
        path = os.path.join(REPLAY, f"{self.prop}-{tag}-{h}.json")
        with open(path, "w") as f:
            json.dump(payload, f, indent=1, default=str)
        return path

    def violation(self, tag, payload, no_failing_input=False):
        path = self.write_replay(tag, payload)
        self.violations.append((path, " no-failing-input-found" if no_failing_input else ""))

    def known(self, finding_id, still_fails=True):
        for f in self.findings:
            if f["id"] == finding_id and f.get("status", "open") == "open":
                line = f"KNOWN-FINDING: property={self.prop} {f['what_fails']}"
                if still_fails and line not in self.known_lines:
                    self.known_lines.append(line)
                return True
        return False

    def is_open(self, finding_id):
        return any(f["id"] == finding_id and f.get("status", "open") == "open" for f in self.findings)

    def conclude_broken_obligations(self, oracle_failures_outside_findings):
        """If a proof obligation or a correspondence stream is broken and the oracle/search found no
        failing input, report it with no-failing-input-found."""
        broken = [o for o in self.obligations if not o.ok]
        if broken and not self.violations and not oracle_failures_outside_findings:
            self.violation("obligation", {
                "what": "proof obligation / correspondence no longer checks; search of model and implementation found no failing input",
                "broken": [o.as_json() for o in broken],
            }, no_failing_input=True)

    # ---------------------------------------------------------------- evidence
    def finish(self, rule, extra_cov=None):
        n_ob = len(self.obligations)
        n_ok = sum(1 for o in self.obligations if o.ok)
        cov = {
            "obligations": max(n_ob, 1),
            "discharged": n_ok if n_ob else 0,
            "checker_cmd": f"cd /verif/lean && lake build IncanModel.Props.{self.prop} && #print axioms audit (check {self.prop} --tier {self.tier})",
            "trusted_base": TRUSTED_BASE + self.assumptions,
            "evaluations": self.evaluations,
            "distinct_nontrivial": len(self.nontrivial),
            "rule": rule,
            "samples": self.samples[:12] if self.samples else ["<none>"],
            "obligation_list": [o.as_json() for o in self.obligations],
            "known_findings_printed": self.known_lines,
            "notes": self.notes,
        }
        if extra_cov:
            cov.update(extra_cov)
        ev = {
            "property_id": self.prop,
            "tier": self.tier,
            "seed": self.seed,
            "level": "proof",
            "coverage": cov,
            "assumptions": self.assumptions,
            "wall_s": round(time.time() - self.t0, 2),
            "violations": len(self.violations),
        }
        os.makedirs(os.path.join(VERIF, "evidence"), exist_ok=True)
        with open(os.path.join(VERIF, "evidence", f"{self.prop}.json"), "w") as f:
            json.dump(ev, f, indent=1)
        for line in self.known_lines:
            print(line)
        for path, suffix in self.violations:
            print(f"VIOLATION property={self.prop} replay={path}{suffix}")
        # scratch cleanup
        subprocess.run(["rm", "-rf", self.scratch])
        print(f"[{self.prop}] tier={self.tier} obligations={n_ok}/{n_ob} evaluations={self.evaluations} "
              f"violations={len(self.violations)} known={len(self.known_lines)} wall={ev['wall_s']}s")
        return 1 if self.violations else 0


def tail(s, n):
    return "\n".join(s.strip().split("\n")[-n:])


def module_path(mod):
    return os.path.join(LEAN, mod.replace(".", "/") + ".lean")


def strip_comments(src):
    # remove /- ... -/ (nested not handled beyond one level, fine for our files) and -- comments
    out, i, depth = [], 0, 0
    while i < len(src):
        if src.startswith("/-", i):
            depth += 1
            i += 2
        elif src.startswith("-/", i) and depth:
            depth -= 1
            i += 2
        elif depth:
            if src[i] == "\n":
                out.append("\n")
            i += 1
        elif src.startswith("--", i):
            while i < len(src) and src[i] != "\n":
                i += 1
        else:
            out.append(src[i])
            i += 1
    return "".join(out)


def theorems_in(mod):
    src = strip_comments(open(module_path(mod)).read())
    ns = []
    thms = []
    for line in src.split("\n"):
        m = re.match(r"\s*namespace\s+([\w.]+)", line)
        if m:
            ns.append(m.group(1))
            continue
        m = re.match(r"\s*end\s+([\w.]+)", line)
        if m and ns and ns[-1] == m.group(1):
            ns.pop()
            continue
        m = re.match(r"\s*(?:protected\s+|private\s+)?theorem\s+([\w.']+)", line)
        if m:
            thms.append(".".join(ns + [m.group(1)]))
    return thms


def print_axioms(mod, thms):
    path = os.path.join(SCRATCH, f"axioms-{mod}-{os.getpid()}.lean")
    with open(path, "w") as f:
        f.write(f"import {mod}\n")
        for t in thms:
            f.write(f"#print axioms {t}\n")
    rc, out = sh(["lake", "env", "lean", path], cwd=LEAN, timeout=1200)
    os.unlink(path)
    res = {}
    # "'Name' depends on axioms: [a, b]"  or "'Name' does not depend on any axioms"
    for m in re.finditer(r"'([^']+)' depends on axioms: \[([^\]]*)\]", out):
        res[m.group(1)] = [a.strip() for a in m.group(2).replace("\n", " ").split(",") if a.strip()]
    for m in re.finditer(r"'([^']+)' does not depend on any axioms", out):
        res[m.group(1)] = []
    return res


def grep_audit():
    hits = []
    for root, _, files in os.walk(os.path.join(LEAN, "IncanModel")):
        for fn in files:
            if not fn.endswith(".lean"):
                continue
            p = os.path.join(root, fn)
            src = strip_comments(open(p).read())
            for i, line in enumerate(src.split("\n"), 1):
                if FORBIDDEN.search(line):
                    hits.append(f"{os.path.relpath(p, LEAN)}:{i}: {line.strip()[:80]}")
    return hits


def load_known_findings(prop):
    p = os.path.join(VERIF, "known_findings.json")
    if not os.path.exists(p):
        return []
    data = json.load(open(p))
    return [f for f in data.get("findings", []) if f.get("property") == prop]


def parse_args(argv):
    import argparse
    ap = argparse.ArgumentParser()
    ap.add_argument("prop")
    ap.add_argument("--tier", default=os.environ.get("VERIF_TIER", "quick"), choices=["quick", "thorough"])
    ap.add_argument("--seed", type=int, default=int(os.environ.get("VERIF_SEED", "20260923")))
    ap.add_argument("--replay", default=None)
    return ap.parse_args(argv)
