"""C05 — indexing, slicing, range: proof audit + correspondence + CPython itself as the oracle."""
import itertools

from .common import Ctx, Obligation, tail


def dec(s):
    return "" if s == "-" else "".join(chr(int(t, 16)) for t in s.split(","))


def enc(s):
    return "-" if not s else ",".join(format(ord(c), "x") for c in s)


def optv(s):
    return None if s == "none" else int(s)


def expected(req):
    """What Python does for the same request, in the harness's output format."""
    p = req.split(" ")
    op = p[1]
    if op in ("stridx", "corestridx"):
        s, i = dec(p[2]), int(p[3])
        try:
            return "ok " + enc(s[i])
        except IndexError:
            return "panic IndexError: string index out of range" if op == "stridx" else "err IndexOutOfRange"
    if op in ("strslice", "corestrslice"):
        s, a, b, c = dec(p[2]), optv(p[3]), optv(p[4]), optv(p[5])
        if c == 0:
            return "panic ValueError: slice step cannot be zero" if op == "strslice" else "err SliceStepZero"
        return "ok " + enc(s[a:b:c])
    if op in ("listget", "listgetmut"):
        n, i = int(p[2]), int(p[3])
        xs = list(range(n))
        try:
            return f"ok {xs[i]}"
        except IndexError:
            return f"panic IndexError: index {i} out of range for list of length {n}"
    if op == "listslice":
        n, a, b, c = int(p[2]), optv(p[3]), optv(p[4]), optv(p[5])
        if c == 0:
            return "panic ValueError: slice step cannot be zero"
        r = list(range(n))[a:b:c]
        return "ok " + (",".join(map(str, r)) if r else "-")
    if op == "range":
        a, b, c, cap = (int(x) for x in p[2:6])
        if c == 0:
            return "panic ValueError: range() arg 3 must not be zero"
        r = range(a, b, c)
        vs = list(itertools.islice(r, cap + 1))
        more = len(vs) > cap
        vs = vs[:cap]
        return "ok " + (",".join(map(str, vs)) if vs else "-") + (" more" if more else "")
    if op == "parse":
        text = dec(p[2]).replace(" ", "")
        parts = text.split(":")
        if len(parts) == 1:
            return f"index {parts[0]}"
        parts += [""] * (3 - len(parts))
        return "slice " + " ".join(x if x else "none" for x in parts)
    if op == "dictget":
        keys = [] if p[2] == "_" else [dec(k) for k in p[2].split(";")]
        k = dec(p[3])
        d = {kk: i for i, kk in enumerate(keys)}
        return f"ok {d[k]}" if k in d else f"panic KeyError: '{k}' not found in dict"
    raise ValueError(req)


NAMES = {"stridx": "str_index", "corestridx": "incan_core::str_char_at", "strslice": "str_slice",
         "corestrslice": "incan_core::str_slice", "listget": "list_get", "listgetmut": "list_get_mut",
         "listslice": "list_slice", "range": "range/PyRange::next", "dictget": "dict_get"}


def run(args):
    ctx = Ctx("C05", args.tier, args.seed)
    ctx.assumptions += ["sequences have fewer than 2^63 elements (`len as i64`)",
                        "CPython 3 (this interpreter) is the oracle for s[i], s[a:b:c], range(a,b,c)"]
    ctx.proof_stage("IncanModel.Props.C05")
    ok, out = ctx.build_harness()
    failures = []
    if not ok:
        ob = Obligation("correspondence", "harness build against /repo")
        ob.ok, ob.detail = False, tail(out, 15)
        ctx.obligations.append(ob)
    else:
        cases, metas = ctx.run_harness("c05")
        modelled = [c for c in cases if c[0].split(" ")[1] != "parse"]   # slice *syntax* is oracle-only until the parser model (C08) covers it
        model = ctx.run_driver([c[0] for c in modelled])
        ctx.evaluations = len(cases)
        by_stream = {}
        for c, m in zip(modelled, model):
            by_stream.setdefault(c[0].split(" ")[1], []).append((c, m))
        for name, items in sorted(by_stream.items()):
            ctx.tie(f"model = real on {NAMES.get(name, name)}", [i[0] for i in items], [i[1] for i in items])
        hist = {}
        kinds = {"ok_nonempty": 0, "ok_empty": 0, "IndexError": 0, "ValueError": 0, "KeyError": 0, "negative_step": 0,
                 "extreme_operand": 0, "capped_ranges": 0}
        for req, real in cases:
            p = req.split(" ")
            hist[p[1]] = hist.get(p[1], 0) + 1
            ctx.nontrivial.add(req)
            if real.startswith("ok -"):
                kinds["ok_empty"] += 1
            elif real.startswith("ok"):
                kinds["ok_nonempty"] += 1
            for k in ("IndexError", "ValueError", "KeyError"):
                if k in real or (k == "IndexError" and "IndexOutOfRange" in real) or (k == "ValueError" and "SliceStepZero" in real):
                    kinds[k] += 1
            if any(len(t) > 17 for t in p[2:]):
                kinds["extreme_operand"] += 1
            if real.endswith(" more"):
                kinds["capped_ranges"] += 1
            if p[1] in ("strslice", "listslice") and p[5].startswith("-"):
                kinds["negative_step"] += 1
            exp = expected(req)
            if real != exp:
                failures.append({"request": req, "real": real, "python": exp,
                                 "why": "differs from what Python returns / the documented error text"})
        for f in failures[:5]:
            ctx.violation("oracle", f)
        ctx.samples = [{"request": r, "real": o} for r, o in cases[:2] + cases[len(cases)//3:len(cases)//3+3] + cases[-4:]]
        ctx.coverage_extra = {"op_histogram": hist, "kinds": kinds, "harness_meta": metas, "oracle_failures": len(failures)}
    ctx.conclude_broken_obligations(failures)
    return ctx.finish(
        rule="exhaustive (len ≤ N) × start/end/step ∈ {none, -k..k}; extremes {MIN, MIN+1, …, MAX} in every position; seeded random; range on the same grids with an iteration cap; distinct = distinct request",
        extra_cov=getattr(ctx, "coverage_extra", None))
