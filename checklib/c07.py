"""C07 — numeric result types in every phase: proof audit + correspondence + documented-table oracle."""
from .common import Ctx, Obligation, tail

CMP = {"eq", "ne", "lt", "le", "gt", "ge"}


def parse(s):
    """prefix encoding -> nested tuples"""
    pos = 0

    def go():
        nonlocal pos
        j = pos
        while j < len(s) and s[j].isalpha():
            j += 1
        name = s[pos:j]
        pos = j
        if name == "i":
            k = pos
            while k < len(s) and s[k].isdigit():
                k += 1
            n = int(s[pos:k])
            pos = k
            return ("i", n)
        if name in ("f", "vi", "vf"):
            return (name,)
        assert s[pos] == "(", s
        pos += 1
        a = go()
        if name in ("n", "p"):
            assert s[pos] == ")"
            pos += 1
            return (name, a)
        assert s[pos] == ","
        pos += 1
        b = go()
        assert s[pos] == ")"
        pos += 1
        return (name, a, b)

    e = go()
    assert pos == len(s), s
    return e


def strip(e):
    while e[0] == "p":
        e = e[1]
    return e


def nonneg_literal(e):
    """documented notion: a non-negative integer literal, possibly parenthesised / written -0"""
    e = strip(e)
    if e[0] == "i":
        return True
    if e[0] == "n":
        inner = strip(e[1])
        return inner[0] == "i" and inner[1] == 0
    return False


def spec(e):
    k = e[0]
    if k == "i" or k == "vi":
        return "int"
    if k == "f" or k == "vf":
        return "float"
    if k in ("n", "p"):
        return spec(e[1])
    l, r = spec(e[1]), spec(e[2])
    return spec_bin(k, l, r, nonneg_literal(e[2]))


def spec_bin(op, l, r, nn):
    if op in CMP:
        return "bool"
    if op == "div":
        return "float"
    if op == "pow":
        return "int" if (l == "int" and r == "int" and nn) else "float"
    return "float" if "float" in (l, r) else "int"


def wf(e):
    if e[0] in ("i", "f", "vi", "vf"):
        return True
    if e[0] in ("n", "p"):
        return wf(e[1]) and (e[0] == "p" or spec(e[1]) != "bool")
    return wf(e[1]) and wf(e[2]) and spec(e[1]) != "bool" and spec(e[2]) != "bool"


def bin_nodes(e):
    """pre-order list of binary nodes (as the emitter meets them; parens are dropped)"""
    if e[0] in ("i", "f", "vi", "vf"):
        return []
    if e[0] in ("n", "p"):
        return bin_nodes(e[1])
    return [e] + bin_nodes(e[1]) + bin_nodes(e[2])


def rust_type_of(node, plan):
    """Rust type of the emitted shape for one node, given the real plan string (None = rustc would reject)."""
    conv, res, emit = plan.split(":")
    l = "float" if conv[0] == "F" else spec(node[1])
    r = "float" if conv[1] == "F" else spec(node[2])
    if emit == "infix":
        if l != r:
            return None
        return "bool" if node[0] in CMP else l
    table = {"powInt": ("int", "int", "int"), "powFloat": ("float", "float", "float"),
             "py_mod_i64": ("int", "int", "int"), "py_mod_f64": ("float", "float", "float"),
             "py_floor_div_i64": ("int", "int", "int"), "py_floor_div_f64": ("float", "float", "float")}
    if emit == "py_div":
        return "float"
    if emit in table:
        a, b, c = table[emit]
        return c if (l, r) == (a, b) else None
    return None


def run(args):
    ctx = Ctx("C07", args.tier, args.seed)
    ctx.assumptions += ["Rust typing of the emitted shapes is modelled (helper signatures from incan_stdlib::num; i64::pow, f64::powf); rustc itself is not run in this check"]
    ctx.proof_stage("IncanModel.Props.C07")
    ok, out = ctx.build_harness()
    failures = []
    if not ok:
        ob = Obligation("correspondence", "harness build against /repo")
        ob.ok, ob.detail = False, tail(out, 15)
        ctx.obligations.append(ob)
    else:
        cases, metas = ctx.run_harness("c07")
        model = ctx.run_driver([c[0] for c in cases])
        ctx.evaluations = len(cases)
        by_stream = {}
        for c, m in zip(cases, model):
            by_stream.setdefault(c[0].split(" ")[1], []).append((c, m))
        names = {"policy": "result_numeric_type/needs_float_promotion (whole table)", "litinfo": "PowExponentKind::from_literal_info",
                 "types": "checker type, IR type, emit plans", "bind": "annotated let / return / argument verdicts",
                 "ctype": "type the const evaluator gives `const K = E` over const names",
                 "compound": "compound-assignment verdicts", "cplan": "emit plan of the desugared compound assignment (local variable and mut parameter)"}
        for name, items in sorted(by_stream.items()):
            ctx.tie(f"model = real on {names.get(name, name)}", [i[0] for i in items], [i[1] for i in items])
        hist = {"ops": {}, "depth": {}, "spec_types": {}, "bind": {}, "cplan": {}, "known_arg_cases": 0}
        for req, real in cases:
            p = req.split(" ")
            kind = p[1]
            if kind == "panic":
                failures.append({"request": req, "real": real, "why": "front end panicked"})
                continue
            if kind in ("policy", "litinfo"):
                ctx.nontrivial.add(req)
                if kind == "policy":
                    op, l, r, k = p[2:6]
                    nn = (k == "nonneg")
                    exp = spec_bin(op, l, r, nn)
                    if op in CMP:
                        exp = "float" if "float" in (l, r) else "int"   # operand coercion type for comparisons
                    got = real.split(" ")[0]
                    if got != exp:
                        failures.append({"request": req, "real": real, "why": f"documented table says {exp}"})
                continue
            e = parse(p[-1])
            if not wf(e):
                continue   # bool operands of arithmetic: outside the numeric property
            ctx.nontrivial.add(p[-1])
            s = spec(e)
            if kind == "types":
                hist["spec_types"][s] = hist["spec_types"].get(s, 0) + 1
                f = dict(x.split("=", 1) for x in real.split(" "))
                if f["chk"] != s:
                    failures.append({"request": req, "real": real, "why": f"checker type should be {s}"})
                if f["ir"] != s:
                    failures.append({"request": req, "real": real, "why": f"IR type should be {s}"})
                nodes = bin_nodes(e)
                hist["depth"][len(nodes)] = hist["depth"].get(len(nodes), 0) + 1
                plans = [] if f["plans"] == "-" else f["plans"].split(";")
                if len(plans) != len(nodes):
                    failures.append({"request": req, "real": real, "why": "plan count differs from binary node count"})
                else:
                    for node, plan in zip(nodes, plans):
                        hist["ops"][node[0]] = hist["ops"].get(node[0], 0) + 1
                        rt = rust_type_of(node, plan)
                        if rt != spec(node):
                            failures.append({"request": req, "real": real,
                                             "why": f"emitted shape for {node[0]} has Rust type {rt}, documented {spec(node)} (plan {plan})"})
                            break
            elif kind == "bind":
                pos, annot = p[2], p[3]
                hist["bind"][f"{pos}:{annot}:{real}"] = hist["bind"].get(f"{pos}:{annot}:{real}", 0) + 1
                exp = "accept" if s == annot else "reject"
                if real != exp:
                    if pos == "arg" and ctx.known("C07-call-arguments-not-type-checked"):
                        hist["known_arg_cases"] += 1
                    else:
                        failures.append({"request": req, "real": real, "why": f"binding of a {s} value to {annot} should be {exp}ed"})
            elif kind == "compound":
                op, vt = p[2], p[3]
                exp = "accept" if spec_bin(op, vt, s, False) == vt else "reject"
                if real != exp:
                    failures.append({"request": req, "real": real, "why": f"`v {op}= e` with v: {vt}, e: {s} should be {exp}ed"})
            elif kind == "ctype":
                if real != s:
                    failures.append({"request": req, "real": real, "why": f"the const evaluator types the expression as {real}, documented {s}"})
            elif kind == "cplan":
                op, vt, target = p[2], p[3], p[4]
                exp_ok = spec_bin(op, vt, s, False) == vt
                if (real == "reject") == exp_ok:
                    failures.append({"request": req, "real": real, "why": f"`v {op}= e` on a {target} v: {vt}, e: {s} should be {'accepted' if exp_ok else 'rejected'}"})
                elif exp_ok:
                    plan = real[len("plan="):]
                    node = (op, ("vi",) if vt == "int" else ("vf",), e)
                    rt = rust_type_of(node, plan) if plan.count(":") == 2 else None
                    hist["cplan"][f"{target}:{plan}"] = hist["cplan"].get(f"{target}:{plan}", 0) + 1
                    if rt != vt:
                        failures.append({"request": req, "real": real,
                                         "why": f"`v {op}= e` on a {target} v: {vt} is emitted as `v = v {op} e` with a shape of Rust type {rt} (plan {plan}); the variable is {vt}"})
        seen = set()
        for f in failures:
            key = f["why"][:40]
            if key in seen and len(seen) >= 5:
                continue
            seen.add(key)
            if len(ctx.violations) < 5:
                ctx.violation("oracle", f)
        ctx.samples = [{"request": r, "real": o} for r, o in cases[300:303] + cases[len(cases)//2:len(cases)//2+3] + cases[-3:]]
        ctx.coverage_extra = {"histogram": hist, "harness_meta": metas, "oracle_failures": len(failures)}
    ctx.conclude_broken_obligations(failures)
    return ctx.finish(
        rule="whole policy table (exhaustive); every operator × atom pair in every binding position; depth-2 grids; seeded random expressions to depth 6, re-read from the real parser; distinct = distinct expression tree / table row",
        extra_cov=getattr(ctx, "coverage_extra", None))
