"""C03 — ill-typed programs are rejected with a located diagnostic: proof audit + single-edit correspondence + oracle."""
from .common import Ctx, Obligation, tail

KNOWN_RULE = {"unknown-name-in-fstring": "C03-fstring-nested-diagnostic-location"}


def run(args):
    ctx = Ctx("C03", args.tier, args.seed)
    ctx.assumptions += ["positions are found by an AST walker written independently of the checker's (harness/src/c03.rs); spans inside f-string interpolations are not absolute, so that context is edited through a statement rule instead",
                        "trait adoption is exercised through generated trait / adopter pairs (stream f), not through edits of the corpus programs",
                        "a guarded match arm counts as covering its variant (as in the implementation); guard-dependent exhaustiveness is out of scope"]
    ctx.proof_stage("IncanModel.Props.C03")
    ok, out = ctx.build_harness()
    failures = []
    if not ok:
        ob = Obligation("correspondence", "harness build against /repo")
        ob.ok, ob.detail = False, tail(out, 15)
        ctx.obligations.append(ob)
    else:
        cases, metas = ctx.run_harness("c03", extra=[ctx.scratch], timeout=3400)
        ctx.evaluations = len(cases)
        by = {k: [c for c in cases if c[0].startswith(f"c03 {k} ")] for k in ("base", "expr", "stmt", "scope", "match", "call", "defaults", "adopt")}
        usable = lambda cs: [(r, o.split(" ")[0]) for r, o in cs if not o.startswith("edit-unparsable")]  # noqa: E731
        for k, label in (("base", "base programs of the corpus are accepted"),
                         ("expr", "model traversal (no role skipped) = real checker: an unknown name at every expression position of the corpus and of the repository's programs is rejected at that position"),
                         ("stmt", "model = real checker: one rule-violating statement at the head of every statement list, per rule"),
                         ("scope", "model checkAssign / lookup_in_function = real checker on bindings at depth bd re-assigned at depth d through every nesting construct"),
                         ("match", "model missingVariants = real non-exhaustive-match verdict and the variants it names"),
                         ("call", "model validateArgs / surplusArgs / missingParams = the arguments and parameters the real checker reports (type mismatch, too many, unknown keyword, missing) on function and method calls with positional and keyword arguments"),
                         ("defaults", "model defaultErrors = the parameters whose default value the real checker reports as ill-typed (function and method declarations)"),
                         ("adopt", "model conformance = the trait-adoption diagnostics of the real checker (missing / wrongly typed @requires fields, missing / differently signed required methods) for classes, models and classes inheriting members")):
            cs = usable(by[k]) if k in ("expr", "stmt") else by[k]
            m = ctx.run_driver([c[0] for c in cs])
            ctx.tie(label, cs, m)
        hist = {"expr_located": 0, "expr_skipped_unparsable": 0, "stmt_located": 0, "roles": {}, "rules": {}, "scope": {}, "match": {}, "call": {}, "defaults": {}, "adopt": {}}
        for req, real in by["base"]:
            if real != "accepted":
                failures.append({"request": req, "real": real, "why": "a base program of the corpus is not accepted: its edits would prove nothing"})
        for req, real in by["expr"]:
            role = req.split(" ")[3]
            if real.startswith("edit-unparsable"):
                hist["expr_skipped_unparsable"] += 1
                continue
            ctx.nontrivial.add(f"{req.split(' ')[2]}|{role}|{req.split(' ')[4]}")
            hist["roles"][role] = hist["roles"].get(role, 0) + 1
            if real == "rejected-located":
                hist["expr_located"] += 1
            else:
                failures.append({"request": req, "real": real, "why": f"an unknown name in position {role} is " + ("accepted" if real.startswith("accepted") else "not reported at its location")})
        for req, real in by["stmt"]:
            p = req.split(" ")
            block, rule = p[3], p[4]
            ctx.nontrivial.add(f"{p[2]}|{block}|{rule}|{p[5]}")
            hist["rules"][rule] = hist["rules"].get(rule, 0) + 1
            if real == "rejected-located":
                hist["stmt_located"] += 1
                continue
            fid = KNOWN_RULE.get(rule)
            if fid and real.startswith("rejected-elsewhere") and ctx.known(fid):
                continue
            failures.append({"request": req, "real": real, "why": f"rule `{rule}` broken inside {block}: " + ("accepted" if real.startswith("accepted") else "no diagnostic on the edited lines")})
        for req, real in by["scope"]:
            _, _, d, bd, is_mut, kind, v = req.split(" ")
            ctx.nontrivial.add(req)
            # what the documented rule says: a plain / compound assignment to a visible immutable binding is an error
            if kind in ("plain", "compound", "method", "field", "index"):
                exp = "accepted" if is_mut == "1" else "mutationWithoutMut"
            else:
                # `let x` / `mut x` declares a new variable unless x is already bound in the very same block
                exp = ("accepted" if is_mut == "1" else "mutationWithoutMut") if d == bd else "accepted"
            hist["scope"][f"{kind}:{real}"] = hist["scope"].get(f"{kind}:{real}", 0) + 1
            if real != exp:
                failures.append({"request": req, "real": real, "expected": exp, "why": f"assignment at depth {d} to a binding declared at depth {bd} (mutable={is_mut})"})
        for req, real in by["match"]:
            _, _, variants, is_opt, arms = req.split(" ")
            ctx.nontrivial.add(req)
            vs = variants.split(",")
            al = arms.split(",")
            catch_all = any(a in ("w", "b") for a in al)
            covered = {a[1:] for a in al if a.startswith("c")} | ({"None"} if ("n" in al and is_opt == "1") else set())
            missing = [] if catch_all else [v for v in vs if v not in covered]
            exp = "complete" if not missing else "missing " + ",".join(missing)
            hist["match"][real.split(" ")[0]] = hist["match"].get(real.split(" ")[0], 0) + 1
            if real != exp:
                failures.append({"request": req, "real": real, "expected": exp, "why": "a match omitting a variant must be rejected naming it; a complete match must be accepted"})
        for req, real in by["call"]:
            _, _, kind, params, cargs, truth = req.split(" ")
            ctx.nontrivial.add(req)
            tf, tm = truth.split("/")
            exp = "accepted" if (tf == "-" and tm == "-") else f"flag {tf} missing {tm}"
            hist["call"][f"{kind}:{real.split(' ')[0]}"] = hist["call"].get(f"{kind}:{real.split(' ')[0]}", 0) + 1
            if real != exp:
                failures.append({"request": req, "real": real, "expected": exp, "why": "every argument of a type its parameter does not accept must be reported at that argument, a surplus positional or unknown keyword argument on that argument, every parameter left without argument and default on the call, and nothing else"})
        for req, real in by["defaults"]:
            p = req.split(" ")
            ctx.nontrivial.add(req)
            exp = "accepted" if p[-1] == "-" else f"flag {p[-1]}"
            hist["defaults"][f"{p[2]}:{real.split(' ')[0]}"] = hist["defaults"].get(f"{p[2]}:{real.split(' ')[0]}", 0) + 1
            if real != exp:
                failures.append({"request": req, "real": real, "expected": exp, "why": "a default value of a type its parameter does not accept must be reported at that default value, and nothing else"})
        for req, real in by["adopt"]:
            p = req.split(" ")
            ctx.nontrivial.add(req)
            exp = "accepted" if p[-1] == "-" else p[-1]
            hist["adopt"][f"{p[2]}:{'accepted' if real == 'accepted' else 'rejected'}"] = hist["adopt"].get(f"{p[2]}:{'accepted' if real == 'accepted' else 'rejected'}", 0) + 1
            if real != exp:
                failures.append({"request": req, "real": real, "expected": exp, "why": "adopting a trait without a required method / @requires field (or with another signature / type) must be rejected with a diagnostic inside the adopter's declaration, naming exactly those members"})
        for f in failures[:5]:
            ctx.violation("oracle", f)
        ctx.samples = [{"request": r, "real": o} for r, o in by["expr"][:2] + by["stmt"][:2] + by["scope"][:2] + by["match"][:2] + by["call"][:2] + by["adopt"][:2]]
        ctx.coverage_extra = {"histogram": hist, "harness_meta": metas, "oracle_failures": len(failures)}
    ctx.conclude_broken_obligations(failures)
    return ctx.finish(
        rule="single local edits of accepted programs: (a) every expression position found by an independent AST walker (73 roles: conditions of if/elif/while, loop iterables, match subjects/guards/arm bodies, call and method arguments, constructor fields, comprehension parts, closure bodies, index/slice parts, tuple/list/dict/set elements, field defaults …) in the two corpus programs and in every example / fixture / snapshot source of the repository replaced by an unknown name; (b) 26 rule-violating statements (`?` and unknown names inside closures and comprehensions, field assignment through an immutable binding, unknown name, wrong-typed assignment / return / argument, too few / too many / unknown keyword arguments, bare `return` in a function returning a value, a `mut self` method called on an immutable binding, re-assignment and compound assignment of an immutable, `?` on a non-Result and in a non-Result function, match missing an Option / enum variant, constructor with missing / unknown / duplicate field, unknown name inside an f-string) inserted at the head of every statement list (function, method of model/class/trait/newtype, then/elif/else, while, for, match arm block); (c) binding depth × assignment depth × mutability × seven forms (plain, let, mut, compound assignment, `mut self` method call, field assignment, index assignment) through six nesting constructs; (d) random matches over enum/Option/Result (variant names related by prefix / suffix / case); (e) function and method calls with 1-4 parameters of primitive / collection / model / class / trait type, positional and keyword arguments, 0-2 of them of a type the parameter does not accept, defaults on trailing parameters, arguments dropped / a surplus positional / an unknown keyword; (e2) function and method declarations whose parameters carry defaults of their own or of another type; (f) generated traits (0-2 @requires fields, 1-3 required / default methods) adopted by a class, a model or a class inheriting half of its members, each required member present / absent / of another type or signature; distinct = (file, role/block, rule, index)",
        extra_cov=getattr(ctx, "coverage_extra", None))
