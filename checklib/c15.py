"""C15 — generated Cargo project: proof audit + manifest correspondence + exactness/pinning oracle."""
from .common import Ctx, Obligation, tail

KNOWN = {"serde", "serde_json", "tokio", "time", "chrono", "reqwest", "uuid", "rand", "regex", "anyhow", "thiserror",
         "tracing", "clap", "log", "env_logger", "sqlx", "futures", "bytes", "itertools"}


def fixed(serde, tokio, axum):
    names = ["incan_stdlib", "incan_derive"]
    if serde:
        names += ["serde", "serde_json"]
    if axum:
        names += ["axum", "tokio"]
    elif tokio:
        names += ["tokio"]
    return names


def parse_manifest(s):
    f = dict(x.split("=", 1) for x in s.split(" ", 2))
    deps = [] if f["deps"] == "-" else [d.split("=", 1) for d in f["deps"].split(";")]
    return f["pkg"], f["bin"], deps


def run(args):
    ctx = Ctx("C15", args.tier, args.seed)
    ctx.assumptions += ["TOML validity is modelled as 'no duplicate dependency names'; the manifest template's fixed text is not modelled",
                        "external-crate references in generated sources are found by scanning for `<crate>::` / `use <crate>` (oracle only)"]
    ctx.proof_stage("IncanModel.Props.C15")
    ok, out = ctx.build_harness()
    failures = []
    if not ok:
        ob = Obligation("correspondence", "harness build against /repo")
        ob.ok, ob.detail = False, tail(out, 15)
        ctx.obligations.append(ob)
    else:
        cases, metas = ctx.run_harness("c15", extra=[ctx.scratch])
        scan = [c for c in cases if c[0].startswith("c15 scan ")]
        cases = [c for c in cases if not c[0].startswith("c15 scan ")]
        ctx.tie("model scans (jsonSteps / asyncSteps: the steps the scanners' match arms follow) = the real detect_serde_usage / detect_async_usage with a trigger put at every expression position of the corpus and repository programs",
                scan, ctx.run_driver([c[0] for c in scan]))
        scan_paths = {}
        for req, real in scan:
            _, _, feature, path = req.split(" ")
            ctx.nontrivial.add(req)
            scan_paths[feature] = scan_paths.get(feature, 0) + 1
            if real != "detected":
                failures.append({"request": req, "real": real, "why": f"a {feature} trigger at this position is not seen by the scanner: the crate the generated code needs is not declared"})
        model = ctx.run_driver([c[0] for c in cases])
        ctx.evaluations = len(cases) + len(scan)

        def canon_real(req, real):
            if req.startswith("c15 build") or req.startswith("c15 trigger"):
                parts = real.split(" | ")
                return parts[0] if parts[0].startswith("refused") else " | ".join(parts[:2])
            return real
        man = [(c, m) for c, m in zip(cases, model) if c[0].startswith("c15 manifest")]
        bld = [(c, m) for c, m in zip(cases, model) if c[0].startswith("c15 build") or c[0].startswith("c15 trigger")]
        ctx.tie("model manifest = Cargo.toml written by ProjectGenerator (flags × crate sets, whole known table, unknown names)",
                [(c[0], canon_real(*c)) for c, _ in man], [m for _, m in man])
        ctx.tie("model manifest = Cargo.toml written by `incan build` (feature-triggering programs × rust:: imports, main and dependency modules)",
                [(c[0], canon_real(*c)) for c, _ in bld], [m for _, m in bld])
        hist = {"refused": 0, "built": 0, "with_unknown": 0, "flag_combos": set(), "scanner_sweep_positions": scan_paths}
        for req, real in cases:
            p = req.split(" ")
            kind, name, flags, crates = p[1], p[2], p[3], ([] if p[4] == "-" else p[4].split(","))
            ctx.nontrivial.add((kind, name, flags, p[4]))
            hist["flag_combos"].add((kind, flags))
            unknown = [c for c in crates if c not in KNOWN]
            if kind == "manifest":
                s, t, a = (x == "1" for x in flags)
            else:
                us, ua, uw = (x == "1" for x in flags)
                s, t, a = us or uw, ua or uw, uw
            if unknown:
                hist["with_unknown"] += 1
                first = real.split(" | ")[0]
                if not (first.startswith("error:") or first.startswith("refused:")):
                    failures.append({"request": req, "real": real[:400], "why": f"crate(s) {unknown} have no known-good version but were not refused"})
                else:
                    hist["refused"] += 1
                continue
            hist["built"] += 1
            parts = real.split(" | ")
            mtxt = parts[0] if kind == "manifest" else (parts[1] if len(parts) > 1 else "")
            if not mtxt.startswith("pkg="):
                failures.append({"request": req, "real": real[:400], "why": "no manifest produced for a legal program"})
                continue
            pkg, binn, deps = parse_manifest(mtxt)
            names = [d[0] for d in deps]
            if pkg != name or binn != name:
                failures.append({"request": req, "real": real[:300], "why": "package/binary name is not the program's name"})
            if len(set(names)) != len(names):
                failures.append({"request": req, "real": real[:300], "why": "a dependency is declared twice (invalid TOML)"})
            for n, spec in deps:
                if spec == '"*"' or not ("version=" in spec or "path=" in spec or (spec.startswith('"') and spec[1:2].isdigit())):
                    failures.append({"request": req, "real": real[:300], "why": f"dependency {n} is not pinned: {spec}"})
            exp = set(fixed(s, t, a)) | set(crates)
            if set(names) != exp:
                failures.append({"request": req, "real": real[:300], "why": f"declared {sorted(names)} but needed exactly {sorted(exp)}"})
            if kind in ("build", "trigger") and len(parts) > 2:
                refs = set(parts[2][5:].split(",")) - {"-", ""}
                if not refs <= set(names):
                    failures.append({"request": req, "real": real[:300], "why": f"generated code refers to {sorted(refs - set(names))} which are not declared"})
        for f in failures[:5]:
            ctx.violation("oracle", f)
        hist["flag_combos"] = len(hist["flag_combos"])
        ctx.samples = [{"request": r, "real": o[:300]} for r, o in cases[:2] + cases[60:62] + cases[-3:]]
        ctx.coverage_extra = {"histogram": hist, "harness_meta": metas, "oracle_failures": len(failures)}
    ctx.conclude_broken_obligations(failures)
    return ctx.finish(
        rule="scanner sweep: a serde / async trigger substituted at every expression position (path of walker steps; 2 per distinct path in quick, 6 in thorough) of the corpus, examples, fixtures and snapshot sources, re-parsed, real scanner asked; ProjectGenerator: every known-table crate and 4 unknown names singly; all 8 flag combinations × a fixed 7-crate set (repeated with fresh hash maps) and the empty set; seeded random crate multisets × flags × project names. `incan build` (stub cargo): all 8 feature-trigger combinations × {no imports, 5 imports}, unknown crates, imports in a dependency module, 5 project names; distinct = distinct (kind, name, flags, crates)",
        extra_cov=getattr(ctx, "coverage_extra", None))
