"""C19 — offsets <-> positions: proof audit + correspondence + direct oracle (counting in Python)."""
from .common import Ctx, Obligation, tail


def dec(s):
    return "" if s == "-" else "".join(chr(int(t, 16)) for t in s.split(","))


def boundaries(doc):
    """byte offsets of character boundaries, incl. len"""
    offs, o = [0], 0
    for ch in doc:
        o += len(ch.encode("utf-8"))
        offs.append(o)
    return offs


def expected_pos(doc, off):
    """line/character by counting newlines and characters in the text before a boundary offset"""
    pre = doc.encode("utf-8")[:off].decode("utf-8")
    line = pre.count("\n")
    after = pre.rsplit("\n", 1)[-1] if "\n" in pre else pre
    return line, len(after)


def run(args):
    ctx = Ctx("C19", args.tier, args.seed)
    ctx.assumptions += ["line/character counters are u32 and offsets usize in the code, Nat in the model (documents < 4 GiB)"]
    ctx.proof_stage("IncanModel.Props.C19")
    ok, out = ctx.build_harness()
    failures = []
    if not ok:
        ob = Obligation("correspondence", "harness build against /repo")
        ob.ok, ob.detail = False, tail(out, 15)
        ctx.obligations.append(ob)
    else:
        cases, metas = ctx.run_harness("c19")
        model = ctx.run_driver([c[0] for c in cases])
        ctx.evaluations = len(cases)
        by_stream = {}
        for c, m in zip(cases, model):
            by_stream.setdefault(c[0].split(" ")[1], []).append((c, m))
        names = {"o2p": "offset_to_position", "rt": "position_to_offset ∘ offset_to_position", "p2o": "position_to_offset",
                 "range": "span_to_range", "gli": "get_line_info (via format_error)"}
        for name, items in sorted(by_stream.items()):
            ctx.tie(f"model = real on {names.get(name, name)}", [i[0] for i in items], [i[1] for i in items])
        # the terminal renderer's whole output for a span (underline length and caret padding included): the stream
        # C11 ties, here for its positions
        rcases, rmetas = ctx.run_harness("c11r")
        metas = metas + rmetas
        render = [c for c in rcases if c[0].startswith("c11 render")]
        ctx.tie("model caretLine / getLineInfo = format_error (line, column, caret padding, underline length) for every span of every small document, multi-line and past-the-end spans included",
                render, ctx.run_driver([c[0] for c in render]))
        ctx.evaluations += len(render)
        # ---- oracle
        cache = {}
        hist = {"o2p": 0, "rt": 0, "p2o": 0, "range": 0, "gli": 0, "boundary_offsets": 0, "nonboundary_offsets": 0,
                "reversed_or_empty_spans": 0, "past_end_spans": 0, "nonascii_terminal_cols": 0}
        o2p = {}
        n_known_col = 0
        for req, real in cases:
            parts = req.split(" ")
            op, d = parts[1], parts[2]
            hist[op] += 1
            if d not in cache:
                doc = dec(d)
                cache[d] = (doc, set(boundaries(doc)), len(doc.encode("utf-8")))
            doc, bset, n = cache[d]
            ctx.nontrivial.add(d)
            if real.startswith("panic"):
                failures.append({"request": req, "real": real, "why": "rendering failed"})
                continue
            if op == "o2p":
                off = int(parts[3])
                pos = tuple(int(x) for x in real.split(" "))
                o2p[(d, off)] = pos
                if off in bset:
                    hist["boundary_offsets"] += 1
                    if pos != expected_pos(doc, off):
                        failures.append({"request": req, "real": real, "why": f"counting gives {expected_pos(doc, off)}"})
                else:
                    hist["nonboundary_offsets"] += 1
                # strict monotonicity over consecutive boundaries is checked below
            elif op == "rt":
                off = int(parts[3])
                if off in bset and real != f"some {off}":
                    failures.append({"request": req, "real": real, "why": "round trip does not return the offset"})
            elif op == "range":
                s, e = int(parts[3]), int(parts[4])
                sl, sc, el, ec = (int(x) for x in real.split(" "))
                endpos = expected_pos(doc, n)
                if e <= s:
                    hist["reversed_or_empty_spans"] += 1
                if e > n or s > n:
                    hist["past_end_spans"] += 1
                if not ((sl, sc) <= (el, ec) <= endpos):
                    failures.append({"request": req, "real": real, "why": f"range not inside document (end {endpos}) or start > end"})
            elif op == "gli":
                off = int(parts[3])
                ln, col, txt = real.split(" ")
                offc = min(off, n)
                if offc in bset:
                    el, ec = expected_pos(doc, offc)
                    if int(ln) != el + 1:
                        failures.append({"request": req, "real": real, "why": f"terminal line should be {el + 1}"})
                    elif int(col) != ec + 1:
                        hist["nonascii_terminal_cols"] += 1
                        pre = doc.encode("utf-8")[:offc].decode("utf-8")
                        lastline = pre.rsplit("\n", 1)[-1]
                        failures.append({"request": req, "real": real, "why": f"terminal column should be {ec + 1} (characters before the offset on its line, + 1; line prefix {lastline!r})"})
        # strict monotonicity of positions over boundary offsets
        for d, (doc, bset, n) in cache.items():
            prev = None
            for off in sorted(bset):
                p = o2p.get((d, off))
                if p is None:
                    continue
                if prev is not None and not (prev < p):
                    failures.append({"request": f"c19 o2p {d} {off}", "real": p, "why": f"not strictly after previous boundary position {prev}"})
                prev = p
        for f in failures[:5]:
            ctx.violation("oracle", f)
        ctx.samples = [{"request": r, "real": o} for r, o in cases[:2] + cases[len(cases)//2:len(cases)//2+4] + cases[-2:]]
        ctx.coverage_extra = {"histogram": hist, "harness_meta": metas, "known_terminal_col_cases": n_known_col,
                              "exhaustive": True}
    ctx.conclude_broken_obligations(failures)
    return ctx.finish(
        rule="every document over {a, é, €, 😀, LF, CR} up to N characters (exhaustive) + seeded random longer documents; for each: every byte offset 0..len+2, position grid, span pairs; distinct = distinct document",
        extra_cov=getattr(ctx, "coverage_extra", None))
