"""C12 — determinism: proof audit (manifest order-independence) + outputs hashed in separate processes."""
import os
import subprocess

from .common import Ctx, Obligation, tail, HARNESS_BIN


def run_stream(ctx, tag, env_extra, cwd):
    path = os.path.join(ctx.scratch, f"c12-{tag}.tsv")
    sub = os.path.join(ctx.scratch, f"w{tag}")
    os.makedirs(sub, exist_ok=True)
    env = dict(os.environ)
    env.update(env_extra)
    p = subprocess.run([HARNESS_BIN, "c12", ctx.tier, str(ctx.seed), path, sub], cwd=cwd, env=env,
                       stdout=subprocess.DEVNULL, stderr=subprocess.DEVNULL, timeout=3000)
    if p.returncode != 0:
        raise RuntimeError(f"harness c12 ({tag}) failed rc={p.returncode}")
    out = {}
    for line in open(path, encoding="utf-8", errors="replace"):
        if line.startswith("#"):
            continue
        req, _, real = line.rstrip("\n").partition("\t")
        out[req] = real
    return out


def run(args):
    ctx = Ctx("C12", args.tier, args.seed)
    ctx.assumptions += ["the Cargo.toml dependency section and the module tree (which directory lists which children, and in which file) have models; every other output (generated Rust, diagnostics and their order, formatter output, multi-file project trees) is compared byte-for-byte (hash) across processes, environments and repeated in-process runs"]
    # the manifest model imports the crate table that is regenerated from the source (translator of C15)
    try:
        from .c15 import extract_crate_table, regenerate_crate_table, PROJECT_RS
        regenerate_crate_table(extract_crate_table(open(PROJECT_RS).read()))
    except Exception as e:  # noqa: BLE001
        ob = Obligation("correspondence", "model crate table regenerated from add_rust_crate")
        ob.ok, ob.detail = False, f"translator refused the source shape: {e}"
        ctx.obligations.append(ob)
    ctx.proof_stage("IncanModel.Props.C12")
    ok, out = ctx.build_harness()
    failures = []
    if not ok:
        ob = Obligation("correspondence", "harness build against /repo")
        ob.ok, ob.detail = False, tail(out, 15)
        ctx.obligations.append(ob)
    else:
        # correspondence for the modelled producer: the manifest stream of C15, repeated with fresh hash maps
        cases, metas = ctx.run_harness("c15", extra=[ctx.scratch])
        model = ctx.run_driver([c[0] for c in cases])
        man = [(c, m) for c, m in zip(cases, model) if c[0].startswith("c15 manifest")]
        ctx.tie("model manifest (sorted, order-independent) = Cargo.toml written by ProjectGenerator, repeated with fresh hash maps",
                [c for c, _ in man], [m for _, m in man])
        groups = {}
        for req, real in cases:
            key = " ".join(req.split(" ")[:-1])      # drop the repetition counter
            groups.setdefault(key, set()).add(real)
        for key, vals in groups.items():
            ctx.nontrivial.add(key)
            if len(vals) > 1:
                failures.append({"request": key, "real": sorted(vals)[:3], "why": "the same project description produced different Cargo.toml / sources in repeated runs"})
        # whole-compiler outputs in three processes with different environments and working directories
        envs = [("A", {"HOME": "/root", "TZ": "UTC", "LANG": "C", "RUST_LOG": ""}, "/verif"),
                ("B", {"HOME": "/tmp", "TZ": "Asia/Tokyo", "LANG": "de_DE.UTF-8", "LC_ALL": "de_DE.UTF-8", "RUST_LOG": "debug", "NO_COLOR": "1"}, "/"),
                ("C", {"HOME": "/nonexistent", "TZ": "America/St_Johns", "LANG": "tr_TR.UTF-8", "COLUMNS": "40", "TERM": "dumb", "INCAN_EMIT_SERVICE": "1", "INCAN_HOME": "/nowhere", "CARGO_HOME": "/tmp/x"}, ctx.scratch)]
        runs = [run_stream(ctx, tag, e, cwd) for tag, e, cwd in envs]
        # correspondence for the module tree model (Tool/ModuleTree.lean): generate_nested on generated path sets
        tree = [(k, v) for k, v in runs[0].items() if k.startswith("c12 modtree ")]
        tmodel = ctx.run_driver([k for k, _ in tree])
        ctx.tie("model module tree (children sorted and distinct; mod.rs or the module's own file, never both) = files written by generate_nested, three fresh hash maps each",
                tree, tmodel)
        keys = sorted(runs[0])
        ctx.evaluations = len(cases) + sum(len(r) for r in runs)
        for k in keys:
            ctx.nontrivial.add(k)
            vals = [r.get(k) for r in runs]
            if any("DIFFERS-IN-PROCESS" in (v or "") for v in vals):
                failures.append({"request": k, "real": vals, "why": "two runs inside one process produced different output"})
            elif len(set(vals)) != 1:
                failures.append({"request": k, "real": vals, "why": "output differs between processes / environments / working directories"})
        for f in failures[:5]:
            ctx.violation("oracle", f)
        ctx.samples = [{"request": k, "real": runs[0][k]} for k in keys[:3] + keys[-4:]]
        ctx.coverage_extra = {"manifest_groups": len(groups), "sources_hashed": len(keys), "processes": len(envs),
                              "environments": [e for _, e, _ in envs], "oracle_failures": len(failures), "harness_meta": metas, "module_tree_cases": len(tree)}
    ctx.conclude_broken_obligations(failures)
    return ctx.finish(
        rule="every repository .incn file + 4 programs built to provoke ordering (several missing fields, unknown names, traits, rust:: imports) + 3 multi-file projects through `incan build` (stub cargo): diagnostics, emitted Rust, formatter output, diffs, project trees hashed twice in-process and in 3 processes with different HOME/TZ/locale/cwd; ProjectGenerator manifests repeated with fresh hash maps; distinct = distinct source / project description",
        extra_cov=getattr(ctx, "coverage_extra", None))
