"""C11 — front end total, diagnostics well-formed: proof audit (rendering + layout layer) + rendering
correspondence + oracle stream over the whole real pipeline (catch_unwind, child process, watchdog)."""
from .common import Ctx, Obligation, tail, SCRATCH
import os


def run(args):
    ctx = Ctx("C11", args.tier, args.seed)
    ctx.assumptions += [
        "theorems cover terminal/editor rendering and the lexer's layout layer only; token scanners, parser, type checker, formatter and emitter are covered by the oracle stream (exploration), not by a theorem",
        "nesting depth explored up to 200 (brackets, blocks, generic types, unary chains, f-string braces)",
    ]
    ctx.proof_stage("IncanModel.Props.C11")
    ok, out = ctx.build_harness()
    failures = []
    if not ok:
        ob = Obligation("correspondence", "harness build against /repo")
        ob.ok, ob.detail = False, tail(out, 15)
        ctx.obligations.append(ob)
    else:
        os.makedirs(ctx.scratch, exist_ok=True)
        cases, metas = ctx.run_harness("c11", extra=[ctx.scratch], timeout=3400)
        render = [c for c in cases if c[0].startswith("c11 render")]
        pipe = [c for c in cases if c[0].startswith("c11 pipe ")]
        model = ctx.run_driver([c[0] for c in render])
        ctx.evaluations = len(cases)
        ctx.tie("model = real on format_error (line, column, caret offset, caret count) for every span of every small document", render, model)
        outcome = {}
        origins = {}
        for req, real in pipe:
            p = req.split(" ")
            origin = p[2].split(":")[0]
            origins[origin] = origins.get(origin, 0) + 1
            ctx.nontrivial.add(hash(req))
            key = " ".join(w.split("=")[0] for w in real.split(" ")[:7])
            outcome[key] = outcome.get(key, 0) + 1
            if real.startswith("ok"):
                continue
            if "[in-fstring-interpolation]" in real and ctx.known("C11-fstring-interpolation-span-not-in-file-coordinates"):
                continue
            failures.append({"request": " ".join(p[:4]), "input_hex": p[4] if len(p) > 4 else "-", "real": real,
                             "why": "front end panicked, aborted, did not terminate, or produced an ill-formed diagnostic"})
        for req, real in render:
            ctx.nontrivial.add(hash(req))
            if real.startswith("panic"):
                failures.append({"request": req, "real": real, "why": "format_error panicked"})
        for f in failures[:5]:
            ctx.violation("oracle", f)
        ctx.samples = [{"request": r[:200], "real": o[:200]} for r, o in render[:2] + pipe[:2] + pipe[len(pipe)//2:len(pipe)//2+3] + pipe[-2:]]
        ctx.coverage_extra = {"pipeline_inputs": len(pipe), "render_cases": len(render), "input_origins": origins,
                              "outcome_histogram": outcome, "harness_meta": metas, "oracle_failures": len(failures)}
    ctx.conclude_broken_obligations(failures)
    return ctx.finish(
        rule="repository .incn files; seeded truncations at character boundaries (every boundary for short files); 12 kinds of token/character mutations; nesting generators up to depth 200; random strings over a syntax-heavy alphabet; each through lex→parse→check→format→emit-rust with every diagnostic rendered for terminal and editor; distinct = distinct input",
        extra_cov=getattr(ctx, "coverage_extra", None))
