"""C09 — idempotence, --check consistency, text hygiene: proof audit + CLI-logic correspondence + oracle."""
from .common import Ctx, Obligation, tail


def run(args):
    ctx = Ctx("C09", args.tier, args.seed)
    ctx.assumptions += [
        "idempotence is proved for the expression ladder (corollary of C08) and for the CLI logic given an idempotent formatter; the output writer is modelled and proved to add no tab and no trailing whitespace (writer_hygiene) — the pieces the formatter hands it, whole-file idempotence and the single final newline are decided by the oracle",
    ]
    ctx.proof_stage("IncanModel.Props.C09")
    ok, out = ctx.build_harness()
    failures = []
    if not ok:
        ob = Obligation("correspondence", "harness build against /repo")
        ob.ok, ob.detail = False, tail(out, 15)
        ctx.obligations.append(ob)
    else:
        cases, metas = ctx.run_harness("fmt")
        cli = [c for c in cases if c[0].startswith("c09 ")]
        files = [c for c in cases if not c[0].startswith("c09 ")]
        model = ctx.run_driver([c[0] for c in cli])
        ctx.tie("model = real `incan fmt` / --check / --diff (exit status, file rewritten or not) over file kind × mode", cli, model)
        for req, real in cli:
            p = req.split(" ")
            ctx.nontrivial.add(req)
            if p[1] == "clidir":
                check, diff = p[2] == "true", p[3] == "true"
                status, fstates = real.split(" ")
                if (check or diff) and any(f != "unchanged" for f in fstates.split(",")):
                    failures.append({"request": req, "real": real, "why": "--check/--diff modified a file of the directory"})
                if not (check or diff) and fstates != "rewritten-formatted,unchanged,rewritten-formatted,unchanged,rewritten-formatted":
                    failures.append({"request": req, "real": real, "why": "fmt must rewrite exactly the unformatted files"})
                continue
            kind, check, diff = p[2].split(":")[0], p[3] == "true", p[4] == "true"
            if (check or diff) and "unchanged" not in real:
                failures.append({"request": req, "real": real, "why": "--check/--diff modified the file"})
            if kind == "formatted" and real != "exit0 unchanged":
                failures.append({"request": req, "real": real, "why": "an already formatted file must pass and stay untouched"})
            if kind == "unformatted" and not check and not diff and real != "exit0 rewritten-formatted":
                failures.append({"request": req, "real": real, "why": "fmt must rewrite the file with the formatted text"})
            if kind == "unformatted" and check and real != "exit1 unchanged":
                failures.append({"request": req, "real": real, "why": "--check must report a file that fmt would rewrite"})
        # the output writer: real FormatWriter (hook) vs the model, operation sequence by operation sequence
        wcases, wmetas = ctx.run_harness("c09w")
        metas = metas + wmetas
        wmodel = ctx.run_driver([c[0] for c in wcases])
        ctx.tie("model writer (Tool/Writer) = real FormatWriter on generated operation sequences (text and the client-side condition)", wcases, wmodel)
        n_writer_clean = 0
        for req, real in wcases:
            ctx.nontrivial.add(req[:120])
            flag, _, enc = real.partition(" ")
            if flag == "1" and enc not in ("-", "") and not enc.startswith("panic"):
                text = "".join(chr(int(x, 16)) for x in enc.split(","))
                n_writer_clean += 1
                bad = [ln for ln in text.split("\n") if ln != ln.rstrip(" \t")] or ("\t" in text)
                if bad:
                    failures.append({"request": req[:300], "real": real[:300],
                                     "why": "the writer produced trailing whitespace / a tab although every piece it was given is clean (writer_hygiene)"})
            if enc.startswith("panic"):
                failures.append({"request": req[:300], "real": real[:300], "why": "the writer panicked"})
        hist = {}
        n_ok = 0
        for req, real in files:
            ctx.nontrivial.add(req[:80])
            parts = [x.strip() for x in real.split(" | ")]
            c09 = [x for x in parts if x.startswith("C09:") or x.startswith("FAIL")]
            if not c09:
                n_ok += 1
                continue
            for x in c09:
                hist[x[:40]] = hist.get(x[:40], 0) + 1
            failures.append({"request": req[:300], "real": "; ".join(c09)[:400],
                             "why": "not idempotent / --check inconsistent / hygiene violated"})
        ctx.evaluations = len(cases) + len(wcases)
        for f in failures[:5]:
            ctx.violation("oracle", f)
        ctx.samples = [{"request": r[:200], "real": o[:200]} for r, o in cli[:3] + files[30:33]]
        ctx.coverage_extra = {"cli_cases": len(cli), "sources": len(files), "sources_ok": n_ok, "failure_kinds": hist, "writer_sequences": len(wcases), "writer_sequences_client_ok": n_writer_clean,
                              "harness_meta": metas}
    ctx.conclude_broken_obligations(failures)
    return ctx.finish(
        rule="every repository .incn file + /verif/corpus/fmt + seeded random expression statements: fmt(fmt x) == fmt x, check_formatted(fmt x), exactly one final newline, no tabs / trailing blanks outside string tokens; 3 file kinds × 4 CLI modes run through format_files on real files; distinct = distinct source / CLI case",
        extra_cov=getattr(ctx, "coverage_extra", None))
