"""C17 — validated newtypes: proof audit + compiled-program correspondence + hook-enforcement oracle."""
from .common import Ctx, Obligation, tail

# what the property text calls "the validation hook": a static from_underlying(underlying) -> Result[T, E],
# or exactly one static from_*(underlying) -> Result[T, E]
def spec_hook(methods):
    if methods == "-":
        return None
    good = []
    for m in methods.split(","):
        name, recv, params, ret = m.split("/")
        if recv == "0" and name.startswith("from_") and params == "s.int" and ret.startswith("g2.Result.s.Pos."):
            good.append(name)
    if "from_underlying" in good:
        return "from_underlying"
    return good[0] if len(good) == 1 else None


OWN = {"ownmethod"}           # written inside the type's own methods: exempt by the statement
KNOWN_SITE = {"alias": "C17-type-name-as-function-value-bypasses-hook"}
KNOWN_MIX = {"arg": "C17-mixed-newtype-argument-accepted-by-check"}


def run(args):
    ctx = Ctx("C17", args.tier, args.seed)
    ctx.assumptions += ["rustc/cargo and the Rust semantics of `Result::expect`, tuple structs and privacy are trusted",
                        "validation hooks are modelled as partial functions of their argument (deterministic, side-effect free, as RFC 017 requires)",
                        "multi-file construction is outside the model: a newtype constructed from another module fails to compile (private tuple field), so no value is produced there either"]
    ctx.proof_stage("IncanModel.Props.C17")
    ok, out = ctx.build_harness()
    failures = []
    if not ok:
        ob = Obligation("correspondence", "harness build against /repo")
        ob.ok, ob.detail = False, tail(out, 15)
        ctx.obligations.append(ob)
    else:
        cases, metas = ctx.run_harness("c17", extra=[ctx.scratch], timeout=3400)
        site_cases = [c for c in cases if c[0].startswith("c17 site")]
        usite_cases = [c for c in cases if c[0].startswith("c17 usite")]
        mix_cases = [c for c in cases if c[0].startswith("c17 mix")]
        model = ctx.run_driver([c[0] for c in site_cases])
        ctx.evaluations = len(cases)
        ctx.tie("model selectHook + lower + eval = behaviour of the compiled program (printed value / validation panic naming type and hook) per declaration shape × site × value", site_cases, model)
        umodel = ctx.run_driver([c[0] for c in usite_cases])
        ctx.tie("model = compiled program for hooked newtypes over str / List / nested List / Dict / Option / float underlying types", usite_cases, umodel)
        hist = {"enforced": 0, "valid_ok": 0, "no_hook_raw": 0, "own_method_exempt": 0, "mix_rejected": 0}
        for req, real in site_cases:
            _, _, methods, shift, site, v, order = req.split(" ")
            ctx.nontrivial.add(f"{methods}|{site}|{int(v) > 0}|{shift}|{order}")
            hook = spec_hook(methods)
            if real.startswith("harness") or real.startswith("panic"):
                failures.append({"request": req, "real": real, "why": "program did not run to a defined outcome"})
                continue
            if hook is None:
                hist["no_hook_raw"] += 1
                continue
            if site in OWN:
                hist["own_method_exempt"] += 1
                continue
            if int(v) <= 0:
                if real == f"fail Pos::{hook}":
                    hist["enforced"] += 1
                elif real.startswith("ok"):
                    fid = KNOWN_SITE.get(site)
                    if fid and ctx.known(fid):
                        continue
                    failures.append({"request": req, "real": real, "why": f"the hook {hook} rejects {v} but the program produced a Pos holding it"})
                elif real.startswith("rejected") or real.startswith("rustc-error") or real == "unsupported":
                    pass  # no Pos was produced (a build failure is C02's concern)
                else:
                    failures.append({"request": req, "real": real, "why": "expected the validation failure"})
            else:
                exp = f"ok {int(v) + int(shift)}"
                if site == "nested":
                    exp = f"ok {int(v) + int(shift) + 1 + int(shift)}"
                if site == "list1":
                    exp = f"ok {1 + int(shift)}"
                if site == "alias":
                    exp = None
                if exp and real != exp:
                    failures.append({"request": req, "real": real, "why": f"a valid construction must yield the hook's value ({exp})"})
                else:
                    hist["valid_ok"] += 1
        for req, real in usite_cases:
            _, _, und, methods, valid = req.split(" ")
            ctx.nontrivial.add(req)
            hook = methods.split("/")[0]
            if valid == "0" and real != f"fail Pos::{hook}":
                failures.append({"request": req, "real": real, "why": f"the hook {hook} rejects the argument but no validation failure stopped the program"})
            elif valid == "1" and real != "ok":
                failures.append({"request": req, "real": real, "why": "a valid construction must succeed"})
            else:
                hist["enforced" if valid == "0" else "valid_ok"] += 1
        for req, real in mix_cases:
            site = req.split(" ")[2]
            ctx.nontrivial.add(req)
            if real == "check-reject":
                hist["mix_rejected"] += 1
            elif real.startswith("check-accept rustc-reject") or real.startswith("check-accept then"):
                fid = KNOWN_MIX.get(site)
                if fid and ctx.known(fid):
                    continue
                failures.append({"request": req, "real": real, "why": "`incan --check` accepts one newtype where another is required (only rustc rejects it)"})
            else:
                failures.append({"request": req, "real": real, "why": "two distinct newtypes were interchangeable"})
        for f in failures[:5]:
            ctx.violation("oracle", f)
        ctx.samples = [{"request": r, "real": o} for r, o in site_cases[:2] + site_cases[60:62] + mix_cases[:2]]
        ctx.coverage_extra = {"histogram": hist, "harness_meta": metas, "oracle_failures": len(failures)}
    ctx.conclude_broken_obligations(failures)
    return ctx.finish(
        rule="generated programs: 11 declaration shapes (from_underlying, single from_*, two from_*, with receiver, Option result, wrong parameter type/arity, Result of another type, no methods) × 19 construction sites (let, argument, list, field, Some/Ok, return, other newtype's / model's / own method, nested, alias, comprehension, dict, tuple, field default, match arm, field assignment) × valid/invalid arguments × identity/normalising hook, compiled by the real pipeline + rustc and run; 9 programs mixing two newtypes; distinct = (shape, site, validity, hook kind)",
        extra_cov=getattr(ctx, "coverage_extra", None))
