"""C04 — arithmetic kernels: proof audit + correspondence with the real kernels + Python itself as oracle."""
import math
import struct

from .common import Ctx

MIN, MAX = -2**63, 2**63 - 1
ZD = "panic ZeroDivisionError: float division by zero"


def f_of_hex(h):
    return struct.unpack(">d", int(h, 16).to_bytes(8, "big"))[0]


def parse_num(tok):
    kind, _, val = tok.partition(":")
    if kind == "i":
        return int(val)
    return f_of_hex(val)


def parse_res(real):
    """-> ('panic', msg) | ('i', int) | ('f', float|nan)"""
    if real.startswith("panic "):
        return ("panic", real[6:])
    if not real.startswith("ok "):
        return ("other", real)        # e.g. a compiled program that did not build or print a number
    parts = real.split(" ")
    if len(parts) == 2:          # "ok N" (int-only ops)
        return ("i", int(parts[1]))
    if parts[1] == "i":
        return ("i", int(parts[2]))
    if parts[2] == "nan":
        return ("f", float("nan"))
    return ("f", f_of_hex(parts[2]))


def oracle_case(req, real):
    """Return None if the property holds on this case, else (kind, message).
    kind is 'float-mod-rounds-to-divisor' for the recorded finding class, 'violation' otherwise,
    'excluded' for the carved-out MIN // -1 point (not a failure)."""
    _, op, a_s, b_s = req.split(" ")
    if op.startswith("prog_"):
        op = op.split("_", 2)[2]      # the operator inside a compiled program: same meaning as the wrapper
    res = parse_res(real)
    if res[0] == "other":
        return ("violation", f"no arithmetic result: {real!r}")
    if op in ("modcore", "fdivcore", "pymod_i64", "pyfloordiv_i64"):
        a, b = int(a_s), int(b_s)
        is_floor = op in ("fdivcore", "pyfloordiv_i64")
        if b == 0:
            if op in ("modcore", "fdivcore"):
                return None  # raw kernels have the precondition b != 0; wrappers are the API
            return None if real == ZD else ("violation", f"zero divisor gave {real!r}")
        if is_floor and a == MIN and b == -1:
            return ("excluded", real)
        exp = a // b if is_floor else a % b
        if res != ("i", exp):
            return ("violation", f"expected {exp}, got {real!r}")
        return None
    a, b = parse_num(a_s), parse_num(b_s)
    both_int = isinstance(a, int) and isinstance(b, int)
    fa, fb = float(a), float(b)
    if op == "modcore_f64":
        op = "pymod"
    if op in ("pymod_f64",):
        op = "pymod"
    if op in ("pyfloordiv_f64",):
        op = "pyfloordiv"
    if (b == 0) if isinstance(b, int) else (fb == 0.0):
        return None if real == ZD else ("violation", f"zero divisor gave {real!r}")
    if op == "pydiv":
        exp = fa / fb
        if res[0] != "f" or not (res[1] == exp):
            return ("violation", f"expected IEEE quotient {exp!r}, got {real!r}")
        return None
    if both_int:
        if op == "pyfloordiv" and a == MIN and b == -1:
            return ("excluded", real)
        exp = a // b if op == "pyfloordiv" else a % b
        return None if res == ("i", exp) else ("violation", f"expected {exp}, got {real!r}")
    if res[0] != "f":
        return ("violation", f"expected a float result, got {real!r}")
    r = res[1]
    if op == "pyfloordiv":
        q = fa / fb
        exp = q if math.isinf(q) else float(math.floor(q))
        return None if r == exp else ("violation", f"expected floor of float quotient {exp!r}, got {r!r}")
    # float %: sign rule, magnitude, and Python's own answer
    if r != 0.0 and (r > 0) != (fb > 0):
        return ("violation", f"remainder {r!r} has the wrong sign for divisor {fb!r}")
    if not (abs(r) < abs(fb)):
        if abs(r) == abs(fb) and math.fmod(fa, fb) != 0.0:
            return ("float-mod-rounds-to-divisor", f"{fa!r} % {fb!r} = {r!r}: magnitude not below |b|")
        return ("violation", f"|{r!r}| is not below |{fb!r}|")
    if r != fa % fb:
        return ("violation", f"Python gives {fa % fb!r}, got {r!r}")
    return None


def run(args):
    ctx = Ctx("C04", args.tier, args.seed)
    ctx.assumptions += [
        "float kernels: IEEE rounding is not modelled in any theorem; the float model uses Lean's native Float and is tied by correspondence only",
        "Python 3 (this interpreter) is the oracle for //, %, / on ints and floats",
    ]
    ctx.proof_stage("IncanModel.Props.C04")
    ok, out = ctx.build_harness()
    failures = []
    if not ok:
        from .common import Obligation, tail
        ob = Obligation("correspondence", "harness build against /repo")
        ob.ok, ob.detail = False, tail(out, 15)
        ctx.obligations.append(ob)
    else:
        cases, metas = ctx.run_harness("c04")
        model = ctx.run_driver([c[0] for c in cases])
        ctx.evaluations = len(cases)
        by_stream = {}
        for c, m in zip(cases, model):
            by_stream.setdefault(c[0].split(" ")[1], []).append((c, m))
        for name, items in sorted(by_stream.items()):
            ctx.tie(f"model = real on `{name}`", [i[0] for i in items], [i[1] for i in items])
        # oracle
        hist = {}
        core_std = {}
        excluded = 0
        for req, real in cases:
            parts = req.split(" ")
            op = parts[1]
            hist[op] = hist.get(op, 0) + 1
            ctx.nontrivial.add((parts[2], parts[3]))
            v = oracle_case(req, real)
            fam = {"modcore": "imod", "pymod_i64": "imod", "fdivcore": "ifdiv", "pyfloordiv_i64": "ifdiv",
                   "modcore_f64": "fmod", "pymod_f64": "fmod"}.get(op)
            if fam:
                core_std.setdefault((fam, parts[2], parts[3]), {})[op] = real
            if v is None:
                continue
            if v[0] == "excluded":
                excluded += 1
                continue
            if v[0] == "float-mod-rounds-to-divisor" and ctx.known("C04-float-mod-rounds-to-divisor"):
                continue
            failures.append({"request": req, "real": real, "why": v[1]})
        # compile-time core and runtime library give identical answers (divisor non-zero)
        pairs = 0
        for (k, a, b), d in core_std.items():
            zero = (int(b) == 0) if k[0] == "i" else (parse_num(b) == 0.0)
            if len(d) == 2 and not zero:
                vals = list(d.values())
                pairs += 1
                if vals[0] != vals[1]:
                    failures.append({"request": f"core-vs-runtime {k} {a} {b}", "real": d, "why": "core and runtime differ"})
        for f in failures[:5]:
            ctx.violation("oracle", f)
        ctx.samples = [{"request": r, "real": o} for r, o in cases[:3] + cases[len(cases)//2:len(cases)//2+3] + cases[-3:]]
        ctx.coverage_extra = {"op_histogram": hist, "excluded_min_floordiv_neg1": excluded,
                              "core_vs_runtime_pairs": pairs, "harness_meta": metas}
        # recorded witness of the float-% finding: must still fail to be printed
    ctx.conclude_broken_obligations(failures)
    return ctx.finish(
        rule="exhaustive boundary grids (ints, floats, mixed) + seeded random operand pairs; distinct = distinct operand pair; every pair is non-trivial (goes through a kernel)",
        extra_cov=getattr(ctx, "coverage_extra", None))
