"""C08 — formatting preserves the program: ladder round-trip proof + parser/formatter correspondence on
generated expressions + AST-preservation oracle on whole files."""
from .common import Ctx, Obligation, tail


def run(args):
    ctx = Ctx("C08", args.tier, args.seed)
    ctx.assumptions += [
        "the ladder theorem is at token level (atoms opaque); literal atoms have their own model and theorems (string_literal_roundtrip, bytes_literal_roundtrip: formatter escaping read back by the lexer); statement/declaration printing and the rest of the text->token step are covered by the oracle, not by a theorem",
        "documented normalisation applied before comparing ASTs: surrounding whitespace of docstrings (format_docstring trims it)",
    ]
    ctx.proof_stage("IncanModel.Props.C08")
    ok, out = ctx.build_harness()
    failures = []
    if not ok:
        ob = Obligation("correspondence", "harness build against /repo")
        ob.ok, ob.detail = False, tail(out, 15)
        ctx.obligations.append(ob)
    else:
        cases, metas = ctx.run_harness("c08")
        back = [c for c in cases if c[0].split(" ")[1] in ("bytesback", "strback", "floatback")]
        cases = [c for c in cases if c[0].split(" ")[1] not in ("bytesback", "strback", "floatback")]
        model = ctx.run_driver([c[0] for c in cases])
        by_stream = {}
        for c, m in zip(cases, model):
            by_stream.setdefault(c[0].split(" ")[1], []).append((c, m))
        names = {"parse": "model parse(real tokens) = real parser's tree (incl. rejections)",
                 "fmt": "model fmt(real tree) = tokens of the real formatter's output",
                 "rt": "model round trip = real round trip",
                 "fmtbytes": "model fmtBytes = the text the real formatter writes for a bytes literal (every single byte + random byte strings)",
                 "fmtstr": "model fmtStr = the text the real formatter writes for a string literal",
                 "scanbytes": "model scanBytes = the real lexer on arbitrary bytes-literal texts (escapes, hex pairs, unknown escapes, non-ASCII, unterminated)",
                 "scanstr": "model lexStr / scanStr = the real lexer on arbitrary string-literal texts"}
        for name, items in sorted(by_stream.items()):
            ctx.tie(names.get(name, name), [i[0] for i in items], [i[1] for i in items])
        ops = {}
        for req, real in cases:
            p = req.split(" ")
            ctx.nontrivial.add(p[2])
            if p[1] == "rt" and real != "same":
                failures.append({"request": req, "real": real, "why": "formatted expression parses to a different tree"})
            if p[1] == "fmt" and real in ("format-failed", "formatted-does-not-parse"):
                failures.append({"request": req, "real": real, "why": "formatter output unusable"})
            if p[1] == "parse":
                for t in p[2].split(","):
                    if not t.startswith("a"):
                        ops[t] = ops.get(t, 0) + 1
        for req, real in back:
            p = req.split(" ")
            ctx.nontrivial.add(req)
            if real != p[2]:
                failures.append({"request": req, "real": real, "expected": p[2], "why": "the literal the formatter wrote is read back as a different value"})
        files, fmetas = ctx.run_harness("fmt", name="fmt")
        n_ok = 0
        kinds = {}
        for req, real in files:
            if req.startswith("c09 "):
                continue
            ctx.nontrivial.add(req[:80])
            parts = [x.strip() for x in real.split(" | ")]
            c08 = [x for x in parts if x.startswith("C08:") or x.startswith("FAIL")]
            kinds[req.split(" ")[1]] = kinds.get(req.split(" ")[1], 0) + 1
            if not c08:
                n_ok += 1
                continue
            failures.append({"request": req[:300], "real": "; ".join(c08)[:600],
                             "why": "formatting changed the AST / output does not parse"})
        ctx.evaluations = len(cases) + len(files)
        for f in failures[:5]:
            ctx.violation("oracle", f)
        ctx.samples = [{"request": r[:200], "real": o[:200]} for r, o in cases[:3] + files[20:23]]
        ctx.coverage_extra = {"ladder_cases": len(cases), "operator_token_histogram": ops, "whole_file_sources": kinds,
                              "whole_file_ok": n_ok, "harness_meta": metas + fmetas, "oracle_failures": len(failures)}
    ctx.conclude_broken_obligations(failures)
    return ctx.finish(
        rule="seeded random expressions over the whole ladder (20 binary ops, 3 prefix ops, ?, indexing, parens; depth ≤ 6) through the real lexer/parser/formatter; every repository .incn file + the construct corpus in /verif/corpus/fmt + random statement-embedded expressions through format_source with AST comparison; string, bytes and float literal values (floats incl. integral values beyond 2^63, subnormals, the largest finite value; every byte value, quotes, apostrophes, backslashes, control and non-ASCII characters) through the formatter and back through the lexer, and arbitrary literal texts through the lexer; distinct = distinct tree / source / value",
        extra_cov=getattr(ctx, "coverage_extra", None))
