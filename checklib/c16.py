"""C16 — `incan test` reports the truth: proof audit + real runner correspondence + ground-truth oracle."""
from .common import Ctx, Obligation, tail


def truth(tests, flt, slow, stop):
    out, counts = [], {"passed": 0, "failed": 0, "skipped": 0, "xfailed": 0, "xpassed": 0}
    for name, (skip, xfail, is_slow, ok) in tests:
        if flt != "-" and flt not in name:
            continue
        if is_slow and not slow:
            continue
        if skip:
            v, k = "SKIPPED", "skipped"
        elif xfail:
            v, k = ("XPASS", "xpassed") if ok else ("XFAIL", "xfailed")
        else:
            v, k = ("PASSED", "passed") if ok else ("FAILED", "failed")
        out.append(f"{name}={v}")
        counts[k] += 1
        if stop and v == "FAILED":
            break
    exit_code = 1 if (counts["failed"] or counts["xpassed"]) else 0
    summary = "+".join(f"{n}_{k}" for k, n in counts.items() if n)
    return exit_code, out, summary


def run(args):
    ctx = Ctx("C16", args.tier, args.seed)
    ctx.assumptions += ["`cargo test` exits 0 on the generated per-test project iff the selected function runs to completion (rustc/cargo/libtest trusted)",
                        "fixtures, parametrize and async tests are outside the model (a test taking fixture parameters does not compile in the per-test project and is reported FAILED)"]
    ctx.proof_stage("IncanModel.Props.C16")
    ok, out = ctx.build_harness()
    failures = []
    if not ok:
        ob = Obligation("correspondence", "harness build against /repo")
        ob.ok, ob.detail = False, tail(out, 15)
        ctx.obligations.append(ob)
    else:
        cases, metas = ctx.run_harness("c16", extra=[ctx.scratch], timeout=3400)
        model = ctx.run_driver([c[0] for c in cases])
        ctx.evaluations = len(cases)
        ctx.tie("model runTests = real `incan test` (per-test verdicts, printed counts, exit status) on generated test files", cases, model)
        n_tests = 0
        kinds = {}
        for req, real in cases:
            p = req.split(" ")
            tests = []
            for t in p[2].split(","):
                name, flags = t.split(":")
                tests.append((name, tuple(c == "1" for c in flags)))
            flt, slow, stop = p[3], p[4] == "1", p[5] == "1"
            ctx.nontrivial.add(req)
            ec, verdicts, summary = truth(tests, flt, slow, stop)
            exp = f"exit={ec} verdicts={','.join(verdicts) if verdicts else '-'} summary={summary or '-'}"
            n_tests += len(verdicts)
            for v in verdicts:
                kinds[v.split("=")[1]] = kinds.get(v.split("=")[1], 0) + 1
            if real != exp:
                failures.append({"request": req, "real": real, "expected": exp,
                                 "why": "verdicts / counts / exit status differ from what the test bodies actually do"})
        for f in failures[:5]:
            ctx.violation("oracle", f)
        ctx.samples = [{"request": r, "real": o} for r, o in cases[:3]]
        ctx.coverage_extra = {"scenarios": len(cases), "tests_run_through_cargo": n_tests, "verdict_kinds": kinds, "harness_meta": metas}
        for k in kinds:
            ctx.nontrivial.add(k)
    ctx.conclude_broken_obligations(failures)
    return ctx.finish(
        rule="generated test files with ground truth (passing, failing assert, index panic, division by zero, @skip, @xfail failing and passing, @slow) run by the real `incan test` with -k / --slow / -x variations; every executed test goes through a real `cargo test`; distinct = distinct scenario",
        extra_cov=getattr(ctx, "coverage_extra", None))
