//! C05: real indexing / slicing / range helpers on exhaustive small grids, extremes and random inputs.
use crate::util::{Out, Rng, catch, enc_str};
use incan_stdlib::{collections, iter, strings};
use std::collections::HashMap;

const CAP: usize = 64;

fn opt(v: Option<i64>) -> String {
    match v {
        Some(x) => x.to_string(),
        None => "none".to_string(),
    }
}
fn show_list(v: &[i64]) -> String {
    if v.is_empty() { "-".to_string() } else { v.iter().map(|x| x.to_string()).collect::<Vec<_>>().join(",") }
}

fn str_cases(out: &mut Out, s: &str, a: Option<i64>, b: Option<i64>, c: Option<i64>) {
    let e = enc_str(s);
    let r = catch(|| strings::str_slice(s, a, b, c));
    out.case(
        &format!("c05 strslice {e} {} {} {}", opt(a), opt(b), opt(c)),
        &match r {
            Ok(v) => format!("ok {}", enc_str(&v)),
            Err(m) => format!("panic {m}"),
        },
    );
    let r = catch(|| incan_core::strings::str_slice(s, a, b, c));
    out.case(
        &format!("c05 corestrslice {e} {} {} {}", opt(a), opt(b), opt(c)),
        &match r {
            Ok(Ok(v)) => format!("ok {}", enc_str(&v)),
            Ok(Err(err)) => format!("err {err:?}"),
            Err(m) => format!("panic {m}"),
        },
    );
}

fn str_index_case(out: &mut Out, s: &str, i: i64) {
    let e = enc_str(s);
    let r = catch(|| strings::str_index(s, i));
    out.case(
        &format!("c05 stridx {e} {i}"),
        &match r {
            Ok(v) => format!("ok {}", enc_str(&v)),
            Err(m) => format!("panic {m}"),
        },
    );
    let r = catch(|| incan_core::strings::str_char_at(s, i));
    out.case(
        &format!("c05 corestridx {e} {i}"),
        &match r {
            Ok(Ok(v)) => format!("ok {}", enc_str(&v)),
            Ok(Err(err)) => format!("err {err:?}"),
            Err(m) => format!("panic {m}"),
        },
    );
}

fn list_cases(out: &mut Out, n: usize, a: Option<i64>, b: Option<i64>, c: Option<i64>) {
    let xs: Vec<i64> = (0..n as i64).collect();
    let r = catch(|| collections::list_slice(&xs, a, b, c));
    out.case(
        &format!("c05 listslice {n} {} {} {}", opt(a), opt(b), opt(c)),
        &match r {
            Ok(v) => format!("ok {}", show_list(&v)),
            Err(m) => format!("panic {m}"),
        },
    );
}

fn list_get_case(out: &mut Out, n: usize, i: i64) {
    let mut xs: Vec<i64> = (0..n as i64).collect();
    let r = catch(|| *collections::list_get(&xs, i));
    let shown = match r {
        Ok(v) => format!("ok {v}"),
        Err(m) => format!("panic {m}"),
    };
    out.case(&format!("c05 listget {n} {i}"), &shown);
    let r2 = catch(|| *collections::list_get_mut(&mut xs, i));
    let shown2 = match r2 {
        Ok(v) => format!("ok {v}"),
        Err(m) => format!("panic {m}"),
    };
    out.case(&format!("c05 listgetmut {n} {i}"), &shown2);
}

fn range_case(out: &mut Out, a: i64, b: i64, c: i64) {
    let r = catch(|| {
        let mut it = iter::range(a, b, c);
        let mut v = Vec::new();
        let mut more = false;
        loop {
            match it.next() {
                None => break,
                Some(x) => {
                    if v.len() == CAP {
                        more = true;
                        break;
                    }
                    v.push(x)
                }
            }
        }
        (v, more)
    });
    out.case(
        &format!("c05 range {a} {b} {c} {CAP}"),
        &match r {
            Ok((v, more)) => format!("ok {}{}", show_list(&v), if more { " more" } else { "" }),
            Err(m) => format!("panic {m}"),
        },
    );
}

fn dict_case(out: &mut Out, keys: &[&str], key: &str) {
    let mut m: HashMap<String, i64> = HashMap::new();
    for (i, k) in keys.iter().enumerate() {
        m.insert(k.to_string(), i as i64);
    }
    let r = catch(|| *collections::dict_get(&m, &key.to_string()));
    let ks = keys.iter().map(|k| enc_str(k)).collect::<Vec<_>>().join(";");
    out.case(
        &format!("c05 dictget {} {}", if ks.is_empty() { "_".to_string() } else { ks }, enc_str(key)),
        &match r {
            Ok(v) => format!("ok {v}"),
            Err(m) => format!("panic {m}"),
        },
    );
}

const EXTREMES: [i64; 11] = [i64::MIN, i64::MIN + 1, -9, -2, -1, 0, 1, 2, 9, i64::MAX - 1, i64::MAX];

fn rand_idx(rng: &mut Rng, len: i64) -> i64 {
    match rng.below(6) {
        0 => *rng.pick(&EXTREMES),
        1 => rng.range(-len - 3, len + 3),
        2 => rng.range(-3, 3),
        3 => i64::MAX - rng.range(0, 12),
        4 => i64::MIN + rng.range(0, 12),
        _ => rng.next() as i64,
    }
}
fn rand_opt(rng: &mut Rng, len: i64) -> Option<i64> {
    if rng.chance(1, 4) { None } else { Some(rand_idx(rng, len)) }
}

/// Parse `y = s[<text>]` with the real lexer + parser and describe the slice it found.
fn parse_slice_case(out: &mut Out, text: &str) {
    use incan_syntax::ast::{Declaration, Expr, Literal, Statement, UnaryOp};
    fn lit(e: &Option<Box<incan_syntax::ast::Spanned<Expr>>>) -> String {
        match e {
            None => "none".to_string(),
            Some(b) => match &b.node {
                Expr::Literal(Literal::Int(i)) => i.to_string(),
                Expr::Unary(UnaryOp::Neg, inner) => match &inner.node {
                    Expr::Literal(Literal::Int(i)) => format!("-{i}"),
                    _ => "?".to_string(),
                },
                Expr::Ident(n) => n.clone(),
                _ => "?".to_string(),
            },
        }
    }
    let src = format!("def f(s: str, k: int) -> None:\n    y = s[{text}]\n");
    let real = catch(|| {
        let toks = match incan_syntax::lexer::lex(&src) {
            Ok(t) => t,
            Err(e) => return format!("lexerr {}", e[0].message),
        };
        let prog = match incan_syntax::parser::parse(&toks) {
            Ok(p) => p,
            Err(e) => return format!("parseerr {}", e[0].message),
        };
        for d in &prog.declarations {
            if let Declaration::Function(f) = &d.node {
                for st in &f.body {
                    if let Statement::Assignment(a) = &st.node {
                        return match &a.value.node {
                            Expr::Slice(_, sl) => format!("slice {} {} {}", lit(&sl.start), lit(&sl.end), lit(&sl.step)),
                            Expr::Index(_, i) => format!("index {}", lit(&Some(i.clone()))),
                            _ => "other".to_string(),
                        };
                    }
                }
            }
        }
        "nothing".to_string()
    });
    let shown = match real {
        Ok(s) => s,
        Err(m) => format!("panic {m}"),
    };
    out.case(&format!("c05 parse {}", enc_str(text)), &shown);
}

pub fn run(out: &mut Out, tier: &str, seed: u64) {
    // slice syntax: all 8 present/absent shapes (+ the index form), several operand spellings and spacings
    for a in ["", "1", "-2", "k"] {
        for b in ["", "3", "-1", "k"] {
            for c in ["", "2", "-1", "k"] {
                for sp in 0..4 {
                    let (l, r) = match sp {
                        0 => ("", ""),
                        1 => (" ", ""),
                        2 => ("", " "),
                        _ => (" ", " "),
                    };
                    parse_slice_case(out, &format!("{a}{l}:{r}{b}{l}:{r}{c}"));
                    if c.is_empty() {
                        parse_slice_case(out, &format!("{a}{l}:{r}{b}"));
                    }
                }
            }
        }
        if !a.is_empty() {
            parse_slice_case(out, a);
        }
    }

    let mut rng = Rng::new(seed);
    let thorough = tier == "thorough";
    let alphabet = ['a', 'é', '€', '😀', 'b', 'c', 'd'];
    let max_len = if thorough { 6 } else { 4 };
    let span = if thorough { 8 } else { 6 };
    let mut opts: Vec<Option<i64>> = vec![None];
    for v in -span..=span {
        opts.push(Some(v));
    }
    // exhaustive small grid
    for n in 0..=max_len {
        let s: String = alphabet.iter().take(n).collect();
        for &a in &opts {
            for &b in &opts {
                for &c in &opts {
                    list_cases(out, n, a, b, c);
                    str_cases(out, &s, a, b, c);
                }
            }
        }
        for i in -(n as i64) - 3..=(n as i64) + 3 {
            list_get_case(out, n, i);
            str_index_case(out, &s, i);
        }
        for &i in &EXTREMES {
            list_get_case(out, n, i);
            str_index_case(out, &s, i);
        }
    }
    // extremes in every position
    let mut eopts: Vec<Option<i64>> = vec![None];
    eopts.extend(EXTREMES.iter().map(|x| Some(*x)));
    for n in [0usize, 1, 5, 10] {
        let s: String = (0..n).map(|i| alphabet[i % alphabet.len()]).collect();
        for &a in &eopts {
            for &b in &eopts {
                for &c in &eopts {
                    list_cases(out, n, a, b, c);
                    str_cases(out, &s, a, b, c);
                }
            }
        }
    }
    // range: small grid + extremes
    for a in -4..=4 {
        for b in -4..=4 {
            for c in -3..=3 {
                range_case(out, a, b, c);
            }
        }
    }
    for &a in &EXTREMES {
        for &b in &EXTREMES {
            for &c in &EXTREMES {
                range_case(out, a, b, c);
            }
        }
    }
    // random
    let n_rand = if thorough { 200_000 } else { 10_000 };
    for _ in 0..n_rand {
        let n = rng.below(14) as usize;
        let (a, b, c) = (rand_opt(&mut rng, n as i64), rand_opt(&mut rng, n as i64), rand_opt(&mut rng, n as i64));
        list_cases(out, n, a, b, c);
        let s: String = (0..n).map(|_| *rng.pick(&alphabet)).collect();
        str_cases(out, &s, a, b, c);
        let i = rand_idx(&mut rng, n as i64);
        list_get_case(out, n, i);
        str_index_case(out, &s, i);
        let (ra, rb, rc) = (rand_idx(&mut rng, 20), rand_idx(&mut rng, 20), rand_idx(&mut rng, 6));
        range_case(out, ra, rb, rc);
        // ranges that end near the i64 limits (where the step can overflow)
        let near = if rng.chance(1, 2) { i64::MAX - rng.range(0, 40) } else { i64::MIN + rng.range(0, 40) };
        range_case(out, near, rand_idx(&mut rng, 20), rand_idx(&mut rng, 50));
    }
    dict_case(out, &[], "k");
    dict_case(out, &["a", "b"], "a");
    dict_case(out, &["a", "b"], "missing");
    dict_case(out, &["a", "é"], "é'q");
    dict_case(out, &["a"], "");
    out.meta(&serde_json::json!({"exhaustive_max_len": max_len, "index_span": span, "extremes": EXTREMES.len(), "random": n_rand}));
}
