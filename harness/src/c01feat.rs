//! C01, second stream (oracle only, no Lean model): feature programs beyond the core fragment — Option / Result /
//! `?`, enums and match, models and classes with methods and field mutation, f-strings (incl. literal braces),
//! string methods, dicts, comprehensions, slices, tuples, recursion, numeric promotion observed through comparisons.
//! Each template is rendered in Incan and in Python with seeded constants; CPython is the oracle.
use crate::util::Rng;

pub struct Feat { pub name: &'static str, pub incan: String, pub python: String }

const PY_PRELUDE: &str = "def show(*vs):\n    print(' '.join('true' if v is True else 'false' if v is False else str(v) for v in vs))\n\n";

pub fn programs(r: &mut Rng) -> Vec<Feat> {
    let mut out = Vec::new();
    let a = r.range(-6, 9);
    let b = r.range(1, 7);
    let c = r.range(-4, 12);
    let words = ["ab", "Hello World", "x,y,z", "  pad  ", "MiXed"];
    let w = *r.pick(&words);
    // 1. Option + match (statement and early return)
    out.push(Feat { name: "option-match",
        incan: format!("def f(o: Option[int]) -> int:\n    match o:\n        Some(v) => return v + {b}\n        None => return {a}\n\ndef g(n: int) -> Option[int]:\n    if n > {b}:\n        return Some(n * 2)\n    return None\n\ndef main() -> None:\n    print(f(g({c})))\n    print(f(g({a})))\n    r = g({c} + {b})\n    match r:\n        Some(v) =>\n            print(v)\n        None =>\n            print(-1)\n"),
        python: format!("{PY_PRELUDE}def f(o):\n    if o is not None:\n        return o + {b}\n    return {a}\n\ndef g(n):\n    if n > {b}:\n        return n * 2\n    return None\n\nshow(f(g({c})))\nshow(f(g({a})))\nr = g({c} + {b})\nshow(r if r is not None else -1)\n") });
    // 2. enum + match + loop over variants
    out.push(Feat { name: "enum-match",
        incan: format!("enum Color:\n    Red\n    Green\n    Blue\n\ndef code(c: Color) -> int:\n    match c:\n        Color.Red => return {a}\n        Color.Green => return {b}\n        Color.Blue => return {c}\n\ndef main() -> None:\n    print(code(Color.Green))\n    cs = [Color.Blue, Color.Red, Color.Blue]\n    mut total = 0\n    for col in cs:\n        total += code(col)\n    print(total)\n"),
        python: format!("{PY_PRELUDE}def code(c):\n    return {{'Red': {a}, 'Green': {b}, 'Blue': {c}}}[c]\n\nshow(code('Green'))\ntotal = 0\nfor col in ['Blue', 'Red', 'Blue']:\n    total += code(col)\nshow(total)\n") });
    // 3. model with methods returning its own type, class with mutation
    out.push(Feat { name: "model-class-methods",
        incan: format!("model Pt:\n    x: int\n    y: int\n\n    def norm1(self) -> int:\n        return self.x + self.y\n\n    def scaled(self, k: int) -> Pt:\n        return Pt(x=self.x * k, y=self.y * k)\n\nclass Counter:\n    n: int\n\n    def bump(mut self, by: int) -> int:\n        self.n = self.n + by\n        return self.n\n\n    def get(self) -> int:\n        return self.n\n\ndef main() -> None:\n    p = Pt(x={a}, y={c})\n    q = p.scaled({b})\n    print(p.norm1())\n    print(q.x)\n    print(q.norm1())\n    mut k = Counter(n={a})\n    print(k.bump({b}))\n    print(k.bump({c}))\n    print(k.get())\n"),
        python: format!("{PY_PRELUDE}class Pt:\n    def __init__(self, x, y):\n        self.x = x; self.y = y\n    def norm1(self):\n        return self.x + self.y\n    def scaled(self, k):\n        return Pt(self.x * k, self.y * k)\n\nclass Counter:\n    def __init__(self, n):\n        self.n = n\n    def bump(self, by):\n        self.n = self.n + by\n        return self.n\n    def get(self):\n        return self.n\n\np = Pt({a}, {c})\nq = p.scaled({b})\nshow(p.norm1())\nshow(q.x)\nshow(q.norm1())\nk = Counter({a})\nshow(k.bump({b}))\nshow(k.bump({c}))\nshow(k.get())\n") });
    // 4. f-strings with expressions and literal braces
    out.push(Feat { name: "fstring",
        incan: format!("def main() -> None:\n    a = {a}\n    b = {b}\n    flag = True\n    name = \"{w}\"\n    print(f\"{{a}} and {{b + 1}} {{flag}} {{name}}!\")\n    print(f\"sum={{a + b}} prod={{a * b}}\")\n    print(f\"{{{{literal}}}} {{a}}\")\n"),
        python: format!("{PY_PRELUDE}a = {a}\nb = {b}\nflag = True\nname = \"{w}\"\nshow(f\"{{a}} and {{b + 1}} {{'true' if flag else 'false'}} {{name}}!\")\nshow(f\"sum={{a + b}} prod={{a * b}}\")\nshow(f\"{{{{literal}}}} {{a}}\")\n") });
    // 5. Result and ?
    out.push(Feat { name: "result-try",
        incan: format!("def parse(n: int) -> Result[int, str]:\n    if n < 0:\n        return Err(\"negative\")\n    return Ok(n * {b})\n\ndef both(x: int, y: int) -> Result[int, str]:\n    p = parse(x)?\n    q = parse(y)?\n    return Ok(p + q)\n\ndef main() -> None:\n    match both({b}, {c}):\n        Ok(v) => print(v)\n        Err(e) => print(e)\n    match both({a}, -1):\n        Ok(v) => print(v)\n        Err(e) => print(e)\n"),
        python: format!("{PY_PRELUDE}def parse(n):\n    if n < 0:\n        raise ValueError('negative')\n    return n * {b}\n\ndef both(x, y):\n    return parse(x) + parse(y)\n\nfor (x, y) in [({b}, {c}), ({a}, -1)]:\n    try:\n        show(both(x, y))\n    except ValueError as e:\n        show(str(e))\n") });
    // 6. string methods
    out.push(Feat { name: "string-methods",
        incan: format!("def main() -> None:\n    s = \"{w}\"\n    print(s.strip().upper())\n    print(s.lower())\n    print(len(s))\n    t = \"a,b,c\"\n    parts = t.split(\",\")\n    print(len(parts))\n    print(\"-\".join(parts))\n    print(t.replace(\",\", \";\"))\n    print(t.startswith(\"a,\"))\n    print(\"b\" in t)\n"),
        python: format!("{PY_PRELUDE}s = \"{w}\"\nshow(s.strip().upper())\nshow(s.lower())\nshow(len(s))\nt = \"a,b,c\"\nparts = t.split(\",\")\nshow(len(parts))\nshow(\"-\".join(parts))\nshow(t.replace(\",\", \";\"))\nshow(t.startswith(\"a,\"))\nshow(\"b\" in t)\n") });
    // 7. dict
    out.push(Feat { name: "dict",
        incan: format!("def main() -> None:\n    mut d: Dict[str, int] = {{}}\n    d[\"a\"] = {a}\n    d[\"b\"] = {b}\n    d[\"a\"] = {c}\n    print(len(d))\n    print(d[\"a\"])\n    print(\"b\" in d)\n    print(\"z\" in d)\n    mut total = 0\n    for k in d.keys():\n        total += d[k]\n    print(total)\n"),
        python: format!("{PY_PRELUDE}d = {{}}\nd['a'] = {a}\nd['b'] = {b}\nd['a'] = {c}\nshow(len(d))\nshow(d['a'])\nshow('b' in d)\nshow('z' in d)\nshow(sum(d.values()))\n") });
    // 8. recursion + loops
    out.push(Feat { name: "recursion",
        incan: format!("def fib(n: int) -> int:\n    if n < 2:\n        return n\n    return fib(n - 1) + fib(n - 2)\n\ndef fact(n: int) -> int:\n    mut r = 1\n    for i in range(2, n + 1):\n        r *= i\n    return r\n\ndef main() -> None:\n    print(fib({b} + 8))\n    print(fact({b} + 3))\n"),
        python: format!("{PY_PRELUDE}def fib(n):\n    return n if n < 2 else fib(n - 1) + fib(n - 2)\n\ndef fact(n):\n    r = 1\n    for i in range(2, n + 1):\n        r *= i\n    return r\n\nshow(fib({b} + 8))\nshow(fact({b} + 3))\n") });
    // 9. comprehensions, slices, negative indices
    out.push(Feat { name: "comprehension-slice",
        incan: format!("def main() -> None:\n    xs = [3, {a}, 4, {b}, -5, {c}]\n    sq = [x * x for x in xs if x > 0]\n    print(len(sq))\n    print(sq[0] + sq[-1])\n    ev = [x for x in range(10) if x % 2 == 0]\n    print(ev[-1])\n    print(xs[1:4][0])\n    print(len(xs[::2]))\n    print(xs[-2])\n    ys = xs[::-1]\n    print(ys[0])\n"),
        python: format!("{PY_PRELUDE}xs = [3, {a}, 4, {b}, -5, {c}]\nsq = [x * x for x in xs if x > 0]\nshow(len(sq))\nshow(sq[0] + sq[-1])\nev = [x for x in range(10) if x % 2 == 0]\nshow(ev[-1])\nshow(xs[1:4][0])\nshow(len(xs[::2]))\nshow(xs[-2])\nys = xs[::-1]\nshow(ys[0])\n") });
    // 10. tuples
    out.push(Feat { name: "tuple",
        incan: format!("def mm(x: int, y: int) -> (int, int):\n    if x < y:\n        return (x, y)\n    return (y, x)\n\ndef main() -> None:\n    t = mm({a}, {c})\n    print(t.0)\n    print(t.1)\n    print(mm({b}, {a}).1)\n"),
        python: format!("{PY_PRELUDE}def mm(x, y):\n    return (x, y) if x < y else (y, x)\n\nt = mm({a}, {c})\nshow(t[0])\nshow(t[1])\nshow(mm({b}, {a})[1])\n") });
    // 11. numeric promotion, observed through comparisons and integer results
    out.push(Feat { name: "numeric-promotion",
        incan: format!("def main() -> None:\n    a = {c}\n    b = {b}\n    x = a / b\n    print(x * b > a - 0.001 and x * b < a + 0.001)\n    y = a + 0.5\n    print(y > a)\n    print(a // b)\n    print(-a // b)\n    print(-a % b)\n    print(a % -b)\n    z = 2 ** {b}\n    print(z)\n    w = 2 ** -1\n    print(w == 0.5)\n    print(a < 2.5)\n    print(a <= x)\n"),
        python: format!("{PY_PRELUDE}a = {c}\nb = {b}\nx = a / b\nshow(x * b > a - 0.001 and x * b < a + 0.001)\ny = a + 0.5\nshow(y > a)\nshow(a // b)\nshow(-a // b)\nshow(-a % b)\nshow(a % -b)\nz = 2 ** {b}\nshow(z)\nw = 2 ** -1\nshow(w == 0.5)\nshow(a < 2.5)\nshow(a <= x)\n") });
    // 12. while / break / continue with nested control flow and early return
    out.push(Feat { name: "control-flow",
        incan: format!("def first_over(xs: List[int], limit: int) -> int:\n    for v in xs:\n        if v <= limit:\n            continue\n        return v\n    return -1\n\ndef main() -> None:\n    mut i = 0\n    mut acc = 0\n    while True:\n        i += 1\n        if i % 2 == 0:\n            continue\n        if i > {b} + 6:\n            break\n        acc += i\n    print(acc)\n    print(first_over([1, {a}, {c}, 20], {b}))\n    print(first_over([1], 5))\n"),
        python: format!("{PY_PRELUDE}def first_over(xs, limit):\n    for v in xs:\n        if v <= limit:\n            continue\n        return v\n    return -1\n\ni = 0\nacc = 0\nwhile True:\n    i += 1\n    if i % 2 == 0:\n        continue\n    if i > {b} + 6:\n        break\n    acc += i\nshow(acc)\nshow(first_over([1, {a}, {c}, 20], {b}))\nshow(first_over([1], 5))\n") });
    // 13. range with a step: counting down, landing exactly on / jumping over the stop value, empty ranges
    let s1 = r.range(1, 3);
    let hi = r.range(4, 9);
    out.push(Feat { name: "range-step",
        incan: format!("def main() -> None:\n    mut acc = 0\n    for i in range({hi}, 0, -1):\n        acc = acc * 2 + i\n    print(acc)\n    for i in range({hi}, {a}, -{s1}):\n        print(i)\n    for i in range(0, {hi}, {s1} + 1):\n        print(i)\n    for i in range(3, 3, -1):\n        print(99)\n    for i in range(2, 5, -1):\n        print(98)\n    mut n = 0\n    for i in range(10, 4, -2):\n        n += i\n    print(n)\n"),
        python: format!("{PY_PRELUDE}acc = 0\nfor i in range({hi}, 0, -1):\n    acc = acc * 2 + i\nshow(acc)\nfor i in range({hi}, {a}, -{s1}):\n    show(i)\nfor i in range(0, {hi}, {s1} + 1):\n    show(i)\nfor i in range(3, 3, -1):\n    show(99)\nfor i in range(2, 5, -1):\n    show(98)\nn = 0\nfor i in range(10, 4, -2):\n    n += i\nshow(n)\n") });
    // 14. class inheritance: overriding, inherited methods, three levels
    out.push(Feat { name: "class-inheritance",
        incan: format!("class Animal:\n    name: str\n\n    def speak(self) -> str:\n        return \"...\"\n\n    def legs(self) -> int:\n        return {b}\n\nclass Dog extends Animal:\n    tricks: int\n\n    def speak(self) -> str:\n        return \"Woof\"\n\nclass Puppy extends Dog:\n    months: int\n\n    def speak(self) -> str:\n        return \"Yip\"\n\n    def legs(self) -> int:\n        return {c}\n\ndef main() -> None:\n    x = Animal(name=\"g\")\n    d = Dog(name=\"b\", tricks={a})\n    p = Puppy(name=\"p\", tricks=0, months=2)\n    print(x.speak())\n    print(x.legs())\n    print(d.speak())\n    print(d.legs())\n    print(d.tricks)\n    print(p.speak())\n    print(p.legs())\n    print(p.months)\n"),
        python: format!("{PY_PRELUDE}class Animal:\n    def __init__(self, name):\n        self.name = name\n    def speak(self):\n        return '...'\n    def legs(self):\n        return {b}\n\nclass Dog(Animal):\n    def __init__(self, name, tricks):\n        super().__init__(name); self.tricks = tricks\n    def speak(self):\n        return 'Woof'\n\nclass Puppy(Dog):\n    def __init__(self, name, tricks, months):\n        super().__init__(name, tricks); self.months = months\n    def speak(self):\n        return 'Yip'\n    def legs(self):\n        return {c}\n\nx = Animal('g')\nd = Dog('b', {a})\np = Puppy('p', 0, 2)\nshow(x.speak())\nshow(x.legs())\nshow(d.speak())\nshow(d.legs())\nshow(d.tricks)\nshow(p.speak())\nshow(p.legs())\nshow(p.months)\n") });
    // 15. trait default methods and adoption
    out.push(Feat { name: "trait-default",
        incan: format!("trait Shape:\n    def area(self) -> int: ...\n\n    def double_area(self) -> int:\n        return self.area() * 2\n\nclass Sq with Shape:\n    s: int\n\n    def area(self) -> int:\n        return self.s * self.s\n\nclass Rect with Shape:\n    w: int\n    h: int\n\n    def area(self) -> int:\n        return self.w * self.h\n\n    def double_area(self) -> int:\n        return -1\n\ndef main() -> None:\n    q = Sq(s={b})\n    t = Rect(w={b}, h={c})\n    print(q.area())\n    print(q.double_area())\n    print(t.area())\n    print(t.double_area())\n"),
        python: format!("{PY_PRELUDE}class Shape:\n    def double_area(self):\n        return self.area() * 2\n\nclass Sq(Shape):\n    def __init__(self, s):\n        self.s = s\n    def area(self):\n        return self.s * self.s\n\nclass Rect(Shape):\n    def __init__(self, w, h):\n        self.w = w; self.h = h\n    def area(self):\n        return self.w * self.h\n    def double_area(self):\n        return -1\n\nq = Sq({b})\nt = Rect({b}, {c})\nshow(q.area())\nshow(q.double_area())\nshow(t.area())\nshow(t.double_area())\n") });
    // 16. list operations: append, pop, contains, nested lists, sum / min / max, sorted
    out.push(Feat { name: "list-ops",
        incan: format!("def main() -> None:\n    mut xs = [{a}, {b}, {c}]\n    xs.append(7)\n    print(len(xs))\n    print(xs.contains({b}))\n    print(xs.contains(1000))\n    last = xs.pop()\n    print(last)\n    print(len(xs))\n    print(sum(xs))\n    print(min(xs))\n    print(max(xs))\n    ys = sorted(xs)\n    print(ys[0])\n    print(ys[-1])\n    grid = [[1, 2], [3, 4, 5]]\n    print(len(grid[1]))\n    print(grid[1][2] + grid[0][0])\n"),
        python: format!("{PY_PRELUDE}xs = [{a}, {b}, {c}]\nxs.append(7)\nshow(len(xs))\nshow({b} in xs)\nshow(1000 in xs)\nlast = xs.pop()\nshow(last)\nshow(len(xs))\nshow(sum(xs))\nshow(min(xs))\nshow(max(xs))\nys = sorted(xs)\nshow(ys[0])\nshow(ys[-1])\ngrid = [[1, 2], [3, 4, 5]]\nshow(len(grid[1]))\nshow(grid[1][2] + grid[0][0])\n") });
    // 17. list slices with seeded bounds and steps (negative ones included)
    {
        let triples: Vec<(Option<i64>, Option<i64>, Option<i64>)> = (0..6).map(|_| {
            let o = |r: &mut Rng, lo: i64, hi: i64| if r.chance(1, 4) { None } else { Some(r.range(lo, hi)) };
            let step = if r.chance(1, 3) { None } else { Some(*r.pick(&[1i64, 2, 3, -1, -2, -3])) };
            (o(r, -8, 8), o(r, -8, 8), step)
        }).collect();
        let f = |x: Option<i64>| x.map(|v| v.to_string()).unwrap_or_default();
        let mut inc = String::from("def main() -> None:\n    xs = [10, 11, 12, 13, 14, 15, 16]\n");
        let mut py = format!("{PY_PRELUDE}xs = [10, 11, 12, 13, 14, 15, 16]\n");
        for (i, (s0, e0, k0)) in triples.iter().enumerate() {
            let sl = match k0 { Some(k) => format!("{}:{}:{}", f(*s0), f(*e0), k), None => format!("{}:{}", f(*s0), f(*e0)) };
            inc.push_str(&format!("    y{i} = xs[{sl}]\n    print(len(y{i}))\n    for v in y{i}:\n        print(v)\n"));
            py.push_str(&format!("y{i} = xs[{sl}]\nshow(len(y{i}))\nfor v in y{i}:\n    show(v)\n"));
        }
        out.push(Feat { name: "list-slices", incan: inc, python: py });
    }
    // 18. float and mixed arithmetic with operands of both signs, binary and compound forms, observed through
    // comparisons with the value Python's definition gives (integral floats print differently in the two languages)
    {
        let fa = *r.pick(&[-7.5f64, 7.5, -2.25, 5.5, -0.75]);
        let fb = *r.pick(&[2.0f64, -2.0, 0.5, -1.5]);
        let ib = *r.pick(&[2i64, -2, 3, -3]);
        let pymod = |x: f64, y: f64| x - (x / y).floor() * y;
        let pyfd = |x: f64, y: f64| (x / y).floor();
        let inc = format!("def main() -> None:\n    a: float = {fa:?}\n    b: float = {fb:?}\n    k: int = {ib}\n    print(a % b == {m1:?})\n    print(a // b == {d1:?})\n    print(a % k == {m2:?})\n    print(a // k == {d2:?})\n    mut c: float = a\n    c %= b\n    print(c == {m1:?})\n    mut d: float = a\n    d //= k\n    print(d == {d2:?})\n    print(a / b > 0.0)\n",
            m1 = pymod(fa, fb), d1 = pyfd(fa, fb), m2 = pymod(fa, ib as f64), d2 = pyfd(fa, ib as f64));
        let python = format!("{PY_PRELUDE}a = {fa:?}\nb = {fb:?}\nk = {ib}\nshow(a % b == {m1:?})\nshow(a // b == {d1:?})\nshow(a % k == {m2:?})\nshow(a // k == {d2:?})\nc = a\nc %= b\nshow(c == {m1:?})\nd = a\nd //= k\nshow(d == {d2:?})\nshow(a / b > 0.0)\n",
            m1 = pymod(fa, fb), d1 = pyfd(fa, fb), m2 = pymod(fa, ib as f64), d2 = pyfd(fa, ib as f64));
        out.push(Feat { name: "float-arithmetic", incan: inc, python });
    }
    // 19. mutation of loop elements in every branch of an if / elif / else inside the loop
    out.push(Feat { name: "for-element-mutation",
        incan: format!("model P:\n    v: int\n    tag: int\n\ndef main() -> None:\n    mut ps = [P(v={a}, tag=0), P(v={b}, tag=0), P(v={c}, tag=0), P(v=0, tag=0)]\n    for p in ps:\n        if p.v > {b}:\n            print(p.v)\n        elif p.v < 0:\n            p.tag = 2\n        elif p.v == 0:\n            p.v = 100\n        else:\n            p.tag = 3\n    for p in ps:\n        print(p.v)\n        print(p.tag)\n"),
        python: format!("{PY_PRELUDE}class P:\n    def __init__(self, v, tag):\n        self.v = v; self.tag = tag\n\nps = [P({a}, 0), P({b}, 0), P({c}, 0), P(0, 0)]\nfor p in ps:\n    if p.v > {b}:\n        show(p.v)\n    elif p.v < 0:\n        p.tag = 2\n    elif p.v == 0:\n        p.v = 100\n    else:\n        p.tag = 3\nfor p in ps:\n    show(p.v)\n    show(p.tag)\n") });
    // 20. field defaults: a defaulted field declared before a required one, constructor calls that omit them
    out.push(Feat { name: "field-defaults",
        incan: format!("model V:\n    major: int = {b}\n    minor: int\n    label: str = \"rc\"\n\nclass S:\n    n: int = {a}\n    on: bool = True\n\n    def total(self) -> int:\n        return self.n + 1\n\ndef main() -> None:\n    v = V(minor={c})\n    w = V(major=9, minor={c}, label=\"x\")\n    print(v.major)\n    print(v.minor)\n    print(v.label)\n    print(w.major)\n    print(w.label)\n    s = S()\n    print(s.n)\n    print(s.on)\n    print(s.total())\n    t = S(n=5)\n    print(t.n)\n    print(t.on)\n"),
        python: format!("{PY_PRELUDE}class V:\n    def __init__(self, minor, major={b}, label='rc'):\n        self.major = major; self.minor = minor; self.label = label\n\nclass S:\n    def __init__(self, n={a}, on=True):\n        self.n = n; self.on = on\n    def total(self):\n        return self.n + 1\n\nv = V(minor={c})\nw = V(major=9, minor={c}, label='x')\nshow(v.major)\nshow(v.minor)\nshow(v.label)\nshow(w.major)\nshow(w.label)\ns = S()\nshow(s.n)\nshow(s.on)\nshow(s.total())\nt = S(n=5)\nshow(t.n)\nshow(t.on)\n") });
    // 21. the ends of the 64-bit range through `%` and `//` (operands arrive through parameters: nothing is folded)
    out.push(Feat { name: "int-boundary-arithmetic",
        incan: format!("def m(a: int, b: int) -> int:\n    return a % b\n\ndef d(a: int, b: int) -> int:\n    return a // b\n\ndef main() -> None:\n    lo = -9223372036854775807 - 1\n    hi = 9223372036854775807\n    print(m(lo, -1))\n    print(m(lo, 2))\n    print(m(hi, -1))\n    print(d(hi, -1))\n    print(m(lo, hi))\n    print(d(lo, hi))\n    print(m(hi, lo))\n    print(d(hi, lo))\n    print(d(lo, 2))\n    print(m(lo, {b}))\n    print(d(lo, {b}))\n    print(m({a}, {b}))\n"),
        python: format!("{PY_PRELUDE}lo = -9223372036854775807 - 1\nhi = 9223372036854775807\nshow(lo % -1)\nshow(lo % 2)\nshow(hi % -1)\nshow(hi // -1)\nshow(lo % hi)\nshow(lo // hi)\nshow(hi % lo)\nshow(hi // lo)\nshow(lo // 2)\nshow(lo % {b})\nshow(lo // {b})\nshow({a} % {b})\n") });
    // 22. comprehensions whose element is not the loop variable and whose filter looks at the loop variable
    out.push(Feat { name: "comprehension-filter-map",
        incan: format!("def main() -> None:\n    xs = [3, {a}, 4, {b}, -5, {c}]\n    p = [x + 1 for x in range(6) if x % 2 == 0]\n    q = [x * 10 for x in range(1, 8) if x < 4]\n    r = [x - {b} for x in xs if x > 0]\n    s = [x * x for x in range(-3, 4) if x * x > 2]\n    t = [x + 100 for x in xs]\n    print(len(p))\n    for v in p:\n        print(v)\n    print(len(q))\n    for v in q:\n        print(v)\n    print(len(r))\n    for v in r:\n        print(v)\n    print(len(s))\n    for v in s:\n        print(v)\n    print(t[0] + t[-1])\n"),
        python: format!("{PY_PRELUDE}xs = [3, {a}, 4, {b}, -5, {c}]\np = [x + 1 for x in range(6) if x % 2 == 0]\nq = [x * 10 for x in range(1, 8) if x < 4]\nr = [x - {b} for x in xs if x > 0]\ns = [x * x for x in range(-3, 4) if x * x > 2]\nt = [x + 100 for x in xs]\nfor l in (p, q, r, s):\n    show(len(l))\n    for v in l:\n        show(v)\nshow(t[0] + t[-1])\n") });
    // 23. fields handed to functions (strings, lists, through self and through a nested model), the owner used again
    out.push(Feat { name: "field-arguments",
        incan: format!("def shout(s: str) -> str:\n    return s.upper()\n\ndef total(xs: List[int]) -> int:\n    mut t = 0\n    for x in xs:\n        t += x\n    return t\n\nmodel Bag:\n    items: List[int]\n    label: str\n\nclass Pet:\n    owner: str\n    bag: Bag\n\n    def call(self) -> str:\n        return shout(self.owner)\n\n    def weight(self) -> int:\n        return total(self.bag.items)\n\ndef main() -> None:\n    b = Bag(items=[{a}, {b}, {c}], label=\"{w}\")\n    print(total(b.items))\n    print(total(b.items))\n    print(len(b.items))\n    print(shout(b.label))\n    print(b.label)\n    p = Pet(owner=\"ann\", bag=b)\n    print(p.call())\n    print(p.call())\n    print(p.weight())\n    print(p.owner)\n"),
        python: format!("{PY_PRELUDE}items = [{a}, {b}, {c}]\nlabel = \"{w}\"\nshow(sum(items))\nshow(sum(items))\nshow(len(items))\nshow(label.upper())\nshow(label)\nshow('ANN')\nshow('ANN')\nshow(sum(items))\nshow('ann')\n") });
    out
}
