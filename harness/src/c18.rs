//! C18: the real language server driven as a tower Service; notification handler futures are polled
//! by hand in a seeded schedule, the client socket (a bounded channel — the real source of `Pending`)
//! is drained only when the schedule says so.  The server's own receive/store events come from the
//! `incan_verif` hook; what the editor would see comes from `publishDiagnostics` and a final `hover`.
use crate::util::{Out, Rng};
use futures::StreamExt;
use serde_json::json;
use std::future::Future;
use std::pin::Pin;
use std::task::{Context, Poll};
use tower::Service;
use tower_lsp::jsonrpc::{Request, Response};
use tower_lsp::{ClientSocket, LspService};

const BURST: usize = usize::MAX;

type Fut = Pin<Box<dyn Future<Output = Result<Option<Response>, tower_lsp::ExitedError>> + Send>>;

#[derive(Clone, Debug)]
pub enum Note {
    Open { doc: usize, version: i32, kind: char },   // kind: v valid, i valid with an import, b broken
    Change { doc: usize, version: i32, kind: char },
    Close { doc: usize },
    Save { doc: usize },   // didSave: carries no text; the server has nothing to re-analyse
}

fn text_for(version: i32, kind: char) -> String {
    match kind {
        'i' => format!("import dep\n\ndef v{version}() -> int:\n    return {version}\n"),
        'b' => format!("def v{version}( -> int:\n    return {version}\n"),
        // does not even lex (an unterminated string literal)
        'l' => format!("def v{version}() -> int:\n    return \"unterminated {version}\n"),
        _ => format!("def v{version}() -> int:\n    return {version}\n"),
    }
}

fn poll_once<F: Future + ?Sized>(f: &mut Pin<Box<F>>) -> Poll<F::Output> {
    let waker = futures::task::noop_waker();
    let mut cx = Context::from_waker(&waker);
    f.as_mut().poll(&mut cx)
}

fn drain_one(socket: &mut ClientSocket) -> Option<Request> {
    let waker = futures::task::noop_waker();
    let mut cx = Context::from_waker(&waker);
    match socket.poll_next_unpin(&mut cx) {
        Poll::Ready(Some(req)) => Some(req),
        _ => None,
    }
}

struct Run {
    dir: String,
    uris: Vec<String>,
}

impl Run {
    fn uri(&self, doc: usize) -> String {
        self.uris[doc].clone()
    }
}

fn short(uri: &str) -> String {
    uri.rsplit('/').next().unwrap_or(uri).trim_end_matches(".incn").to_string()
}

/// Execute one (history, schedule seed) scenario. Returns (events, publishes, finals, actions).
fn scenario(history: &[Note], rng: &mut Rng, dir: &str, serial: bool, starve: Option<usize>) -> (Vec<String>, Vec<String>, Vec<String>, String) {
    let _ = incan::lsp::verif_hooks::take();
    let run = Run {
        dir: dir.to_string(),
        uris: (0..2).map(|d| format!("file://{dir}/doc{d}.incn")).collect(),
    };
    let _ = &run.dir;
    let (mut service, mut socket) = LspService::new(incan::lsp::IncanLanguageServer::new);
    let mut call = |svc: &mut LspService<incan::lsp::IncanLanguageServer>, req: Request| -> Fut {
        let waker = futures::task::noop_waker();
        let mut cx = Context::from_waker(&waker);
        let _ = svc.poll_ready(&mut cx);
        Box::pin(svc.call(req))
    };
    // initialize / initialized, run to completion
    let mut f = call(&mut service, Request::build("initialize").params(json!({"capabilities": {}})).id(1).finish());
    for _ in 0..100 {
        if poll_once(&mut f).is_ready() {
            break;
        }
        while drain_one(&mut socket).is_some() {}
    }
    let mut f = call(&mut service, Request::build("initialized").params(json!({})).finish());
    for _ in 0..100 {
        if poll_once(&mut f).is_ready() {
            break;
        }
        while drain_one(&mut socket).is_some() {}
    }
    while drain_one(&mut socket).is_some() {}

    let mk = |n: &Note| -> Request {
        match n {
            Note::Open { doc, version, kind } => Request::build("textDocument/didOpen")
                .params(json!({"textDocument": {"uri": run.uri(*doc), "languageId": "incan", "version": version, "text": text_for(*version, *kind)}}))
                .finish(),
            Note::Change { doc, version, kind } => Request::build("textDocument/didChange")
                .params(json!({"textDocument": {"uri": run.uri(*doc), "version": version}, "contentChanges": [{"text": text_for(*version, *kind)}]}))
                .finish(),
            Note::Close { doc } => Request::build("textDocument/didClose").params(json!({"textDocument": {"uri": run.uri(*doc)}})).finish(),
            Note::Save { doc } => Request::build("textDocument/didSave").params(json!({"textDocument": {"uri": run.uri(*doc)}})).finish(),
        }
    };
    let mut futs: Vec<Option<Fut>> = Vec::new();
    let mut started = 0usize;
    let mut pubs: Vec<String> = Vec::new();
    let mut actions = String::new();
    let mut record = |req: Request, pubs: &mut Vec<String>| {
        if req.method() == "textDocument/publishDiagnostics" {
            if let Some(p) = req.params() {
                let uri = p.get("uri").and_then(|u| u.as_str()).unwrap_or("?");
                let ver = p.get("version").and_then(|v| v.as_i64()).map(|v| v.to_string()).unwrap_or("none".into());
                let n = p.get("diagnostics").and_then(|d| d.as_array()).map(|a| a.len()).unwrap_or(0);
                pubs.push(format!("{}:{}:{}", short(uri), ver, n));
            }
        }
    };
    // burst mode: another document is opened first and its diagnostics stay unread in the (bounded) client channel
    let mut prefill: Option<Fut> = None;
    if starve == Some(BURST) {
        let req = Request::build("textDocument/didOpen")
            .params(json!({"textDocument": {"uri": format!("file://{dir}/other.incn"), "languageId": "incan", "version": 1, "text": "def other_fn() -> int:\n    return 0\n"}}))
            .finish();
        let mut f = call(&mut service, req);
        if !poll_once(&mut f).is_ready() {
            prefill = Some(f);
        }
    }
    let mut steps = 0;
    let mut idle_rounds = 0;
    loop {
        let in_flight = futs.iter().filter(|f| f.is_some()).count();
        let all_started = started == history.len();
        if all_started && in_flight == 0 {
            break;
        }
        steps += 1;
        let flush = steps > 300;
        // enabled actions: 0 = start next, 1 = poll some in-flight future, 2 = drain one message
        let mut choices: Vec<u8> = Vec::new();
        if !all_started && (in_flight < 4 || starve == Some(BURST)) && (!serial || in_flight == 0) {
            choices.push(0);
        }
        if in_flight > 0 {
            choices.push(1);
            choices.push(2);
        }
        if serial && in_flight > 0 {
            choices = vec![1, 2];
        }
        let mut c = if flush { [1u8, 2][steps % 2] } else { *rng.pick(&choices) };
        // starve mode: handler `k` is never polled again after its first poll until every other notification has been
        // started and has finished (or is stuck behind it): the schedule in which one analysis is slow
        let mut forced: Option<usize> = None;
        if let (Some(BURST), false) = (starve, flush) {
            // burst: every notification gets its first poll in arrival order while the client reads nothing; then the
            // client catches up and the handlers are polled round robin in arrival order
            if !all_started {
                c = 0;
            } else {
                let live: Vec<usize> = (0..futs.len()).filter(|i| futs[*i].is_some()).collect();
                if steps % 2 == 0 || live.is_empty() { c = 2; } else { c = 1; forced = Some(live[(steps / 2) % live.len()]); }
            }
        } else if let (Some(k), false) = (starve, flush) {
            let others: Vec<usize> = (0..futs.len()).filter(|i| futs[*i].is_some() && *i != k).collect();
            if !others.is_empty() && idle_rounds < 40 {
                idle_rounds += 1;
                if steps % 2 == 0 { c = 2; } else { c = 1; forced = Some(others[(steps / 2) % others.len()]); }
            } else if !all_started {
                c = 0;
                idle_rounds = 0;
            } else {
                // everything has been started and the others are done or wait for `k`: now everybody runs (round robin)
                let live: Vec<usize> = (0..futs.len()).filter(|i| futs[*i].is_some()).collect();
                if steps % 2 == 0 || live.is_empty() { c = 2; } else { c = 1; forced = Some(live[(steps / 2) % live.len()]); }
            }
        }
        match c {
            0 => {
                let req = mk(&history[started]);
                let mut fut = call(&mut service, req);
                actions.push_str(&format!("S{started} "));
                if poll_once(&mut fut).is_ready() {
                    futs.push(None);
                } else {
                    futs.push(Some(fut));
                }
                started += 1;
            }
            1 => {
                let live: Vec<usize> = (0..futs.len()).filter(|i| futs[*i].is_some()).collect();
                if live.is_empty() {
                    continue;
                }
                let i = match forced { Some(f) if live.contains(&f) => f, _ => if flush { live[steps % live.len()] } else { *rng.pick(&live) } };
                actions.push_str(&format!("P{i} "));
                if let Some(f) = futs[i].as_mut() {
                    if poll_once(f).is_ready() {
                        futs[i] = None;
                    }
                }
            }
            _ => {
                if let Some(req) = drain_one(&mut socket) {
                    actions.push_str("D ");
                    record(req, &mut pubs);
                }
            }
        }
        if steps > 5000 {
            actions.push_str("STUCK ");
            break;
        }
    }
    while let Some(req) = drain_one(&mut socket) {
        record(req, &mut pubs);
    }
    if let Some(mut f) = prefill {
        for _ in 0..200 {
            if poll_once(&mut f).is_ready() { break; }
            while drain_one(&mut socket).is_some() {}
        }
    }
    // final hover per document
    let mut finals = Vec::new();
    for d in 0..2 {
        let uses = history.iter().any(|n| match n {
            Note::Open { doc, .. } | Note::Change { doc, .. } | Note::Close { doc } | Note::Save { doc } => *doc == d,
        });
        if !uses {
            continue;
        }
        let mut answer = "none".to_string();
        // the function name sits on line 0 (plain / broken text) or line 2 (text with an import)
        for line in [0u32, 2] {
            let req = Request::build("textDocument/hover")
                .params(json!({"textDocument": {"uri": run.uri(d)}, "position": {"line": line, "character": 5}}))
                .id(100 + line as i64)
                .finish();
            let mut f = call(&mut service, req);
            let mut out = None;
            for _ in 0..200 {
                if let Poll::Ready(r) = poll_once(&mut f) {
                    out = r.ok().flatten();
                    break;
                }
                while drain_one(&mut socket).is_some() {}
            }
            if let Some(resp) = out {
                let txt = serde_json::to_string(&resp).unwrap_or_default();
                if let Some(p) = txt.find("def v") {
                    let num: String = txt[p + 5..].chars().take_while(|c| c.is_ascii_digit()).collect();
                    answer = format!("v{num}");
                    break;
                }
            }
        }
        finals.push(format!("doc{d}={answer}"));
    }
    let events: Vec<String> = incan::lsp::verif_hooks::take()
        .into_iter()
        .map(|e| {
            let mut parts: Vec<String> = e.split(' ').map(|s| s.to_string()).collect();
            for p in parts.iter_mut() {
                if p.starts_with("file://") {
                    *p = short(p);
                }
            }
            parts.join(":")
        })
        // the pre-fill document of the burst schedules is not part of the history
        .filter(|e: &String| !e.split(':').any(|p| p == "other"))
        .collect();
    (events, pubs, finals, actions)
}

/// A dependency that is open in the editor: the importer must be analysed against the editor's text of the
/// dependency, not the file on disk. Sequential; returns the messages of the importer's last published diagnostics.
fn dep_scenario(dir: &str, disk_dep: &str, editor_dep: Option<&str>, importer: &str) -> String {
    let _ = incan::lsp::verif_hooks::take();
    std::fs::write(format!("{dir}/dep.incn"), disk_dep).expect("dep");
    let (mut service, mut socket) = LspService::new(incan::lsp::IncanLanguageServer::new);
    let mut last_main: Option<Vec<String>> = None;
    let main_uri = format!("file://{dir}/main_importer.incn");
    let dep_uri = format!("file://{dir}/dep.incn");
    let mut reqs: Vec<Request> = vec![
        Request::build("initialize").params(json!({"capabilities": {}})).id(1).finish(),
        Request::build("initialized").params(json!({})).finish(),
    ];
    if let Some(t) = editor_dep {
        reqs.push(Request::build("textDocument/didOpen").params(json!({"textDocument": {"uri": dep_uri, "languageId": "incan", "version": 1, "text": t}})).finish());
    }
    reqs.push(Request::build("textDocument/didOpen").params(json!({"textDocument": {"uri": main_uri, "languageId": "incan", "version": 1, "text": importer}})).finish());
    reqs.push(Request::build("textDocument/didChange").params(json!({"textDocument": {"uri": main_uri, "version": 2}, "contentChanges": [{"text": importer}]})).finish());
    for req in reqs {
        let waker = futures::task::noop_waker();
        let mut cx = Context::from_waker(&waker);
        let _ = service.poll_ready(&mut cx);
        let mut f: Fut = Box::pin(service.call(req));
        for _ in 0..2000 {
            let done = poll_once(&mut f).is_ready();
            while let Some(r) = drain_one(&mut socket) {
                if r.method() == "textDocument/publishDiagnostics" {
                    if let Some(p) = r.params() {
                        if p.get("uri").and_then(|u| u.as_str()) == Some(main_uri.as_str()) {
                            let mut msgs: Vec<String> = p.get("diagnostics").and_then(|d| d.as_array()).map(|a| a.iter().filter_map(|x| x.get("message").and_then(|m| m.as_str()).map(|m| m.lines().next().unwrap_or("").replace(' ', "_"))).collect()).unwrap_or_default();
                            msgs.sort();
                            last_main = Some(msgs);
                        }
                    }
                }
            }
            if done { break; }
        }
    }
    let _ = incan::lsp::verif_hooks::take();
    match last_main {
        Some(m) if m.is_empty() => "clean".to_string(),
        Some(m) => m.join("+"),
        None => "nothing-published".to_string(),
    }
}

fn gen_history(rng: &mut Rng) -> Vec<Note> {
    let n = 2 + rng.below(4) as usize;
    let two_docs = rng.chance(1, 4);
    let mut open = [false, false];
    let mut version = 0;
    let mut h = Vec::new();
    for _ in 0..n {
        let doc = if two_docs { rng.below(2) as usize } else { 0 };
        version += 1;
        let kind = *rng.pick(&['v', 'v', 'i', 'i', 'b', 'l']);
        if !open[doc] {
            h.push(Note::Open { doc, version, kind });
            open[doc] = true;
        } else if rng.chance(1, 5) {
            h.push(Note::Close { doc });
            open[doc] = false;
        } else if rng.chance(1, 4) {
            h.push(Note::Save { doc });
        } else {
            h.push(Note::Change { doc, version, kind });
        }
    }
    h
}

/// The history the model replays: opens, changes and closes (a save changes nothing and logs no receive event).
fn enc_history(h: &[Note]) -> String {
    h.iter()
        .filter_map(|n| match n {
            Note::Open { doc, version, kind } => Some(format!("o{doc}.{version}.{kind}")),
            Note::Change { doc, version, kind } => Some(format!("g{doc}.{version}.{kind}")),
            Note::Close { doc } => Some(format!("c{doc}")),
            Note::Save { .. } => None,
        })
        .collect::<Vec<_>>()
        .join(",")
}

/// Where the saves were sent: `<position in the full notification sequence>.<doc>`.
fn enc_saves(h: &[Note]) -> String {
    let v: Vec<String> = h.iter().enumerate().filter_map(|(i, n)| match n { Note::Save { doc } => Some(format!("{i}.{doc}")), _ => None }).collect();
    if v.is_empty() { "-".to_string() } else { v.join(",") }
}

pub fn run(out: &mut Out, tier: &str, seed: u64, scratch: &str) {
    let mut rng = Rng::new(seed);
    let dir = format!("{scratch}/c18ws");
    let _ = std::fs::create_dir_all(&dir);
    std::fs::write(format!("{dir}/dep.incn"), "pub def helper() -> int:\n    return 1\n").expect("dep");
    let mut histories: Vec<Vec<Note>> = vec![
        // the probe from DESIGN.md: a slow old version (with an import) overtaken by a newer one
        vec![Note::Open { doc: 0, version: 1, kind: 'v' }, Note::Change { doc: 0, version: 2, kind: 'i' }, Note::Change { doc: 0, version: 3, kind: 'v' }],
        // a syntax error in the newest version
        vec![Note::Open { doc: 0, version: 1, kind: 'v' }, Note::Change { doc: 0, version: 2, kind: 'b' }],
        // close overtaking a pending analysis
        vec![Note::Open { doc: 0, version: 1, kind: 'i' }, Note::Close { doc: 0 }],
        vec![Note::Open { doc: 0, version: 1, kind: 'i' }, Note::Close { doc: 0 }, Note::Open { doc: 0, version: 2, kind: 'v' }],
        // a text that does not lex as the newest version: it is what the editor shows, the old answers must go
        vec![Note::Open { doc: 0, version: 1, kind: 'v' }, Note::Change { doc: 0, version: 2, kind: 'l' }],
        vec![Note::Open { doc: 0, version: 1, kind: 'i' }, Note::Change { doc: 0, version: 2, kind: 'l' }, Note::Change { doc: 0, version: 3, kind: 'v' }],
        // close and re-open with a text that stores at once (no AST: nothing to wait for) while the first open is
        // still in flight
        vec![Note::Open { doc: 0, version: 1, kind: 'i' }, Note::Close { doc: 0 }, Note::Open { doc: 0, version: 2, kind: 'b' }],
        vec![Note::Open { doc: 0, version: 1, kind: 'i' }, Note::Close { doc: 0 }, Note::Open { doc: 0, version: 2, kind: 'l' }],
        vec![Note::Open { doc: 0, version: 1, kind: 'i' }, Note::Change { doc: 0, version: 2, kind: 'i' }, Note::Close { doc: 0 }, Note::Open { doc: 0, version: 3, kind: 'b' }],
        // a save while a newer version is still being analysed, and a save before a change: neither may bring old text back
        vec![Note::Open { doc: 0, version: 1, kind: 'v' }, Note::Change { doc: 0, version: 2, kind: 'i' }, Note::Save { doc: 0 }],
        vec![Note::Open { doc: 0, version: 1, kind: 'i' }, Note::Save { doc: 0 }, Note::Change { doc: 0, version: 2, kind: 'v' }, Note::Save { doc: 0 }],
    ];
    let n_hist = if tier == "thorough" { 400 } else { 60 };
    for _ in 0..n_hist {
        histories.push(gen_history(&mut rng));
    }
    let per = if tier == "thorough" { 40 } else { 12 };
    let mut total = 0;
    for h in &histories {
        for k in 0..per {
            let serial = k == 0;
            // the first schedules of every history starve one handler each (the first three notifications in turn)
            let starve = if k >= 1 && k <= 3 && k - 1 < h.len() { Some(k - 1) } else if k == 4 { Some(BURST) } else { None };
            let (events, pubs, finals, actions) = scenario(h, &mut rng, &dir, serial, starve);
            total += 1;
            out.case(
                &format!("c18 run {} {} {}", enc_history(h), if events.is_empty() { "-".to_string() } else { events.join(",") }, enc_saves(h)),
                &format!("{} pubs={} actions={}", finals.join(";"), if pubs.is_empty() { "-".into() } else { pubs.join(",") }, actions.trim().replace(' ', "_")),
            );
        }
    }
    // dependencies open in the editor: what is analysed is the editor's text, whatever the file on disk says
    let valid = "pub def helper() -> int:\n    return 1\n";
    let variants = [("broken", "pub def helper( -> int:\n    return 1\n"), ("no-helper", "pub def other() -> int:\n    return 1\n"), ("private-helper", "def helper() -> int:\n    return 1\n"), ("helper-returns-str", "pub def helper() -> str:\n    return \"s\"\n")];
    let importer = "from dep import helper\n\ndef main() -> None:\n    x: int = helper()\n    print(x)\n";
    let on_disk_valid = dep_scenario(&dir, valid, None, importer);
    for (label, text) in variants {
        let on_disk = dep_scenario(&dir, text, None, importer);
        let in_editor = dep_scenario(&dir, valid, Some(text), importer);
        out.case(&format!("c18 dep editor-{label}-over-valid-disk"), &if on_disk == in_editor { format!("same {}", (on_disk != on_disk_valid) as u8) } else { format!("differs disk-only={on_disk} editor={in_editor}") });
        let healed = dep_scenario(&dir, text, Some(valid), importer);
        out.case(&format!("c18 dep editor-valid-over-{label}-disk"), &if healed == on_disk_valid { "same 0".to_string() } else { format!("differs disk-only={on_disk_valid} editor={healed}") });
    }
    std::fs::write(format!("{dir}/dep.incn"), valid).expect("dep");
    let _ = std::fs::remove_dir_all(&dir);
    out.meta(&json!({"histories": histories.len(), "schedules_per_history": per, "scenarios": total}));
}
