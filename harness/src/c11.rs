//! C11: the front end is total and its diagnostics are well-formed.
//! Every input goes through the real lex → parse → check → format → emit-rust pipeline, each stage
//! under catch_unwind, in a child process (so a stack overflow / abort is attributed to one input).
use crate::corpus;
use crate::util::{Out, Rng, catch, enc_str};
use incan_syntax::diagnostics::{CompileError, format_error};
use incan_syntax::lexer::TokenKind;
use std::io::{BufRead, Write};

fn dec_str(s: &str) -> String {
    if s == "-" {
        return String::new();
    }
    s.split(',').filter_map(|t| u32::from_str_radix(t, 16).ok().and_then(char::from_u32)).collect()
}

fn span_ok(src: &str, start: usize, end: usize) -> Result<(), String> {
    if start > end {
        return Err(format!("span start {start} > end {end}"));
    }
    if end > src.len() {
        return Err(format!("span end {end} beyond file length {}", src.len()));
    }
    if !src.is_char_boundary(start) || !src.is_char_boundary(end) {
        return Err(format!("span {start}..{end} not on character boundaries"));
    }
    Ok(())
}

fn check_errors(stage: &str, src: &str, errs: &[CompileError]) -> Result<(), String> {
    if errs.is_empty() {
        return Err(format!("{stage}: failure with an empty diagnostic list"));
    }
    let uri = tower_lsp::lsp_types::Url::parse("file:///t.incn").expect("url");
    let end_pos = incan::lsp::diagnostics::offset_to_position(src, src.len());
    for e in errs {
        span_ok(src, e.span.start, e.span.end).map_err(|m| format!("{stage}: diagnostic `{}`: {m}", e.message))?;
        let rendered = catch(|| format_error("t.incn", src, e)).map_err(|m| format!("{stage}: format_error panicked: {m}"))?;
        if rendered.is_empty() {
            return Err(format!("{stage}: empty terminal rendering"));
        }
        let d = catch(|| incan::lsp::diagnostics::compile_error_to_diagnostic(e, src, &uri))
            .map_err(|m| format!("{stage}: compile_error_to_diagnostic panicked: {m}"))?;
        let (s, t) = (d.range.start, d.range.end);
        if (s.line, s.character) > (t.line, t.character) || (t.line, t.character) > (end_pos.line, end_pos.character) {
            return Err(format!("{stage}: editor range {s:?}..{t:?} outside document end {end_pos:?}"));
        }
    }
    Ok(())
}

/// Spans of the nodes parsed out of f-string interpolations (they are relative to the interpolated text, the recorded
/// finding C03-fstring-nested-diagnostic-location): read off the Debug text of the tree, inside every `FString(…)`.
fn fstring_nested_spans(ast: &incan_syntax::ast::Program) -> std::collections::HashSet<(usize, usize)> {
    let text = format!("{ast:?}");
    let b = text.as_bytes();
    let mut out = std::collections::HashSet::new();
    let mut from = 0;
    while let Some(p) = text[from..].find("FString(") {
        let open = from + p + "FString".len();
        // match the parenthesis, skipping quoted strings
        let (mut i, mut depth, mut in_str) = (open, 0i64, false);
        while i < b.len() {
            let c = b[i];
            if in_str {
                if c == b'\\' { i += 1; } else if c == b'"' { in_str = false; }
            } else if c == b'"' {
                in_str = true;
            } else if c == b'(' {
                depth += 1;
            } else if c == b')' {
                depth -= 1;
                if depth == 0 { break; }
            }
            i += 1;
        }
        let inner = &text[open..i.min(text.len())];
        let mut q = 0;
        while let Some(k) = inner[q..].find("Span { start: ") {
            let rest = &inner[q + k + "Span { start: ".len()..];
            let a: String = rest.chars().take_while(|c| c.is_ascii_digit()).collect();
            if let Some(e) = rest.find("end: ") {
                let bb: String = rest[e + 5..].chars().take_while(|c| c.is_ascii_digit()).collect();
                if let (Ok(x), Ok(y)) = (a.parse(), bb.parse()) { out.insert((x, y)); }
            }
            q += k + 10;
        }
        from = open;
    }
    out
}

/// A diagnostic with an ill-formed span that is one of the f-string interpolation spans gets a tag.
fn tag_fstring(ast: &incan_syntax::ast::Program, errs: &[CompileError], src: &str, m: String) -> String {
    let nested = fstring_nested_spans(ast);
    let bad: Vec<&CompileError> = errs.iter().filter(|e| span_ok(src, e.span.start, e.span.end).is_err()).collect();
    if !bad.is_empty() && bad.iter().all(|e| nested.contains(&(e.span.start, e.span.end))) {
        format!("[in-fstring-interpolation] {m}")
    } else {
        m
    }
}

/// Returns a one-line verdict: `ok <stages reached> <error counts>` or `FAIL <why>`.
pub fn pipeline(src: &str) -> String {
    let mut summary = String::new();
    // 1. lex
    let toks = match catch(|| incan_syntax::lexer::lex(src)) {
        Err(m) => return format!("FAIL lex panicked: {m}"),
        Ok(Err(errs)) => {
            if let Err(m) = check_errors("lex", src, &errs) {
                return format!("FAIL {m}");
            }
            // formatting must also survive (it re-lexes and renders)
            if let Err(m) = catch(|| incan::format_source(src).is_ok()) {
                return format!("FAIL format_source panicked: {m}");
            }
            return format!("ok lexerr={}", errs.len());
        }
        Ok(Ok(t)) => t,
    };
    if !matches!(toks.last().map(|t| &t.kind), Some(TokenKind::Eof)) {
        return "FAIL lex: token stream does not end with EOF".to_string();
    }
    for t in &toks {
        if let Err(m) = span_ok(src, t.span.start, t.span.end) {
            return format!("FAIL lex: token {:?}: {m}", t.kind);
        }
    }
    summary.push_str("lex ");
    // 2. parse
    let ast = match catch(|| incan_syntax::parser::parse(&toks)) {
        Err(m) => return format!("FAIL parse panicked: {m}"),
        Ok(Err(errs)) => {
            if let Err(m) = check_errors("parse", src, &errs) {
                return format!("FAIL {m}");
            }
            if let Err(m) = catch(|| incan::format_source(src).is_ok()) {
                return format!("FAIL format_source panicked: {m}");
            }
            return format!("ok {summary}parseerr={}", errs.len());
        }
        Ok(Ok(a)) => a,
    };
    summary.push_str("parse ");
    // 3. check
    match catch(|| {
        let mut tc = incan::frontend::typechecker::TypeChecker::new();
        tc.check_program(&ast)
    }) {
        Err(m) => return format!("FAIL typecheck panicked: {m}"),
        Ok(Err(errs)) => {
            if let Err(m) = check_errors("check", src, &errs) {
                return format!("FAIL {}", tag_fstring(&ast, &errs, src, m));
            }
            summary.push_str(&format!("checkerr={} ", errs.len()));
        }
        Ok(Ok(())) => summary.push_str("check "),
    }
    // 4. format (and the formatted text must itself go through lex+parse without panicking)
    match catch(|| incan::format_source(src)) {
        Err(m) => return format!("FAIL format_source panicked: {m}"),
        Ok(Ok(text)) => {
            if let Err(m) = catch(|| incan::format_source(&text).is_ok()) {
                return format!("FAIL format_source(formatted) panicked: {m}");
            }
            summary.push_str("fmt ");
        }
        Ok(Err(_)) => summary.push_str("fmterr "),
    }
    // 5. emit rust
    match catch(|| incan::IrCodegen::new().try_generate(&ast)) {
        Err(m) => return format!("FAIL emit-rust panicked: {m}"),
        Ok(Ok(_)) => summary.push_str("emit"),
        Ok(Err(incan::backend::GenerationError::TypeCheck(errs))) => {
            if let Err(m) = check_errors("emit/check", src, &errs) {
                return format!("FAIL {}", tag_fstring(&ast, &errs, src, m));
            }
            summary.push_str("emit:typeerr");
        }
        Ok(Err(e)) => {
            let msg = e.to_string();
            if msg.trim().is_empty() {
                return "FAIL emit-rust: empty error".to_string();
            }
            summary.push_str("emit:err");
        }
    }
    format!("ok {summary}")
}

/// Child mode: one hex-encoded input per line in, one verdict per line out (flushed).
pub fn child(infile: &str, outfile: &str) {
    let f = std::io::BufReader::new(std::fs::File::open(infile).expect("open in"));
    let mut out = std::fs::File::create(outfile).expect("create out");
    for line in f.lines() {
        let line = line.expect("read");
        let src = dec_str(line.trim());
        let v = pipeline(&src).replace('\n', "\\n");
        writeln!(out, "{v}").expect("write");
        out.flush().expect("flush");
    }
}

fn mutate(src: &str, rng: &mut Rng) -> String {
    let chars: Vec<char> = src.chars().collect();
    if chars.is_empty() {
        return "(".to_string();
    }
    let mut c = chars.clone();
    let n = c.len();
    match rng.below(12) {
        0 => c.truncate(rng.below(n as u64) as usize),
        1 => {
            let i = rng.below(n as u64) as usize;
            c.remove(i);
        }
        2 => {
            let i = rng.below(n as u64) as usize;
            let ins = *rng.pick(&['(', ')', '[', ']', '{', '}', ':', '"', '\'', '\n', '\t', ' ', '#', 'é', '😀', '\\', '.', ',', '=', '\r', '\u{0}', 'f', 'b']);
            c.insert(i, ins);
        }
        3 => {
            let (i, j) = (rng.below(n as u64) as usize, rng.below(n as u64) as usize);
            c.swap(i, j);
        }
        4 => {
            // duplicate a slice
            let i = rng.below(n as u64) as usize;
            let len = (rng.below(12) as usize).min(n - i);
            let seg: Vec<char> = c[i..i + len].to_vec();
            for (k, ch) in seg.into_iter().enumerate() {
                c.insert(i + k, ch);
            }
        }
        5 => {
            // break indentation of one line
            let s: String = c.iter().collect();
            let mut lines: Vec<String> = s.split('\n').map(|l| l.to_string()).collect();
            let li = rng.below(lines.len() as u64) as usize;
            lines[li] = match rng.below(3) {
                0 => format!(" {}", lines[li]),
                1 => lines[li].trim_start().to_string(),
                _ => format!("\t{}", lines[li]),
            };
            return lines.join("\n");
        }
        6 => {
            // delete a line
            let s: String = c.iter().collect();
            let mut lines: Vec<&str> = s.split('\n').collect();
            let li = rng.below(lines.len() as u64) as usize;
            lines.remove(li);
            return lines.join("\n");
        }
        7 => {
            // replace an ASCII letter with a multi-byte character
            let i = rng.below(n as u64) as usize;
            c[i] = *rng.pick(&['é', '€', '😀', 'ß', '\u{200b}']);
        }
        8 => {
            // drop the second half of a random bracket pair
            if let Some(p) = c.iter().rposition(|ch| *ch == ')' || *ch == ']' || *ch == '}') {
                c.remove(p);
            }
        }
        9 => {
            // unterminate a string
            if let Some(p) = c.iter().rposition(|ch| *ch == '"') {
                c.remove(p);
            }
        }
        10 => {
            let i = rng.below(n as u64) as usize;
            let kw = *rng.pick(&["def ", "class ", "model ", "match ", "case ", "if ", "else:", "elif ", "for ", "in ", "return ", "await ", "async ", "import ", "from ", "trait ", "enum ", "newtype ", "const ", "pub ", "with ", "=>", "->", "::", "..", "...", "?", "@"]);
            for (k, ch) in kw.chars().enumerate() {
                c.insert(i + k, ch);
            }
        }
        _ => {
            let i = rng.below(n as u64) as usize;
            c.truncate(i);
            c.push(*rng.pick(&['"', '\'', '(', '\\', 'f', '{']));
        }
    }
    c.into_iter().collect()
}

fn nesting_inputs(max: usize) -> Vec<String> {
    let mut v = Vec::new();
    for n in [1usize, 8, 32, 64, 128, max] {
        let n = n.min(max);
        v.push(format!("def f() -> int:\n    return {}1{}\n", "(".repeat(n), ")".repeat(n)));
        v.push(format!("def f() -> None:\n    x = {}1{}\n", "[".repeat(n), "]".repeat(n)));
        v.push(format!("def f() -> None:\n    x = {}\n", "(".repeat(n)));
        v.push(format!("def f() -> None:\n    x = {}1\n", "-".repeat(n)));
        v.push(format!("def f() -> None:\n    x = {}True\n", "not ".repeat(n)));
        v.push(format!("def f(x: {}int{}) -> None:\n    pass\n", "List[".repeat(n), "]".repeat(n)));
        let mut blocks = String::from("def f(a: int) -> None:\n");
        for d in 0..n {
            blocks.push_str(&format!("{}if a > {d}:\n", "    ".repeat(d + 1)));
        }
        blocks.push_str(&format!("{}pass\n", "    ".repeat(n + 1)));
        v.push(blocks);
        v.push(format!("def f() -> None:\n    x = {}\n", vec!["1"; n.max(1)].join(" + ")));
        v.push(format!("def f() -> None:\n    x = f\"{}{}\"\n", "{".repeat(n), "}".repeat(n)));
        v.push(format!("def f() -> None:\n    x = {}1{}\n", "{1: ".repeat(n.min(60)), "}".repeat(n.min(60))));
    }
    v
}

/// Terminal rendering against the model: line, column, spaces before the caret, number of carets.
fn render_cases(out: &mut Out, max_len: usize) {
    use incan_syntax::ast::Span;
    let alpha = ['a', 'é', '😀', '\n'];
    let mut stack: Vec<String> = vec![String::new()];
    while let Some(doc) = stack.pop() {
        let n = doc.len();
        for s in 0..=n + 1 {
            for e in 0..=n + 2 {
                let err = CompileError::new("m".to_string(), Span::new(s, e));
                let real = match catch(|| format_error("F", &doc, &err)) {
                    Err(m) => format!("panic {m}"),
                    Ok(txt) => {
                        let plain: String = {
                            let mut o = String::new();
                            let mut it = txt.chars();
                            while let Some(c) = it.next() {
                                if c == '\x1b' {
                                    for d in it.by_ref() {
                                        if d == 'm' {
                                            break;
                                        }
                                    }
                                } else {
                                    o.push(c);
                                }
                            }
                            o
                        };
                        // "  --> F:line:col\n"  ...  last line "  <pad> | <spaces><carets>\n"
                        let loc = plain.split("  --> F:").nth(1).and_then(|r| r.split('\n').next()).unwrap_or("?:?").to_string();
                        let last = plain.trim_end_matches('\n').rsplit('\n').next().unwrap_or("").to_string();
                        let after_bar = last.splitn(2, "| ").nth(1).unwrap_or("");
                        let spaces = after_bar.chars().take_while(|c| *c == ' ').count();
                        let carets = after_bar.chars().filter(|c| *c == '^').count();
                        format!("{} {spaces} {carets}", loc.replace(':', " "))
                    }
                };
                out.case(&format!("c11 render {} {s} {e}", enc_str(&doc)), &real);
            }
        }
        if doc.chars().count() < max_len {
            for c in alpha {
                let mut d = doc.clone();
                d.push(c);
                stack.push(d);
            }
        }
    }
}

/// Terminal rendering of long lines (the model has no width limit, so neither may the code).
fn render_long(out: &mut Out) {
    use incan_syntax::ast::Span;
    for width in [78usize, 100, 118, 119, 120, 121, 130, 250] {
        for ch in ['é', '😀'] {
            for shift in 0..4usize {
                let doc = format!("{}{ch}{ch}{ch}zz\nnext", "a".repeat(width - shift));
                for (s, e) in [(0usize, 1usize), (width - 2, width + 3), (doc.len() - 5, doc.len())] {
                    let err = CompileError::new("m".to_string(), Span::new(s, e));
                    let real = match catch(|| format_error("F", &doc, &err)) {
                        Err(m) => format!("panic {m}"),
                        Ok(txt) => {
                            let plain: String = txt
                                .split('\x1b')
                                .enumerate()
                                .map(|(i, p)| if i == 0 { p.to_string() } else { p.splitn(2, 'm').nth(1).unwrap_or("").to_string() })
                                .collect();
                            let loc = plain.split("  --> F:").nth(1).and_then(|r| r.split('\n').next()).unwrap_or("?:?").to_string();
                            let last = plain.trim_end_matches('\n').rsplit('\n').next().unwrap_or("").to_string();
                            let after_bar = last.splitn(2, "| ").nth(1).unwrap_or("");
                            let spaces = after_bar.chars().take_while(|c| *c == ' ').count();
                            let carets = after_bar.chars().filter(|c| *c == '^').count();
                            let shown = plain.split('\n').nth(3).and_then(|l| l.splitn(2, "| ").nth(1)).unwrap_or("").to_string();
                            format!("{} {spaces} {carets} {}", loc.replace(':', " "), enc_str(&shown))
                        }
                    };
                    out.case(&format!("c11 renderline {} {s} {e}", enc_str(&doc)), &real);
                }
            }
        }
    }
}

/// Parseable programs with odd declaration graphs: `extends` edges in any direction (cycles, self loops, unknown
/// bases), traits adopted anywhere or nowhere, and every kind of use that walks the graph (trait-typed parameter,
/// inherited method / field, annotation with a base type, construction).
fn graph_programs(rng: &mut Rng, n: usize) -> Vec<String> {
    let mut v = Vec::new();
    for _ in 0..n {
        let k = 2 + rng.below(3) as usize; // classes
        let nt = 1 + rng.below(2) as usize; // traits
        let mut s = String::new();
        for t in 0..nt {
            if rng.chance(1, 3) {
                s.push_str(&format!("trait T{t}:\n    def m{t}(self) -> int:\n        return 1\n\n"));
            } else {
                s.push_str(&format!("trait T{t}:\n    def m{t}(self) -> int: ...\n\n"));
            }
        }
        let kind = *rng.pick(&["class", "class", "model"]);
        for c in 0..k {
            let base = match rng.below(5) {
                0 => String::new(),
                1 => format!(" extends C{c}"),
                2 => " extends Missing".to_string(),
                _ => format!(" extends C{}", rng.below(k as u64)),
            };
            let with = if rng.chance(1, 3) { format!(" with T{}", rng.below(nt as u64)) } else { String::new() };
            s.push_str(&format!("{kind} C{c}{base}{with}:\n    f{c}: int\n\n    def g{c}(self) -> int:\n        return self.f{c}\n\n"));
            if !with.is_empty() && rng.chance(1, 2) {
                let t = with.trim_start_matches(" with T");
                s.push_str(&format!("    def m{t}(self) -> int:\n        return 2\n\n"));
            }
        }
        for t in 0..nt {
            s.push_str(&format!("def use{t}(v: T{t}) -> int:\n    return v.m{t}()\n\n"));
        }
        s.push_str("def main() -> None:\n");
        for c in 0..k {
            let args = (0..k).filter(|_| rng.chance(2, 3)).map(|i| format!("f{i}=1")).collect::<Vec<_>>().join(", ");
            s.push_str(&format!("    c{c} = C{c}({args})\n"));
            match rng.below(6) {
                0 => s.push_str(&format!("    print(use{}(c{c}))\n", rng.below(nt as u64))),
                1 => s.push_str(&format!("    print(c{c}.g{}())\n", rng.below(k as u64))),
                2 => s.push_str(&format!("    print(c{c}.f{})\n", rng.below(k as u64))),
                3 => s.push_str(&format!("    b{c}: C{} = c{c}\n", rng.below(k as u64))),
                4 => s.push_str(&format!("    print(c{c}.m{}())\n", rng.below(nt as u64))),
                _ => s.push_str(&format!("    print(c{c} == c{c})\n")),
            }
        }
        v.push(s);
    }
    v
}

pub fn render_only(out: &mut Out, tier: &str) {
    render_cases(out, if tier == "thorough" { 4 } else { 3 });
    render_long(out);
}

pub fn run(out: &mut Out, tier: &str, seed: u64, scratch: &str) {
    let mut rng = Rng::new(seed);
    let thorough = tier == "thorough";
    render_cases(out, if thorough { 4 } else { 3 });
    render_long(out);
    let files = corpus::files();
    let mut inputs: Vec<(String, String)> = Vec::new(); // (origin, source)
    // minimised past failures run first
    inputs.push(("regress:python-import-not-an-identifier".into(), "import python \"rfrom equests\" as pyreq\n\ndef main() -> None:\n    pass\n".into()));
    inputs.push(("regress:float-literal-overflows-to-infinity".into(), "def main() -> None:\n    x = 0.5e980\n    y = -1e999\n    match x:\n        1e999 => pass\n        _ => pass\n".into()));
    inputs.push(("regress:generic-type-nesting".into(), format!("def f(x: {}int{}) -> None:\n    pass\n", "List[".repeat(40), "]".repeat(40))));
    let odd = [
        ("self-newtype", "type A = newtype A\n\ndef main() -> None:\n    a = A(1)\n"),
        ("newtype-cycle", "type A = newtype B\ntype B = newtype A\n\ndef f(a: A) -> B:\n    return a\n"),
        ("model-of-itself", "model M:\n    m: M\n\ndef main() -> None:\n    x = M(m=M(m=1))\n    print(x.m.m.m)\n"),
        ("enum-of-itself", "enum E:\n    Leaf\n    Node(E, E)\n\ndef d(e: E) -> int:\n    match e:\n        E.Leaf => 0\n        E.Node(l, r) => d(l) + d(r)\n"),
        ("trait-requires-cycle", "@requires(a: int)\ntrait T:\n    def m(self) -> int:\n        return self.a\n\nclass K extends K with T:\n    b: int\n\ndef u(t: T) -> int:\n    return t.m()\n\ndef main() -> None:\n    print(u(K(b=1)))\n"),
        ("three-cycle-trait-arg", "trait G:\n    def g(self) -> str: ...\n\nclass A extends B:\n    x: int\n\nclass B extends C:\n    y: int\n\nclass C extends A:\n    z: int\n\ndef w(g: G) -> str:\n    return g.g()\n\ndef main() -> None:\n    print(w(A(x=1)))\n    print(w(C(z=1)))\n"),
        ("recursive-function-type", "def f(g: (int) -> int) -> int:\n    return f(f)\n"),
        ("derive-cycle", "@derive(Eq, Ord, Hash)\nmodel P extends P:\n    a: int\n\ndef main() -> None:\n    print(P(a=1) < P(a=2))\n"),
    ];
    // the recorded finding: an error in an expression interpolated in an f-string is located relative to the
    // interpolated text, here in the middle of a character of line 1
    inputs.push(("known:fstring-nested-span".into(), "# \u{e9}\u{e9}\u{e9}\u{e9}\u{e9}\u{e9}\u{e9}\u{e9}\u{e9}\ndef main() -> None:\n    print(f\"{1 + zzz}\")\n".into()));
    // calls of the built-in collection / string methods and functions with every small argument count, and tuple
    // unpacking with more or fewer names than elements: arity is the user's to get wrong, never the compiler's to index by
    {
        let methods = ["get", "insert", "remove", "append", "pop", "swap", "contains", "upper", "lower", "strip", "split", "replace", "join",
            "keys", "values", "count", "index", "startswith", "endswith", "reserve", "extend", "items", "add", "find", "format", "len"];
        let receivers = [("s", "s: str = \"a-b\""), ("xs", "xs: List[int] = [1, 2]"), ("d", "d: Dict[str, int] = {\"a\": 1}"), ("st", "st: Set[int] = {1, 2}")];
        let argsets = ["", "\"-\"", "1", "\"-\", \"+\"", "0, 1", "\"a\", 1, 2", "1, 2, 3, 4"];
        let mut k = 0;
        for m in methods {
            for (r, decl) in receivers {
                for a in argsets {
                    inputs.push((format!("arity:{k}"), format!("def main() -> None:\n    mut {decl}\n    v = {r}.{m}({a})\n    print(v)\n")));
                    k += 1;
                }
            }
        }
        for f in ["len", "range", "print", "str", "int", "float", "abs", "min", "max", "sum", "sorted", "enumerate", "zip", "json_stringify", "sleep"] {
            for a in argsets {
                inputs.push((format!("arity-fn:{k}"), format!("def main() -> None:\n    v = {f}({a})\n    print(v)\n")));
                k += 1;
            }
        }
        // constructor patterns with every small number of sub-patterns, on scrutinees whose type has fewer or more
        // type arguments than the constructor expects (`Result[int]`, `Option[int, str]`, a plain int)
        for scrut in ["r: Result[int, str]", "r: Result[int]", "r: Option[int]", "r: Option[int, str]", "r: int", "r: Result"] {
            for ctor in ["Ok", "Err", "Some", "None"] {
                for subs in ["", "(a)", "(a, b)", "(a, b, c)", "(_)", "(Some(a))", "(1)"] {
                    if ctor == "None" && subs.is_empty() || !subs.is_empty() || ctor != "None" {
                        inputs.push((format!("pattern-arity:{k}"), format!("def f({scrut}) -> int:\n    match r:\n        {ctor}{subs} => return 1\n        _ => return 0\n")));
                        k += 1;
                    }
                }
            }
        }
        for names in 1..=4usize {
            for elems in 0..=4usize {
                let lhs = (0..names).map(|i| format!("n{i}")).collect::<Vec<_>>().join(", ");
                let tup = format!("({})", (0..elems).map(|i| i.to_string()).collect::<Vec<_>>().join(", "));
                let ret = if elems == 0 { "None".to_string() } else { format!("({})", vec!["int"; elems].join(", ")) };
                inputs.push((format!("unpack:{names}:{elems}"), format!("def pair() -> {ret}:\n    return {tup}\n\ndef main() -> None:\n    {lhs} = pair()\n    print(n0)\n")));
                inputs.push((format!("unpack-lit:{names}:{elems}"), format!("def main() -> None:\n    {lhs} = {tup}\n    print(n0)\n")));
            }
        }
    }
    for (n, src) in odd {
        inputs.push((format!("odd:{n}"), src.to_string()));
    }
    for (i, src) in graph_programs(&mut rng, if thorough { 1500 } else { 150 }).into_iter().enumerate() {
        inputs.push((format!("graph:{i}"), src));
    }
    for (name, src) in &files {
        inputs.push((format!("file:{name}"), src.clone()));
        // truncations at character boundaries
        let bounds: Vec<usize> = src.char_indices().map(|(i, _)| i).collect();
        let k = if thorough { 60 } else { 12 };
        for _ in 0..k {
            if bounds.is_empty() {
                break;
            }
            let b = *rng.pick(&bounds);
            inputs.push((format!("trunc:{name}:{b}"), src[..b].to_string()));
        }
        let m = if thorough { 60 } else { 12 };
        for j in 0..m {
            let mut s = mutate(src, &mut rng);
            if rng.chance(1, 3) {
                s = mutate(&s, &mut rng);
            }
            inputs.push((format!("mut:{name}:{j}"), s));
        }
    }
    // short files: truncate at every boundary (exhaustive)
    for (name, src) in files.iter().filter(|(_, s)| s.len() < if thorough { 1500 } else { 500 }) {
        for (i, _) in src.char_indices() {
            inputs.push((format!("trunc-all:{name}:{i}"), src[..i].to_string()));
        }
    }
    // every literal opener / escape introducer followed by multi-byte characters and truncated at each point
    let openers = ["\"", "'", "b\"", "b'", "f\"", "f'", "\"\"\"", "'''"];
    let escapes = ["\\", "\\x", "\\x4", "\\n", "\\u", "{", "{{", "}", "\\\\", "\\0"];
    let tails = ["é", "€", "😀", "é\"", "€'", "😀\"\"\"", "4é\"", "\n", ""];
    let mut k = 0;
    for o in openers {
        for e in escapes {
            for t in tails {
                inputs.push((format!("lit:{k}"), format!("x = {o}{e}{t}")));
                inputs.push((format!("lit-fn:{k}"), format!("def f() -> None:\n    x = {o}ab{e}{t}\n    return\n")));
                k += 1;
            }
        }
    }
    // long lines with multi-byte characters sliding across every byte offset around typical clip widths
    for width in [60usize, 78, 79, 80, 99, 100, 118, 119, 120, 121, 127, 128, 200, 255, 256] {
        for ch in ['é', '€', '😀'] {
            for shift in 0..4usize {
                let pad = "a".repeat(width.saturating_sub(shift + 8));
                inputs.push((format!("long:{width}:{shift}"), format!("x = \"{pad}{ch}{ch}{ch}\" $ {ch}\n")));
                inputs.push((format!("long-err:{width}:{shift}"), format!("def f() -> int:\n    return \"{pad}{ch}{ch}\" + undefined_name_{ch}\n")));
            }
        }
    }
    for (i, s) in nesting_inputs(200).into_iter().enumerate() {
        inputs.push((format!("nest:{i}"), s));
    }
    let alphabet: Vec<char> = "abc xyz_019 \n\n\t()[]{}:,.=+-*/%<>!?@#\"'\\fb\r€é😀".chars().collect();
    let n_rand = if thorough { 20_000 } else { 3_000 };
    for i in 0..n_rand {
        let len = rng.below(40) as usize;
        let s: String = (0..len).map(|_| *rng.pick(&alphabet)).collect();
        inputs.push((format!("rand:{i}"), s));
    }
    // run in child processes
    let exe = std::env::current_exe().expect("exe");
    let mut idx = 0usize;
    let mut verdicts: Vec<String> = vec![String::new(); inputs.len()];
    let mut crashes = 0;
    while idx < inputs.len() {
        let infile = format!("{scratch}/c11-in-{idx}.txt");
        let outfile = format!("{scratch}/c11-out-{idx}.txt");
        {
            let mut f = std::io::BufWriter::new(std::fs::File::create(&infile).expect("in"));
            for (_, s) in &inputs[idx..] {
                writeln!(f, "{}", enc_str(s)).expect("w");
            }
        }
        let mut childp = std::process::Command::new(&exe)
            .args(["c11child", "x", "0", &outfile, &infile])
            .spawn()
            .expect("spawn child");
        // watchdog: an input that makes no progress for STALL seconds is a non-termination finding
        const STALL: u64 = 20;
        let mut last_len = 0u64;
        let mut last_change = std::time::Instant::now();
        let mut timed_out = false;
        let status = loop {
            if let Some(st) = childp.try_wait().expect("wait") {
                break st;
            }
            let len = std::fs::metadata(&outfile).map(|m| m.len()).unwrap_or(0);
            if len != last_len {
                last_len = len;
                last_change = std::time::Instant::now();
            } else if last_change.elapsed().as_secs() >= STALL {
                let _ = childp.kill();
                timed_out = true;
                break childp.wait().expect("wait");
            }
            std::thread::sleep(std::time::Duration::from_millis(20));
        };
        let got: Vec<String> = std::fs::read_to_string(&outfile).unwrap_or_default().lines().map(|l| l.to_string()).collect();
        for (k, v) in got.iter().enumerate() {
            if idx + k < verdicts.len() {
                verdicts[idx + k] = v.clone();
            }
        }
        let done = got.len();
        let _ = std::fs::remove_file(&infile);
        let _ = std::fs::remove_file(&outfile);
        if status.success() && idx + done >= inputs.len() {
            break;
        }
        // the child died on input idx+done
        if idx + done < inputs.len() {
            verdicts[idx + done] = if timed_out {
                format!("FAIL no result within {STALL} s (front end does not terminate in practical time)")
            } else {
                format!("FAIL process aborted ({status}) — stack overflow or abort")
            };
            crashes += 1;
        }
        idx += done + 1;
        if crashes > 50 {
            break;
        }
    }
    for ((origin, src), v) in inputs.iter().zip(verdicts.iter()) {
        let dump = if v.starts_with("FAIL") { enc_str(&src.chars().take(4000).collect::<String>()) } else { "-".to_string() };
        out.case(&format!("c11 pipe {} {} {dump}", origin.replace(' ', "_"), src.len()), v);
    }
    out.meta(&serde_json::json!({"inputs": inputs.len(), "corpus_files": files.len(), "child_crashes": crashes}));
}
