//! C19: real offset/position conversions on exhaustive small documents and random long ones.
use crate::util::{Out, Rng, catch, enc_str};
use incan::lsp::diagnostics::{offset_to_position, position_to_offset, span_to_range};
use incan_syntax::ast::Span;
use incan_syntax::diagnostics::{CompileError, format_error};
use tower_lsp::lsp_types::Position;

const ALPHA: [char; 7] = ['a', 'é', '€', '😀', '\n', '\r', '\t'];

fn strip_ansi(s: &str) -> String {
    let mut out = String::new();
    let mut it = s.chars().peekable();
    while let Some(c) = it.next() {
        if c == '\x1b' {
            for d in it.by_ref() {
                if d == 'm' {
                    break;
                }
            }
        } else {
            out.push(c);
        }
    }
    out
}

/// Recover (line, col, line_text) from the rendered terminal diagnostic.
fn line_info_via_format_error(doc: &str, off: usize) -> Result<String, String> {
    let err = CompileError::new("m".to_string(), Span::new(off, off));
    let txt = catch(|| format_error("F", doc, &err))?;
    let plain = strip_ansi(&txt);
    // second line: "  --> F:line:col"; fourth line: "  <n> | <text>" (the text may itself be empty, or
    // contain '\r'; it never contains '\n')
    let rest = plain.split_once("  --> F:").ok_or("no location line")?.1;
    let (loc, after) = rest.split_once('\n').ok_or("no newline after location")?;
    let (line, col) = loc.split_once(':').ok_or("bad loc")?;
    let after = after.split_once('\n').ok_or("no gutter line")?.1; // skip "   |"
    let prefix = format!("  {line} | ");
    let body = after.strip_prefix(&prefix).ok_or("no source line")?;
    // the source line ends at the newline that precedes the caret line "  <spaces> | "
    let caret_marker = format!("\n  {} | ", " ".repeat(line.len()));
    let text = body.split_once(&caret_marker).ok_or("no caret line")?.0;
    Ok(format!("{line} {col} {}", enc_str(text)))
}

fn doc_requests(out: &mut Out, doc: &str, rng: &mut Rng, span_budget: usize) {
    let d = enc_str(doc);
    let n = doc.len();
    for off in 0..=n + 2 {
        let p = offset_to_position(doc, off);
        out.case(&format!("c19 o2p {d} {off}"), &format!("{} {}", p.line, p.character));
        let back = position_to_offset(doc, p);
        out.case(
            &format!("c19 rt {d} {off}"),
            &match back {
                Some(o) => format!("some {o}"),
                None => "none".to_string(),
            },
        );
        out.case(
            &format!("c19 gli {d} {off}"),
            &match line_info_via_format_error(doc, off) {
                Ok(s) => s,
                Err(e) => format!("panic {e}"),
            },
        );
    }
    let lines = doc.matches('\n').count() as u32;
    for line in 0..=lines + 1 {
        for ch in 0..=(doc.chars().count() as u32 + 1).min(7) {
            let r = position_to_offset(doc, Position::new(line, ch));
            out.case(
                &format!("c19 p2o {d} {line} {ch}"),
                &match r {
                    Some(o) => format!("some {o}"),
                    None => "none".to_string(),
                },
            );
        }
    }
    let mut spans: Vec<(usize, usize)> = Vec::new();
    if (n + 3) * (n + 3) <= span_budget {
        for s in 0..=n + 2 {
            for e in 0..=n + 2 {
                spans.push((s, e));
            }
        }
    } else {
        for _ in 0..span_budget {
            spans.push((rng.below(n as u64 + 3) as usize, rng.below(n as u64 + 3) as usize));
        }
    }
    spans.push((n, usize::MAX / 4));
    for (s, e) in spans {
        let r = span_to_range(doc, s, e);
        out.case(
            &format!("c19 range {d} {s} {e}"),
            &format!("{} {} {} {}", r.start.line, r.start.character, r.end.line, r.end.character),
        );
    }
}

pub fn run(out: &mut Out, tier: &str, seed: u64) {
    let mut rng = Rng::new(seed);
    let max_len = if tier == "thorough" { 5 } else { 4 };
    let mut docs = 0u64;
    // exhaustive: every document over ALPHA up to max_len characters
    let mut stack: Vec<String> = vec![String::new()];
    while let Some(doc) = stack.pop() {
        doc_requests(out, &doc, &mut rng, 64);
        docs += 1;
        if doc.chars().count() < max_len {
            for c in ALPHA {
                let mut d = doc.clone();
                d.push(c);
                stack.push(d);
            }
        }
    }
    // random longer documents (line structure biased)
    let n_rand = if tier == "thorough" { 3000 } else { 300 };
    for _ in 0..n_rand {
        let len = rng.range(5, 60) as usize;
        let mut doc = String::new();
        for _ in 0..len {
            let c = match rng.below(10) {
                0 | 1 => '\n',
                2 => '\r',
                3 => 'é',
                4 => '€',
                5 => '😀',
                6 => ' ',
                7 => '\t',
                _ => (b'a' + rng.below(26) as u8) as char,
            };
            doc.push(c);
        }
        doc_requests(out, &doc, &mut rng, 40);
        docs += 1;
    }
    out.meta(&serde_json::json!({"documents": docs, "exhaustive_max_chars": max_len, "alphabet": ALPHA.iter().map(|c| *c as u32).collect::<Vec<_>>(), "random_documents": n_rand}));
}
