//! C04: call the real arithmetic kernels/wrappers on grids and seeded random operand pairs.
use crate::util::{Out, Rng, catch};
use incan_stdlib::num as n;

fn show_i(r: Result<i64, String>) -> String {
    match r {
        Ok(v) => format!("ok {v}"),
        Err(m) => format!("panic {m}"),
    }
}
fn fbits(f: f64) -> String {
    if f.is_nan() { "nan".to_string() } else { format!("{:x}", f.to_bits()) }
}

#[derive(Clone, Copy)]
pub enum Num {
    I(i64),
    F(f64),
}
impl Num {
    fn enc(self) -> String {
        match self {
            Num::I(i) => format!("i:{i}"),
            Num::F(f) => format!("f:{:x}", f.to_bits()),
        }
    }
}
fn show_num(r: Result<Num, String>) -> String {
    match r {
        Ok(Num::I(v)) => format!("ok i {v}"),
        Ok(Num::F(f)) => format!("ok f {}", fbits(f)),
        Err(m) => format!("panic {m}"),
    }
}

fn int_ops(out: &mut Out, a: i64, b: i64) {
    out.case(&format!("c04 modcore {a} {b}"), &show_i(catch(|| incan_core::py_mod_i64_impl(a, b))));
    out.case(&format!("c04 fdivcore {a} {b}"), &show_i(catch(|| incan_core::py_floor_div_i64_impl(a, b))));
    out.case(&format!("c04 pymod_i64 {a} {b}"), &show_i(catch(|| n::py_mod_i64(a, b))));
    out.case(&format!("c04 pyfloordiv_i64 {a} {b}"), &show_i(catch(|| n::py_floor_div_i64(a, b))));
}

fn generic_ops(out: &mut Out, l: Num, r: Num) {
    let (le, re) = (l.enc(), r.enc());
    let div = catch(|| match (l, r) {
        (Num::I(a), Num::I(b)) => n::py_div(a, b),
        (Num::I(a), Num::F(b)) => n::py_div(a, b),
        (Num::F(a), Num::I(b)) => n::py_div(a, b),
        (Num::F(a), Num::F(b)) => n::py_div(a, b),
    })
    .map(Num::F);
    out.case(&format!("c04 pydiv {le} {re}"), &show_num(div));
    let m = catch(|| match (l, r) {
        (Num::I(a), Num::I(b)) => Num::I(n::py_mod(a, b)),
        (Num::I(a), Num::F(b)) => Num::F(n::py_mod(a, b)),
        (Num::F(a), Num::I(b)) => Num::F(n::py_mod(a, b)),
        (Num::F(a), Num::F(b)) => Num::F(n::py_mod(a, b)),
    });
    out.case(&format!("c04 pymod {le} {re}"), &show_num(m));
    let fd = catch(|| match (l, r) {
        (Num::I(a), Num::I(b)) => Num::I(n::py_floor_div(a, b)),
        (Num::I(a), Num::F(b)) => Num::F(n::py_floor_div(a, b)),
        (Num::F(a), Num::I(b)) => Num::F(n::py_floor_div(a, b)),
        (Num::F(a), Num::F(b)) => Num::F(n::py_floor_div(a, b)),
    });
    out.case(&format!("c04 pyfloordiv {le} {re}"), &show_num(fd));
    if let (Num::F(a), Num::F(b)) = (l, r) {
        out.case(&format!("c04 pymod_f64 {le} {re}"), &show_num(catch(|| n::py_mod_f64(a, b)).map(Num::F)));
        out.case(
            &format!("c04 pyfloordiv_f64 {le} {re}"),
            &show_num(catch(|| n::py_floor_div_f64(a, b)).map(Num::F)),
        );
        if b != 0.0 {
            out.case(
                &format!("c04 modcore_f64 {le} {re}"),
                &show_num(catch(|| incan_core::py_mod_f64_impl(a, b)).map(Num::F)),
            );
        }
    }
}

pub fn int_grid() -> Vec<i64> {
    let mut v: Vec<i64> = vec![0, 1, 2, 3, 7, 10];
    for p in [31u32, 32, 53, 62] {
        v.push(1i64 << p);
        v.push((1i64 << p) + 1);
        v.push((1i64 << p) - 1);
    }
    v.push(i64::MAX);
    v.push(i64::MAX - 1);
    let mut all = v.clone();
    for x in v {
        all.push(x.wrapping_neg());
    }
    all.push(i64::MIN);
    all.push(i64::MIN + 1);
    all.sort();
    all.dedup();
    all
}

pub fn float_grid() -> Vec<f64> {
    let base = [
        0.0,
        f64::from_bits(1),            // smallest subnormal
        f64::from_bits(0x000f_ffff_ffff_ffff), // largest subnormal
        f64::MIN_POSITIVE,
        1e-300,
        0.1,
        0.5,
        1.0,
        1.5,
        2.0,
        3.0,
        7.0,
        4503599627370496.0,  // 2^52
        9007199254740992.0,  // 2^53
        9007199254740994.0,
        1e300,
        f64::MAX,
    ];
    let mut v = Vec::new();
    for x in base {
        v.push(x);
        v.push(-x);
    }
    v
}

fn rand_i64(rng: &mut Rng) -> i64 {
    match rng.below(8) {
        0 => rng.range(-20, 20),
        1 => rng.range(-100000, 100000),
        2 => *rng.pick(&int_grid()),
        3 => (rng.next() as i64) >> rng.below(63),
        4 => i64::MIN.wrapping_add(rng.range(0, 50)),
        5 => i64::MAX.wrapping_sub(rng.range(0, 50)),
        _ => rng.next() as i64,
    }
}

fn rand_f64(rng: &mut Rng) -> f64 {
    loop {
        let f = match rng.below(8) {
            0 => rng.range(-20, 20) as f64,
            1 => rng.range(-2000, 2000) as f64 / 64.0, // dyadic: all ops exact on small pairs
            2 => *rng.pick(&float_grid()),
            3 => rng.range(-1000, 1000) as f64 * 0.1,
            4 => f64::from_bits(rng.next()), // any exponent
            5 => (rng.range(-1_000_000, 1_000_000) as f64) * 2f64.powi(rng.range(-1074, 900) as i32),
            6 => rng.next() as i64 as f64,
            _ => f64::from_bits(rng.next() & 0x800f_ffff_ffff_ffff | (rng.below(60) + 1000) << 52),
        };
        if f.is_finite() {
            return f;
        }
    }
}

pub fn run(out: &mut Out, tier: &str, seed: u64) {
    let mut rng = Rng::new(seed);
    let ig = int_grid();
    for &a in &ig {
        for &b in &ig {
            int_ops(out, a, b);
            generic_ops(out, Num::I(a), Num::I(b));
        }
    }
    let fg = float_grid();
    for &a in &fg {
        for &b in &fg {
            generic_ops(out, Num::F(a), Num::F(b));
        }
        for &b in &[0i64, 1, -1, 2, -3, 7, i64::MAX, i64::MIN, (1 << 53) + 1] {
            generic_ops(out, Num::F(a), Num::I(b));
            generic_ops(out, Num::I(b), Num::F(a));
        }
    }
    let n_rand = if tier == "thorough" { 400_000 } else { 20_000 };
    for _ in 0..n_rand {
        let (a, b) = (rand_i64(&mut rng), rand_i64(&mut rng));
        int_ops(out, a, b);
        let l = if rng.chance(1, 2) { Num::I(rand_i64(&mut rng)) } else { Num::F(rand_f64(&mut rng)) };
        let r = if rng.chance(1, 2) { Num::I(rand_i64(&mut rng)) } else { Num::F(rand_f64(&mut rng)) };
        generic_ops(out, l, r);
    }
    out.meta(&serde_json::json!({"int_grid": ig.len(), "float_grid": fg.len(), "random_pairs": n_rand}));
    compiled(out, &mut rng, tier);
}

/// The operators as programs use them — binary `/ // %` and the compound forms `/= //= %=` on int and float
/// variables — through the real front end, lowering, emitter and rustc, executed.
fn compiled(out: &mut Out, rng: &mut Rng, tier: &str) {
    use crate::runner::{self, Case, Outcome};
    let n_prog = if tier == "thorough" { 90 } else { 24 };
    let ints: [i64; 10] = [7, -7, 2, -2, 3, -3, 1, 10, -10, 0];
    let floats: [f64; 10] = [7.5, -7.5, 2.0, -2.0, 0.5, -0.5, 3.0, 1.25, -10.0, 0.0];
    struct C { form: &'static str, op: &'static str, a: Num, b: Num }
    let mut programs: Vec<(Vec<C>, String)> = Vec::new();
    // the grid: every operator x operand spelling x sign combination x operand kinds, no zero divisor
    let mut grid: Vec<(&'static str, &'static str, Num, Num)> = Vec::new();
    for op in ["pydiv", "pyfloordiv", "pymod"] {
        for form in ["bin", "lib", "lia", "aug", "alb"] {
            for (x, y) in [(7i64, 2i64), (-7, 2), (7, -2), (-7, -2), (-9, 4), (6, 3)] {
                for (ai, bi) in [(true, true), (true, false), (false, true), (false, false)] {
                    if (form == "aug" || form == "alb") && ai && !(bi && op != "pydiv") { continue; }
                    let a = if ai { Num::I(x) } else { Num::F(x as f64 + 0.5) };
                    let b = if bi { Num::I(y) } else { Num::F(y as f64) };
                    grid.push((op, form, a, b));
                }
            }
        }
    }
    let per = 12;
    let n_grid = if tier == "thorough" { grid.len().div_ceil(per) } else { grid.len().div_ceil(per) };
    for pi in 0..(n_prog + n_grid) {
        let mut cases: Vec<C> = Vec::new();
        let mut body = String::new();
        let from_grid: Vec<(&'static str, &'static str, Num, Num)> =
            if pi >= n_prog { grid.iter().skip((pi - n_prog) * per).take(per).cloned().collect() } else { Vec::new() };
        let k = if pi >= n_prog { from_grid.len() } else { 6 };
        for ci in 0..k {
            let last = ci == k - 1;
            let op = if pi >= n_prog { from_grid[ci].0 } else { *rng.pick(&["pydiv", "pyfloordiv", "pymod"]) };
            let a_int = if pi >= n_prog { matches!(from_grid[ci].2, Num::I(_)) } else { rng.chance(1, 2) };
            let b_int = if pi >= n_prog { matches!(from_grid[ci].3, Num::I(_)) } else { rng.chance(1, 2) };
            // compound forms keep the variable's type: an int variable only takes `//=` / `%=` with an int operand
            let aug_ok = if a_int { b_int && op != "pydiv" } else { true };
            // operand spelling: both variables, or the right / left operand written as a literal in the expression
            // (the emitter may plan a literal operand differently from a variable)
            let form = match (aug_ok && (pi + ci) % 2 == 0, (pi * 7 + ci) % 3) {
                (true, 0) => "alb",
                (true, _) => "aug",
                (false, 0) => "lib",
                (false, 1) => "lia",
                (false, _) => "bin",
            };
            let form = if pi >= n_prog { from_grid[ci].1 } else { form };
            let a = if a_int { Num::I(*rng.pick(&ints)) } else { Num::F(*rng.pick(&floats)) };
            // only the last case of a program may have a zero divisor (it stops the program)
            let zero = pi < n_prog && last && rng.chance(1, 2);
            let b = if b_int { Num::I(if zero { 0 } else { *rng.pick(&ints[..9]) }) } else { Num::F(if zero { 0.0 } else { *rng.pick(&floats[..9]) }) };
            let (a, b) = if pi >= n_prog { (from_grid[ci].2, from_grid[ci].3) } else { (a, b) };
            let lit = |x: Num| match x { Num::I(i) => if i < 0 { format!("0 - {}", -i) } else { i.to_string() }, Num::F(f) => if f < 0.0 || (f == 0.0 && f.is_sign_negative()) { format!("0.0 - {:?}", -f) } else { format!("{f:?}") } };
            let ty = |x: Num| match x { Num::I(_) => "int", Num::F(_) => "float" };
            let sym = match op { "pydiv" => "/", "pyfloordiv" => "//", _ => "%" };
            body.push_str(&format!("    mut a{ci}: {} = {}\n    b{ci}: {} = {}\n", ty(a), lit(a), ty(b), lit(b)));
            // a literal operand as it is written in source: `-2`, `2.5`, `-0.0`
            let src_lit = |x: Num| match x { Num::I(i) => i.to_string(), Num::F(f) => format!("{f:?}") };
            match form {
                "aug" => body.push_str(&format!("    a{ci} {sym}= b{ci}\n    println(a{ci})\n")),
                "alb" => body.push_str(&format!("    a{ci} {sym}= {}\n    println(a{ci})\n", src_lit(b))),
                "lib" => body.push_str(&format!("    r{ci} = a{ci} {sym} {}\n    println(r{ci})\n", src_lit(b))),
                "lia" => body.push_str(&format!("    r{ci} = {} {sym} b{ci}\n    println(r{ci})\n", src_lit(a))),
                _ => body.push_str(&format!("    r{ci} = a{ci} {sym} b{ci}\n    println(r{ci})\n")),
            }
            cases.push(C { form, op, a, b });
        }
        programs.push((cases, format!("def main() -> None:\n{body}")));
    }
    let batch: Vec<Case> = programs.iter().map(|(_, src)| Case { name: String::new(), source: src.clone() }).collect();
    let outs = runner::run_batch("/verif/.build/batch/c04", "/verif/.build/batch-target", &batch);
    let mut n_cases = 0u64;
    for ((cases, _), o) in programs.iter().zip(outs.iter()) {
        let (lines, panic): (Vec<String>, Option<String>) = match o {
            Outcome::Ran { stdout, panic, .. } => (stdout.lines().map(|l| l.to_string()).collect(), panic.clone()),
            other => (vec![], Some(format!("NOT-RUN {}", runner::show(other)))),
        };
        for (ci, c) in cases.iter().enumerate() {
            let int_result = matches!((c.a, c.b), (Num::I(_), Num::I(_))) && c.op != "pydiv";
            let real = match lines.get(ci) {
                Some(l) => {
                    if int_result { l.trim().parse::<i64>().map(|v| format!("ok i {v}")).unwrap_or_else(|_| format!("unparsable {l}")) }
                    else { l.trim().parse::<f64>().map(|v| format!("ok f {}", fbits(v))).unwrap_or_else(|_| format!("unparsable {l}")) }
                }
                None => match (&panic, ci == lines.len()) {
                    (Some(m), true) => format!("panic {m}"),
                    (Some(m), false) if m.starts_with("NOT-RUN") => m.clone(),
                    _ => "not-reached".to_string(),
                },
            };
            if real == "not-reached" { continue; }
            n_cases += 1;
            out.case(&format!("c04 prog_{}_{} {} {}", c.form, c.op, c.a.enc(), c.b.enc()), &real);
        }
    }
    let _ = std::fs::remove_dir_all("/verif/.build/batch/c04");
    out.meta(&serde_json::json!({"compiled_programs": programs.len(), "compiled_cases": n_cases}));
}
