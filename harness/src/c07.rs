//! C07: numeric result types in every phase, on generated expressions (exhaustive small + random deep).
//! The request carries the tree the *real parser* produced for the generated text, so the model sees
//! exactly what the checker saw.
use crate::util::{Out, Rng, catch};
use incan::backend::ir::conversions::{BinOpEmitKind, NumericConversion, determine_binop_plan};
use incan::backend::ir::{AstLowering, IrDeclKind, IrExprKind, IrStmtKind, IrType, TypedExpr};
use incan::frontend::symbols::ResolvedType;
use incan::frontend::typechecker::TypeChecker;
use incan_core::{NumericOp, NumericTy, PowExponentKind};
use incan_syntax::ast::{BinaryOp, Declaration, Expr, Literal, Program, Spanned, Statement, UnaryOp};

const PRELUDE: &str = "model O:\n    n: int\n    w: float\n\n    def mi(self) -> int:\n        return self.n\n\n    def mx(self) -> float:\n        return self.w\n\ndef ga() -> int:\n    return 3\n\ndef gx() -> float:\n    return 2.5\n\n";

const OPS: [(&str, &str); 13] = [
    ("add", "+"), ("sub", "-"), ("mul", "*"), ("div", "/"), ("fdiv", "//"), ("mod", "%"), ("pow", "**"),
    ("eq", "=="), ("ne", "!="), ("lt", "<"), ("le", "<="), ("gt", ">"), ("ge", ">="),
];

fn op_name(op: &BinaryOp) -> Option<&'static str> {
    Some(match op {
        BinaryOp::Add => "add",
        BinaryOp::Sub => "sub",
        BinaryOp::Mul => "mul",
        BinaryOp::Div => "div",
        BinaryOp::FloorDiv => "fdiv",
        BinaryOp::Mod => "mod",
        BinaryOp::Pow => "pow",
        BinaryOp::Eq => "eq",
        BinaryOp::NotEq => "ne",
        BinaryOp::Lt => "lt",
        BinaryOp::LtEq => "le",
        BinaryOp::Gt => "gt",
        BinaryOp::GtEq => "ge",
        _ => return None,
    })
}

/// AST -> compact prefix encoding understood by the Lean driver (None: outside the numeric fragment).
fn enc(e: &Spanned<Expr>) -> Option<String> {
    Some(match &e.node {
        Expr::Literal(Literal::Int(n)) if *n >= 0 => format!("i{n}"),
        Expr::Literal(Literal::Float(_)) => "f".to_string(),
        Expr::Ident(n) if n == "a" || n == "b" => "vi".to_string(),
        Expr::Ident(n) if n == "x" || n == "y" => "vf".to_string(),
        // operands whose type only the checker knows (calls, fields, method calls): plain int / float operands
        Expr::Call(f, args) if args.is_empty() => match &f.node {
            Expr::Ident(n) if n == "ga" => "vi".to_string(),
            Expr::Ident(n) if n == "gx" => "vf".to_string(),
            _ => return None,
        },
        Expr::Field(o, n) if matches!(&o.node, Expr::Ident(v) if v == "o") => match n.as_str() {
            "n" => "vi".to_string(),
            "w" => "vf".to_string(),
            _ => return None,
        },
        Expr::MethodCall(o, n, args) if args.is_empty() && matches!(&o.node, Expr::Ident(v) if v == "o") => match n.as_str() {
            "mi" => "vi".to_string(),
            "mx" => "vf".to_string(),
            _ => return None,
        },
        Expr::Unary(UnaryOp::Neg, inner) => format!("n({})", enc(inner)?),
        Expr::Paren(inner) => format!("p({})", enc(inner)?),
        Expr::Binary(l, op, r) => format!("{}({},{})", op_name(op)?, enc(l)?, enc(r)?),
        _ => return None,
    })
}

fn rt(t: &ResolvedType) -> String {
    match t {
        ResolvedType::Int => "int".into(),
        ResolvedType::Float => "float".into(),
        ResolvedType::Bool => "bool".into(),
        ResolvedType::Unknown => "unknown".into(),
        other => format!("other:{other}"),
    }
}
fn it(t: &IrType) -> String {
    match t {
        IrType::Int => "int".into(),
        IrType::Float => "float".into(),
        IrType::Bool => "bool".into(),
        IrType::Unknown => "unknown".into(),
        other => format!("other:{other:?}"),
    }
}

fn parse(src: &str) -> Result<Program, String> {
    let toks = incan_syntax::lexer::lex(src).map_err(|e| format!("lexerr {}", e[0].message))?;
    incan_syntax::parser::parse(&toks).map_err(|e| format!("parseerr {}", e[0].message))
}

fn first_stmt_value(p: &Program) -> Option<&Spanned<Expr>> {
    for d in &p.declarations {
        if let Declaration::Function(f) = &d.node {
            if f.name == "f" {
                if let Some(st) = f.body.first() {
                    if let Statement::Assignment(a) = &st.node {
                        return Some(&a.value);
                    }
                }
            }
        }
    }
    None
}

/// Pre-order list of the plans the emitter would use for every numeric BinOp node.
fn plans(e: &TypedExpr, out: &mut Vec<String>) {
    match &e.kind {
        IrExprKind::BinOp { op, left, right } => {
            let p = determine_binop_plan(op, left, right);
            let conv = |c: &NumericConversion| if matches!(c, NumericConversion::ToFloat) { "F" } else { "-" };
            let emit = match &p.emit {
                BinOpEmitKind::Infix { .. } => "infix".to_string(),
                BinOpEmitKind::Pow { result_is_int } => if *result_is_int { "powInt".into() } else { "powFloat".into() },
                BinOpEmitKind::StdlibCall { path } => {
                    let s = path.to_string().replace(' ', "");
                    s.rsplit("::").next().unwrap_or("").to_string()
                }
            };
            out.push(format!("{}{}:{}:{}", conv(&p.lhs_conv), conv(&p.rhs_conv), it(&p.result_ty), emit));
            plans(left, out);
            plans(right, out);
        }
        IrExprKind::UnaryOp { operand, .. } => plans(operand, out),
        _ => {}
    }
}

fn types_case(out: &mut Out, text: &str) {
    let src = format!("{PRELUDE}def f(a: int, b: int, x: float, y: float, o: O) -> None:\n    v = {text}\n");
    let r = catch(|| -> Result<(String, String), String> {
        let prog = parse(&src)?;
        let value = first_stmt_value(&prog).ok_or("no value")?;
        let e = enc(value).ok_or("outside-fragment")?;
        let mut tc = TypeChecker::new();
        let chk = match tc.check_program(&prog) {
            Ok(()) => tc.type_info().expr_type(value.span).map(rt).unwrap_or_else(|| "untyped".into()),
            Err(errs) => format!("err:{}", errs.len()),
        };
        let mut ir_ty = "none".to_string();
        let mut pl: Vec<String> = Vec::new();
        if !chk.starts_with("err") {
            let mut low = AstLowering::new_with_type_info(tc.type_info().clone());
            match low.lower_program(&prog) {
                Ok(irp) => {
                    for d in &irp.declarations {
                        if let IrDeclKind::Function(f) = &d.kind {
                            if f.name == "f" {
                                if let Some(st) = f.body.first() {
                                    if let IrStmtKind::Let { value, .. } = &st.kind {
                                        ir_ty = it(&value.ty);
                                        plans(value, &mut pl);
                                    }
                                }
                            }
                        }
                    }
                }
                Err(_) => ir_ty = "lowererr".into(),
            }
        }
        Ok((e, format!("chk={chk} ir={ir_ty} plans={}", if pl.is_empty() { "-".to_string() } else { pl.join(";") })))
    });
    match r {
        Ok(Ok((e, real))) => out.case(&format!("c07 types {e}"), &real),
        Ok(Err(_)) => {} // not parseable / outside the fragment: not a C07 case
        Err(m) => out.case(&format!("c07 panic {}", crate::util::enc_str(text)), &format!("panic {m}")),
    }
}

/// Binding positions: annotated let, return, compound assignment, argument.
fn bind_case(out: &mut Out, text: &str, pos: &str, annot: &str) {
    let (src, probe) = match pos {
        "let" => (format!("{PRELUDE}def f(a: int, b: int, x: float, y: float, o: O) -> None:\n    v: {annot} = {text}\n"), "let"),
        "ret" => (format!("{PRELUDE}def f(a: int, b: int, x: float, y: float, o: O) -> {annot}:\n    return {text}\n"), "ret"),
        "arg" => (
            format!("{PRELUDE}def g(p: {annot}) -> None:\n    pass\n\ndef f(a: int, b: int, x: float, y: float, o: O) -> None:\n    g({text})\n"),
            "arg",
        ),
        _ => return,
    };
    let r = catch(|| -> Result<(String, String), String> {
        let prog = parse(&src)?;
        // recover the value expression for the encoding
        let value: Option<Spanned<Expr>> = prog.declarations.iter().find_map(|d| match &d.node {
            Declaration::Function(f) if f.name == "f" => f.body.first().and_then(|st| match &st.node {
                Statement::Assignment(a) => Some(a.value.clone()),
                Statement::Return(Some(v)) => Some(v.clone()),
                Statement::Expr(e) => match &e.node {
                    Expr::Call(_, args) => args.first().and_then(|a| match a {
                        incan_syntax::ast::CallArg::Positional(v) => Some(v.clone()),
                        _ => None,
                    }),
                    _ => None,
                },
                _ => None,
            }),
            _ => None,
        });
        let value = value.ok_or("no value")?;
        let e = enc(&value).ok_or("outside-fragment")?;
        let mut tc = TypeChecker::new();
        let verdict = match tc.check_program(&prog) {
            Ok(()) => "accept".to_string(),
            Err(_) => "reject".to_string(),
        };
        Ok((e, verdict))
    });
    if let Ok(Ok((e, verdict))) = r {
        out.case(&format!("c07 bind {probe} {annot} {e}"), &verdict);
    }
}

fn compound_case(out: &mut Out, op: &str, var_ty: &str, text: &str) {
    let src = format!("{PRELUDE}def f(a: int, b: int, x: float, y: float, o: O) -> None:\n    mut v: {var_ty} = {}\n    v {op}= {text}\n", if var_ty == "int" { "1" } else { "1.5" });
    let r = catch(|| -> Result<(String, String), String> {
        let prog = parse(&src)?;
        let value: Option<Spanned<Expr>> = prog.declarations.iter().find_map(|d| match &d.node {
            Declaration::Function(f) if f.name == "f" => f.body.get(1).and_then(|st| match &st.node {
                Statement::CompoundAssignment(c) => Some(c.value.clone()),
                _ => None,
            }),
            _ => None,
        });
        let value = value.ok_or("no value")?;
        let e = enc(&value).ok_or("outside-fragment")?;
        let mut tc = TypeChecker::new();
        let verdict = match tc.check_program(&prog) {
            Ok(()) => "accept".to_string(),
            Err(_) => "reject".to_string(),
        };
        Ok((e, verdict))
    });
    if let Ok(Ok((e, verdict))) = r {
        let name = OPS.iter().find(|(_, s)| *s == op).map(|(n, _)| *n).unwrap_or("?");
        out.case(&format!("c07 compound {name} {var_ty} {e}"), &verdict);
    }
}

/// The type the const evaluator gives the same expression when its names are consts (`const K = E`): it must be the
/// documented one too — in particular `**` is classified by the *syntax* of the exponent, not by a const's value.
fn ctype_case(out: &mut Out, text: &str) {
    if text.contains('(') && !text.contains("()") {
        // parentheses are not allowed in const initializers (phase 1); calls / fields are not const either
    }
    let src = format!("const a: int = 3\nconst b: int = 2\nconst x: float = 2.5\nconst y: float = 0.5\nconst K = {text}\n\ndef main() -> None:\n    pass\n");
    let r = catch(|| -> Result<(String, String), String> {
        let prog = parse(&src)?;
        let value: Option<Spanned<Expr>> = prog.declarations.iter().find_map(|d| match &d.node {
            Declaration::Const(c) if c.name == "K" => Some(c.value.clone()),
            _ => None,
        });
        let value = value.ok_or("no value")?;
        let e = enc(&value).ok_or("outside-fragment")?;
        let mut tc = TypeChecker::new();
        let verdict = match tc.check_program(&prog) {
            Ok(()) => tc.type_info().expr_type(value.span).map(rt).unwrap_or_else(|| "untyped".into()),
            Err(errs) => {
                let m = &errs[0].message;
                if m.contains("not allowed inside const") || m.contains("Parenthes") { "not-const".to_string() } else { format!("err:{}", m.replace(' ', "_").chars().take(60).collect::<String>()) }
            }
        };
        Ok((e, verdict))
    });
    if let Ok(Ok((e, verdict))) = r {
        if verdict != "not-const" {
            out.case(&format!("c07 ctype {e}"), &verdict);
        }
    }
}

/// The plan the emitter uses for the desugared `v = v op e`, for a local variable and for a `mut` parameter.
fn cplan_case(out: &mut Out, op: &str, var_ty: &str, target: &str, text: &str) {
    let init = if var_ty == "int" { "1" } else { "1.5" };
    let src = if target == "local" {
        format!("{PRELUDE}def f(a: int, b: int, x: float, y: float, o: O) -> None:\n    mut v: {var_ty} = {init}\n    v {op}= {text}\n")
    } else {
        format!("{PRELUDE}def f(a: int, b: int, x: float, y: float, o: O, mut v: {var_ty}) -> None:\n    v {op}= {text}\n    pass\n")
    };
    let idx = if target == "local" { 1 } else { 0 };
    let r = catch(|| -> Result<(String, String), String> {
        let prog = parse(&src)?;
        let value: Option<Spanned<Expr>> = prog.declarations.iter().find_map(|d| match &d.node {
            Declaration::Function(f) if f.name == "f" => f.body.get(idx).and_then(|st| match &st.node {
                Statement::CompoundAssignment(c) => Some(c.value.clone()),
                _ => None,
            }),
            _ => None,
        });
        let value = value.ok_or("no value")?;
        let e = enc(&value).ok_or("outside-fragment")?;
        let mut tc = TypeChecker::new();
        if tc.check_program(&prog).is_err() {
            return Ok((e, "reject".to_string()));
        }
        let mut low = AstLowering::new_with_type_info(tc.type_info().clone());
        let irp = low.lower_program(&prog).map_err(|_| "lowererr".to_string())?;
        let mut real = "plan=none".to_string();
        for d in &irp.declarations {
            if let IrDeclKind::Function(f) = &d.kind {
                if f.name == "f" {
                    if let Some(st) = f.body.get(idx) {
                        let v = match &st.kind {
                            IrStmtKind::Assign { value, .. } => Some(value),
                            IrStmtKind::Let { value, .. } => Some(value),
                            _ => None,
                        };
                        if let Some(v) = v {
                            let mut pl = Vec::new();
                            plans(v, &mut pl);
                            real = format!("plan={}", pl.first().cloned().unwrap_or_else(|| "-".into()));
                        } else {
                            real = format!("plan=stmt:{}", format!("{:?}", st.kind).chars().take(40).collect::<String>().replace(' ', "_"));
                        }
                    }
                }
            }
        }
        Ok((e, real))
    });
    if let Ok(Ok((e, real))) = r {
        let name = OPS.iter().find(|(_, s)| *s == op).map(|(n, _)| *n).unwrap_or("?");
        out.case(&format!("c07 cplan {name} {var_ty} {target} {e}"), &real);
    }
}

fn atoms() -> Vec<&'static str> {
    vec!["a", "x", "3", "0", "2.5", "-1", "-0", "(2)", "(-2)", "-(0)", "-(3)", "(-(0))", "-x", "-a", "((b))", "ga()", "gx()", "o.n", "o.w", "o.mi()", "o.mx()"]
}

fn gen_expr(rng: &mut Rng, depth: u32) -> String {
    if depth == 0 || rng.chance(1, 4) {
        return rng.pick(&atoms()).to_string();
    }
    match rng.below(10) {
        0 => format!("({})", gen_expr(rng, depth - 1)),
        1 => format!("-({})", gen_expr(rng, depth - 1)),
        _ => {
            // arithmetic mostly; comparisons only at the top would be bool operands otherwise
            let (_, sym) = OPS[rng.below(7) as usize];
            let l = gen_expr(rng, depth - 1);
            let r = gen_expr(rng, depth - 1);
            match rng.below(3) {
                0 => format!("{l} {sym} {r}"),
                1 => format!("({l}) {sym} {r}"),
                _ => format!("{l} {sym} ({r})"),
            }
        }
    }
}

fn policy_table(out: &mut Out) {
    let ops = [
        ("add", NumericOp::Add), ("sub", NumericOp::Sub), ("mul", NumericOp::Mul), ("div", NumericOp::Div),
        ("fdiv", NumericOp::FloorDiv), ("mod", NumericOp::Mod), ("pow", NumericOp::Pow), ("eq", NumericOp::Eq),
        ("ne", NumericOp::NotEq), ("lt", NumericOp::Lt), ("le", NumericOp::LtEq), ("gt", NumericOp::Gt), ("ge", NumericOp::GtEq),
    ];
    let tys = [("int", NumericTy::Int), ("float", NumericTy::Float)];
    let kinds = [
        ("none", None), ("nonneg", Some(PowExponentKind::NonNegativeIntLiteral)), ("neg", Some(PowExponentKind::NegativeIntLiteral)),
        ("var", Some(PowExponentKind::Variable)), ("float", Some(PowExponentKind::Float)),
    ];
    let t = |n: NumericTy| if n == NumericTy::Int { "int" } else { "float" };
    for (on, o) in ops {
        for (ln, l) in tys {
            for (rn, r) in tys {
                for (kn, k) in kinds {
                    let res = incan_core::result_numeric_type(o, l, r, k);
                    let (pl, pr) = incan_core::needs_float_promotion(o, l, r, k);
                    out.case(&format!("c07 policy {on} {ln} {rn} {kn}"), &format!("{} {pl} {pr}", t(res)));
                }
            }
        }
    }
    for fl in [false, true] {
        for lit in [None, Some(0i64), Some(1), Some(-1), Some(i64::MAX), Some(i64::MIN)] {
            let k = PowExponentKind::from_literal_info(fl, lit);
            out.case(
                &format!("c07 litinfo {fl} {}", lit.map(|v| v.to_string()).unwrap_or("none".into())),
                &format!("{k:?}"),
            );
        }
    }
}

pub fn run(out: &mut Out, tier: &str, seed: u64) {
    let mut rng = Rng::new(seed);
    policy_table(out);
    let at = atoms();
    // exhaustive: every operator × every pair of atoms (depth 1), typed + in every binding position
    for (_, sym) in OPS {
        for l in &at {
            for r in &at {
                let text = format!("{l} {sym} {r}");
                types_case(out, &text);
                if !text.contains('(') && !text.contains('.') || text.contains("2.5") && !text.contains('(') && !text.contains("o.") {
                    ctype_case(out, &text);
                }
                for annot in ["int", "float"] {
                    bind_case(out, &text, "let", annot);
                    bind_case(out, &text, "ret", annot);
                    bind_case(out, &text, "arg", annot);
                }
            }
        }
    }
    for (_, sym) in &OPS[0..6] {
        for r in &at {
            for vt in ["int", "float"] {
                compound_case(out, sym, vt, r);
                cplan_case(out, sym, vt, "local", r);
                cplan_case(out, sym, vt, "param", r);
            }
        }
    }
    // depth 2: op(op(atom, atom), atom) with a reduced atom set, both groupings
    let small = ["a", "x", "2", "-1", "(0)", "gx()", "o.n"];
    for (_, s1) in &OPS[0..7] {
        for (_, s2) in &OPS[0..7] {
            for p in small {
                for q in small {
                    for r in small {
                        types_case(out, &format!("{p} {s1} {q} {s2} {r}"));
                        types_case(out, &format!("{p} {s1} ({q} {s2} {r})"));
                    }
                }
            }
        }
    }
    let n_rand = if tier == "thorough" { 60_000 } else { 4_000 };
    for _ in 0..n_rand {
        let d = 2 + rng.below(5) as u32;
        let text = gen_expr(&mut rng, d);
        types_case(out, &text);
        let annot = if rng.chance(1, 2) { "int" } else { "float" };
        bind_case(out, &text, ["let", "ret", "arg"][rng.below(3) as usize], annot);
    }
    out.meta(&serde_json::json!({"atoms": at.len(), "random": n_rand}));
}
