//! C08 / C09: the real formatter on the repository corpus and on generated programs.
//! Per source: AST preservation (C08), idempotence / hygiene / check consistency (C09).
use crate::corpus;
use crate::util::{Out, Rng, catch, enc_str};
use incan_syntax::lexer::TokenKind;

/// Byte ranges of string-like tokens (contents exempt from the hygiene rules).
fn string_spans(text: &str) -> Vec<(usize, usize)> {
    match incan_syntax::lexer::lex(text) {
        Ok(toks) => toks
            .iter()
            .filter(|t| matches!(t.kind, TokenKind::String(_) | TokenKind::FString(_) | TokenKind::Bytes(_)))
            .map(|t| (t.span.start, t.span.end))
            .collect(),
        Err(_) => Vec::new(),
    }
}

fn hygiene(text: &str) -> Vec<String> {
    let mut problems = Vec::new();
    if !text.is_empty() {
        if !text.ends_with('\n') {
            problems.push("no-final-newline".to_string());
        } else if text.ends_with("\n\n") {
            problems.push("more-than-one-final-newline".to_string());
        }
    }
    let spans = string_spans(text);
    let inside = |i: usize| spans.iter().any(|(a, b)| *a < i && i < *b);
    let bytes = text.as_bytes();
    for (i, b) in bytes.iter().enumerate() {
        if *b == b'\t' && !inside(i) {
            problems.push("tab".to_string());
            break;
        }
    }
    let mut pos = 0;
    for line in text.split('\n') {
        let end = pos + line.len();
        if line.ends_with(' ') || line.ends_with('\t') || line.ends_with('\r') {
            if !inside(end) {
                problems.push("trailing-whitespace".to_string());
                break;
            }
        }
        pos = end + 1;
    }
    problems
}

/// First differing region of two AST dumps (for the replay).
fn first_diff(a: &str, b: &str) -> String {
    let (ab, bb) = (a.as_bytes(), b.as_bytes());
    let mut i = 0;
    while i < ab.len() && i < bb.len() && ab[i] == bb[i] {
        i += 1;
    }
    let lo = i.saturating_sub(60);
    let cut = |s: &str| {
        let mut lo2 = lo.min(s.len());
        while !s.is_char_boundary(lo2) {
            lo2 -= 1;
        }
        let mut hi = (i + 80).min(s.len());
        while !s.is_char_boundary(hi) {
            hi += 1;
        }
        s[lo2..hi].to_string()
    };
    format!("before: …{}… after: …{}…", cut(a), cut(b))
}

pub fn verdict(src: &str) -> Option<String> {
    let base = match catch(|| corpus::ast_string(src)) {
        Ok(Ok(a)) => a,
        _ => return None, // not a parseable program: outside C08/C09
    };
    let f1 = match catch(|| incan::format_source(src)) {
        Err(m) => return Some(format!("FAIL fmt-panic {m}")),
        Ok(Err(e)) => return Some(format!("FAIL fmt-error {}", e.to_string().chars().take(120).collect::<String>())),
        Ok(Ok(t)) => t,
    };
    let mut out: Vec<String> = Vec::new();
    // C08
    match catch(|| corpus::ast_string(&f1)) {
        Ok(Ok(a)) => {
            if corpus::normalize_docstrings(&a) != corpus::normalize_docstrings(&base) {
                out.push(format!("C08:ast-differs {}", first_diff(&base, &a).replace('\n', "\\n")));
            }
        }
        Ok(Err(e)) => out.push(format!("C08:formatted-does-not-parse {}", e.chars().take(100).collect::<String>())),
        Err(m) => out.push(format!("C08:panic {m}")),
    }
    // C09
    match catch(|| incan::format_source(&f1)) {
        Ok(Ok(f2)) => {
            if f2 != f1 {
                out.push("C09:not-idempotent".to_string());
            }
        }
        Ok(Err(_)) => out.push("C09:second-format-fails".to_string()),
        Err(m) => out.push(format!("C09:panic {m}")),
    }
    match catch(|| incan::check_formatted(&f1)) {
        Ok(Ok(true)) => {}
        Ok(Ok(false)) => out.push("C09:check-rejects-formatted".to_string()),
        _ => out.push("C09:check-fails".to_string()),
    }
    for p in hygiene(&f1) {
        out.push(format!("C09:{p}"));
    }
    Some(if out.is_empty() { "ok".to_string() } else { out.join(" | ") })
}

fn gen_atom(rng: &mut Rng) -> String {
    rng.pick(&["a", "b", "x", "1", "0", "2.5", "3.0", "s", "xs", "True", "None", "\"q\"", "f(a)", "xs[0]", "p.x", "xs.len()", "-1", "(a)"]).to_string()
}

/// Random expression text over the whole ladder (or/and/not/comparison/range/additive/multiplicative/power/unary/postfix).
pub fn gen_expr(rng: &mut Rng, depth: u32) -> String {
    if depth == 0 || rng.chance(1, 5) {
        return gen_atom(rng);
    }
    let ops = ["or", "and", "==", "!=", "<", ">", "<=", ">=", "in", "not in", "is", "+", "-", "*", "/", "//", "%", "**", "..", "..="];
    match rng.below(14) {
        0 => format!("({})", gen_expr(rng, depth - 1)),
        1 => format!("-{}", gen_expr(rng, depth - 1)),
        2 => format!("not {}", gen_expr(rng, depth - 1)),
        3 => format!("f({}, {})", gen_expr(rng, depth - 1), gen_expr(rng, depth - 1)),
        4 => format!("xs[{}]", gen_expr(rng, depth - 1)),
        5 => format!("({}).m({})", gen_expr(rng, depth - 1), gen_expr(rng, depth - 1)),
        6 => format!("[{}, {}]", gen_expr(rng, depth - 1), gen_expr(rng, depth - 1)),
        7 => format!("xs[{}:{}]", gen_expr(rng, depth - 1), gen_expr(rng, depth - 1)),
        _ => {
            let op = *rng.pick(&ops);
            let l = gen_expr(rng, depth - 1);
            let r = gen_expr(rng, depth - 1);
            match rng.below(4) {
                0 => format!("({l}) {op} {r}"),
                1 => format!("{l} {op} ({r})"),
                _ => format!("{l} {op} {r}"),
            }
        }
    }
}

/// `incan fmt` / `--check` / `--diff` on real files: exit status and what happened to the file.
fn cli_cases(out: &mut Out, scratch: &str) {
    let unformatted = "def f( a:int )->int:\n  return a+1\n";
    let formatted = incan::format_source(unformatted).unwrap_or_default();
    let broken = "def f(:\n";
    let dir = format!("{scratch}/c09cli");
    let _ = std::fs::create_dir_all(&dir);
    // near-formatted variants: the smallest differences from the canonical text must be handled like any other
    let no_final_nl = formatted.trim_end_matches('\n').to_string();
    let extra_blank = format!("{formatted}\n\n");
    let trailing_space = formatted.replacen('\n', " \n", 1);
    let leading_blank = format!("\n{formatted}");
    let crlf = formatted.replace('\n', "\r\n");
    let mut variants: Vec<(String, String)> = vec![("formatted".into(), formatted.clone()), ("unformatted".into(), unformatted.to_string()), ("broken".into(), broken.to_string())];
    for (label, text) in [("no-final-newline", &no_final_nl), ("extra-blank-lines-at-end", &extra_blank), ("trailing-space", &trailing_space), ("leading-blank-line", &leading_blank), ("crlf", &crlf)] {
        // classified by the library formatter itself, so that the label is right whatever it normalises
        let kind = match incan::format_source(text) { Ok(f) if f == **text => "formatted", Ok(_) => "unformatted", Err(_) => "broken" };
        variants.push((format!("{kind}:{label}"), (*text).clone()));
    }
    for (kind, src) in variants.iter().map(|(k, t)| (k.as_str(), t.as_str())) {
        for (check, diff) in [(false, false), (true, false), (false, true), (true, true)] {
            let path = format!("{dir}/t.incn");
            std::fs::write(&path, src).expect("write temp");
            let res = catch(|| incan::cli::commands::format_files(&path, check, diff));
            let after = std::fs::read_to_string(&path).unwrap_or_default();
            let status = match res {
                Ok(Ok(_)) => "exit0",
                Ok(Err(_)) => "exit1",
                Err(_) => "panic",
            };
            let canonical = incan::format_source(src).unwrap_or_default();
            let file = if after == src { "unchanged" } else if after == canonical { "rewritten-formatted" } else { "rewritten-other" };
            out.case(&format!("c09 cli {kind} {check} {diff}"), &format!("{status} {file}"));
        }
    }
    // a directory with several files: every file is handled independently of the ones before it
    let kinds = [("f1.incn", unformatted), ("f2.incn", formatted.as_str()), ("f3.incn", unformatted), ("f4.incn", broken), ("f5.incn", unformatted)];
    for (check, diff) in [(false, false), (true, false), (false, true), (true, true)] {
        let d2 = format!("{dir}/multi");
        let _ = std::fs::remove_dir_all(&d2);
        std::fs::create_dir_all(&d2).expect("mkdir");
        for (name, src) in kinds {
            std::fs::write(format!("{d2}/{name}"), src).expect("write");
        }
        let res = catch(|| incan::cli::commands::format_files(&d2, check, diff));
        let status = match res {
            Ok(Ok(_)) => "exit0",
            Ok(Err(_)) => "exit1",
            Err(_) => "panic",
        };
        let mut files = Vec::new();
        for (name, src) in kinds {
            let after = std::fs::read_to_string(format!("{d2}/{name}")).unwrap_or_default();
            files.push(if after == src { "unchanged" } else if after == formatted { "rewritten-formatted" } else { "rewritten-other" });
        }
        out.case(&format!("c09 clidir {check} {diff}"), &format!("{status} {}", files.join(",")));
    }
    let _ = std::fs::remove_dir_all(&dir);
}

fn gen_import(rng: &mut Rng) -> String {
    let seg = |rng: &mut Rng| rng.pick(&["a", "b", "util", "models", "x1"]).to_string();
    let path = |rng: &mut Rng, sep: &str| {
        let n = 1 + rng.below(3);
        (0..n).map(|_| seg(rng)).collect::<Vec<_>>().join(sep)
    };
    let prefix = match rng.below(6) {
        0 => "crate::".to_string(),
        1 => "super::".repeat(1 + rng.below(3) as usize),
        2 => ".".repeat(2),
        _ => String::new(),
    };
    let items = |rng: &mut Rng| {
        let n = 1 + rng.below(3);
        (0..n)
            .map(|i| if rng.chance(1, 3) { format!("it{i} as al{i}") } else { format!("it{i}") })
            .collect::<Vec<_>>()
            .join(", ")
    };
    match rng.below(6) {
        0 => format!("import {}{}", if prefix.starts_with('.') { String::new() } else { prefix.clone() }, path(rng, "::")),
        1 => format!("import {} as al", path(rng, "::")),
        2 => format!("from {}{} import {}", prefix, path(rng, if prefix.starts_with('.') { "." } else { "::" }), items(rng)),
        3 => format!("from {} import {}", path(rng, "."), items(rng)),
        4 => format!("import rust::{}", path(rng, "::")),
        _ => format!("from rust::{} import {}", path(rng, "::"), items(rng)),
    }
}

/// Random type text: names, generic applications, tuple types of every size (the one-element `(T,)` too), function
/// types, unit.
pub fn gen_type(rng: &mut Rng, depth: u32) -> String {
    if depth == 0 || rng.chance(1, 4) {
        return rng.pick(&["int", "str", "float", "bool", "bytes", "P", "None"]).to_string();
    }
    let t = |rng: &mut Rng| gen_type(rng, depth - 1);
    match rng.below(12) {
        0 => format!("List[{}]", t(rng)),
        1 => format!("Dict[{}, {}]", t(rng), t(rng)),
        2 => format!("Set[{}]", t(rng)),
        3 => format!("Option[{}]", t(rng)),
        4 => format!("Result[{}, {}]", t(rng), t(rng)),
        5 => format!("({},)", t(rng)),
        6 => format!("({}, {})", t(rng), t(rng)),
        7 => format!("({}, {}, {})", t(rng), t(rng), t(rng)),
        8 => format!("Tuple[{}, {}]", t(rng), t(rng)),
        9 => format!("({}) -> {}", t(rng), t(rng)),
        10 => format!("({}, {}) -> {}", t(rng), t(rng), t(rng)),
        _ => format!("() -> {}", t(rng)),
    }
}

fn gen_stmt(rng: &mut Rng) -> String {
    let e = |rng: &mut Rng| {
        let d = 1 + rng.below(3) as u32;
        gen_expr(rng, d)
    };
    let op = *rng.pick(&["+=", "-=", "*=", "/=", "//=", "%="]);
    match rng.below(9) {
        0 => format!("p.x {op} {}", e(rng)),
        1 => format!("xs[{}] {op} {}", e(rng), e(rng)),
        2 => format!("a {op} {}", e(rng)),
        3 => format!("p.x = {}", e(rng)),
        4 => format!("xs[{}] = {}", e(rng), e(rng)),
        5 => format!("return {}", e(rng)),
        6 => "return".to_string(),
        7 => format!("let q: int = {}", e(rng)),
        _ => format!("mut r = {}", e(rng)),
    }
}

pub fn run(out: &mut Out, tier: &str, seed: u64) {
    let mut rng = Rng::new(seed);
    cli_cases(out, "/verif/.build/scratch");
    let n_small = if tier == "thorough" { 6_000 } else { 600 };
    for i in 0..n_small {
        let imp = gen_import(&mut rng);
        if let Some(v) = verdict(&format!("{imp}\n")) {
            let dump = if v != "ok" { enc_str(&imp) } else { "-".to_string() };
            out.case(&format!("fmt import {i} {dump}"), &v);
        }
        let st = gen_stmt(&mut rng);
        let src = format!("def g(a: int, b: int, x: float, s: str, xs: List[int], p: P) -> None:\n    {st}\n");
        if let Some(v) = verdict(&src) {
            let dump = if v != "ok" { enc_str(&st) } else { "-".to_string() };
            out.case(&format!("fmt stmt {i} {dump}"), &v);
        }
    }
    // types in every position that carries one: parameter, return, annotated binding, field, newtype, trait method
    let n_types = if tier == "thorough" { 4_000 } else { 400 };
    let mut type_parsed = 0;
    for i in 0..n_types {
        let d = 1 + rng.below(3) as u32;
        let (t1, t2) = (gen_type(&mut rng, d), gen_type(&mut rng, d));
        let src = match i % 4 {
            0 => format!("def g(p: {t1}) -> {t2}:\n    pass\n"),
            1 => format!("model M:\n    f: {t1}\n    g: {t2}\n"),
            2 => format!("type N = newtype {t1}\n\ndef h(q: N) -> None:\n    v: {t2} = w\n"),
            _ => format!("trait T:\n    def m(self, a: {t1}) -> {t2}: ...\n"),
        };
        if let Some(v) = verdict(&src) {
            type_parsed += 1;
            let dump = if v != "ok" { enc_str(&src) } else { "-".to_string() };
            out.case(&format!("fmt type {i} {dump}"), &v);
        }
    }
    out.meta(&serde_json::json!({"type_sources": n_types, "type_sources_parsed": type_parsed}));
    let mut sources = corpus::files();
    if let Ok(rd) = std::fs::read_dir("/verif/corpus/fmt") {
        let mut ps: Vec<_> = rd.flatten().map(|e| e.path()).collect();
        ps.sort();
        for p in ps {
            if let Ok(s) = std::fs::read_to_string(&p) {
                sources.push((format!("verif-corpus/{}", p.file_name().unwrap().to_string_lossy()), s));
            }
        }
    }
    let n_rand = if tier == "thorough" { 20_000 } else { 2_000 };
    for i in 0..n_rand {
        let d = 1 + rng.below(5) as u32;
        let e = gen_expr(&mut rng, d);
        let src = format!("def g(a: int, b: int, x: float, s: str, xs: List[int], p: P) -> None:\n    v = {e}\n");
        if let Some(v) = verdict(&src) {
            let dump = if v != "ok" { enc_str(&e) } else { "-".to_string() };
            out.case(&format!("fmt expr {i} {dump}"), &v);
        }
    }
    for (name, src) in sources {
        if let Some(v) = verdict(&src) {
            let dump = if v != "ok" && src.len() < 600 { enc_str(&src) } else { "-".to_string() };
            out.case(&format!("fmt file {} {dump}", name.replace(' ', "_")), &v);
        }
    }
}
