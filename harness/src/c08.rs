//! C08 (ladder tie): the real lexer+parser+formatter on generated expressions of the modelled
//! fragment, against the Lean ladder model (`parse` and `fmt` at token level).
use crate::util::{Out, Rng, catch, enc_str};
use incan_core::lang::keywords::KeywordId as K;
use incan_core::lang::operators::OperatorId as O;
use incan_core::lang::punctuation::PunctuationId as P;
use incan_syntax::ast::{BinaryOp, Declaration, Expr, Literal, Spanned, Statement, UnaryOp};
use incan_syntax::lexer::{Token, TokenKind};

fn atom_id(name: &str) -> u32 {
    match name {
        "a" => 1,
        "b" => 2,
        "c" => 3,
        "xs" => 4,
        _ => 9,
    }
}

/// Map the real tokens of an expression to the model's token names (None: outside the fragment).
fn tok_name(k: &TokenKind) -> Option<String> {
    Some(match k {
        TokenKind::Ident(n) => format!("a{}", atom_id(n)),
        TokenKind::Int(n) => format!("a{}", 100 + n),
        TokenKind::Punctuation(P::LParen) => "lparen".into(),
        TokenKind::Punctuation(P::RParen) => "rparen".into(),
        TokenKind::Punctuation(P::LBracket) => "lbrack".into(),
        TokenKind::Punctuation(P::RBracket) => "rbrack".into(),
        TokenKind::Punctuation(P::Question) => "quest".into(),
        TokenKind::Keyword(K::Or) => "or".into(),
        TokenKind::Keyword(K::And) => "and".into(),
        TokenKind::Keyword(K::Not) => "not".into(),
        TokenKind::Keyword(K::In) => "in".into(),
        TokenKind::Keyword(K::Is) => "is".into(),
        TokenKind::Keyword(K::Await) => "await".into(),
        TokenKind::Operator(O::EqEq) => "eqeq".into(),
        TokenKind::Operator(O::NotEq) => "noteq".into(),
        TokenKind::Operator(O::Lt) => "lt".into(),
        TokenKind::Operator(O::Gt) => "gt".into(),
        TokenKind::Operator(O::LtEq) => "lteq".into(),
        TokenKind::Operator(O::GtEq) => "gteq".into(),
        TokenKind::Operator(O::DotDot) => "dotdot".into(),
        TokenKind::Operator(O::DotDotEq) => "dotdoteq".into(),
        TokenKind::Operator(O::Plus) => "plus".into(),
        TokenKind::Operator(O::Minus) => "minus".into(),
        TokenKind::Operator(O::Star) => "star".into(),
        TokenKind::Operator(O::SlashSlash) => "slashslash".into(),
        TokenKind::Operator(O::Slash) => "slash".into(),
        TokenKind::Operator(O::Percent) => "percent".into(),
        TokenKind::Operator(O::StarStar) => "starstar".into(),
        _ => return None,
    })
}

fn sexpr(e: &Spanned<Expr>) -> Option<String> {
    Some(match &e.node {
        Expr::Ident(n) => format!("a{}", atom_id(n)),
        Expr::Literal(Literal::Int(n)) => format!("a{}", 100 + n),
        Expr::Paren(i) => format!("(paren {})", sexpr(i)?),
        Expr::Unary(UnaryOp::Neg, i) => format!("(neg {})", sexpr(i)?),
        Expr::Unary(UnaryOp::Not, i) => format!("(not {})", sexpr(i)?),
        Expr::Await(i) => format!("(await {})", sexpr(i)?),
        Expr::Try(i) => format!("(try {})", sexpr(i)?),
        Expr::Index(b, i) => format!("(index {} {})", sexpr(b)?, sexpr(i)?),
        Expr::Range { start, end, inclusive } => {
            format!("({} {} {})", if *inclusive { "rangeIncl" } else { "range" }, sexpr(start)?, sexpr(end)?)
        }
        Expr::Binary(l, op, r) => {
            let name = match op {
                BinaryOp::Or => "or",
                BinaryOp::And => "and",
                BinaryOp::Eq => "eq",
                BinaryOp::NotEq => "ne",
                BinaryOp::Lt => "lt",
                BinaryOp::Gt => "gt",
                BinaryOp::LtEq => "le",
                BinaryOp::GtEq => "ge",
                BinaryOp::In => "in",
                BinaryOp::NotIn => "notIn",
                BinaryOp::Is => "is",
                BinaryOp::Add => "add",
                BinaryOp::Sub => "sub",
                BinaryOp::Mul => "mul",
                BinaryOp::FloorDiv => "floorDiv",
                BinaryOp::Div => "div",
                BinaryOp::Mod => "mod",
                BinaryOp::Pow => "pow",
            };
            format!("({name} {} {})", sexpr(l)?, sexpr(r)?)
        }
        _ => return None,
    })
}

/// Tokens of the value expression of `    v = <expr>` inside the wrapper function.
fn value_tokens(toks: &[Token]) -> Option<Vec<String>> {
    // find `v` `=` and take tokens up to the following Newline
    let mut i = 0;
    while i + 1 < toks.len() {
        if matches!(&toks[i].kind, TokenKind::Ident(n) if n == "v") && matches!(toks[i + 1].kind, TokenKind::Operator(O::Eq)) {
            let mut out = Vec::new();
            for t in &toks[i + 2..] {
                if matches!(t.kind, TokenKind::Newline | TokenKind::Eof | TokenKind::Dedent) {
                    break;
                }
                out.push(tok_name(&t.kind)?);
            }
            return Some(out);
        }
        i += 1;
    }
    None
}

fn value_expr(src: &str) -> Option<(Vec<String>, Spanned<Expr>)> {
    let toks = incan_syntax::lexer::lex(src).ok()?;
    let names = value_tokens(&toks)?;
    let prog = incan_syntax::parser::parse(&toks).ok()?;
    for d in &prog.declarations {
        if let Declaration::Function(f) = &d.node {
            if let Some(st) = f.body.first() {
                if let Statement::Assignment(a) = &st.node {
                    return Some((names, a.value.clone()));
                }
            }
        }
    }
    None
}

fn gen_ladder(rng: &mut Rng, depth: u32) -> String {
    if depth == 0 || rng.chance(1, 5) {
        return rng.pick(&["a", "b", "c", "xs", "1", "2", "0"]).to_string();
    }
    let ops = ["or", "and", "==", "!=", "<", ">", "<=", ">=", "in", "not in", "is", "..", "..=", "+", "-", "*", "//", "/", "%", "**"];
    match rng.below(12) {
        0 => format!("({})", gen_ladder(rng, depth - 1)),
        1 => format!("-{}", gen_ladder(rng, depth - 1)),
        2 => format!("not {}", gen_ladder(rng, depth - 1)),
        3 => format!("await {}", gen_ladder(rng, depth - 1)),
        4 => format!("{}?", gen_ladder(rng, depth - 1)),
        5 => format!("{}[{}]", gen_ladder(rng, depth - 1), gen_ladder(rng, depth - 1)),
        _ => {
            let op = *rng.pick(&ops);
            let sp = if op == ".." || op == "..=" { if rng.chance(1, 2) { "" } else { " " } } else { " " };
            format!("{}{sp}{op}{sp}{}", gen_ladder(rng, depth - 1), gen_ladder(rng, depth - 1))
        }
    }
}

pub fn run(out: &mut Out, tier: &str, seed: u64) {
    let mut rng = Rng::new(seed);
    let n = if tier == "thorough" { 60_000 } else { 6_000 };
    let (mut parsed, mut rejected) = (0u32, 0u32);
    for _ in 0..n {
        let d = 1 + rng.below(6) as u32;
        let text = gen_ladder(&mut rng, d);
        let src = format!("def g(a: int, b: int, c: int, xs: List[int]) -> None:\n    v = {text}\n");
        let Ok(Some((toks, ast))) = catch(|| value_expr(&src)) else {
            rejected += 1;
            // the real parser rejects this text: the model must reject the same token stream
            if let Ok(Ok(tk)) = catch(|| incan_syntax::lexer::lex(&src)) {
                if let Some(names) = value_tokens(&tk) {
                    if !names.is_empty() && incan_syntax::parser::parse(&tk).is_err() {
                        out.case(&format!("c08 parse {}", names.join(",")), "reject");
                    }
                }
            }
            continue;
        };
        let Some(sx) = sexpr(&ast) else { continue };
        parsed += 1;
        // 1. parser: model parse of the real token stream must give the real tree
        out.case(&format!("c08 parse {}", toks.join(",")), &sx);
        // 2. formatter: the real formatted text, re-lexed, must be the model's fmt of the real tree
        let formatted = match catch(|| incan::format_source(&src)) {
            Ok(Ok(t)) => t,
            _ => {
                out.case(&format!("c08 fmt {}", sx.replace(' ', "_")), "format-failed");
                continue;
            }
        };
        match catch(|| value_expr(&formatted)) {
            Ok(Some((ftoks, fast))) => {
                out.case(&format!("c08 fmt {}", sx.replace(' ', "_")), &ftoks.join(","));
                // 3. oracle: the formatted text parses to the same tree
                let same = sexpr(&fast).map(|s| s == sx).unwrap_or(false);
                out.case(&format!("c08 rt {}", sx.replace(' ', "_")), if same { "same" } else { "differs" });
            }
            _ => out.case(&format!("c08 fmt {}", sx.replace(' ', "_")), "formatted-does-not-parse"),
        }
    }
    out.meta(&serde_json::json!({"generated": n, "parsed_in_fragment": parsed, "rejected_by_parser": rejected}));
    literals(out, &mut rng, tier);
}

/// The value of the first string / bytes literal token of a source text.
fn first_literal(src: &str) -> Result<(Option<String>, Option<Vec<u8>>, usize), String> {
    let toks = incan_syntax::lexer::lex(src).map_err(|e| e[0].message.clone())?;
    for t in &toks {
        match &t.kind {
            TokenKind::String(s) => return Ok((Some(s.clone()), None, t.span.end)),
            TokenKind::Bytes(b) => return Ok((None, Some(b.clone()), t.span.end)),
            _ => {}
        }
    }
    Err("no literal token".to_string())
}

/// Literal values through the real formatter and back through the real lexer (model: Syntax/Literals).
fn literals(out: &mut Out, rng: &mut Rng, tier: &str) {
    let n = if tier == "thorough" { 4000 } else { 600 };
    let bytes_latin = |b: &[u8]| -> String { b.iter().map(|x| *x as char).collect() };
    let (mut n_fb, mut n_fs, mut n_sb, mut n_ss) = (0u32, 0u32, 0u32, 0u32);
    // every single byte, then random byte strings
    let mut byte_values: Vec<Vec<u8>> = (0u16..256).map(|b| vec![b as u8]).collect();
    byte_values.push(vec![]);
    for _ in 0..n {
        let len = 1 + rng.below(8) as usize;
        byte_values.push((0..len).map(|_| match rng.below(6) { 0 => *rng.pick(&[b'\'', b'"', b'\\', b'\n', b'\t', b'\r', 0u8, 127, 255, b'x', b' ']), 1 => rng.below(32) as u8, 2 => 128 + rng.below(128) as u8, _ => 32 + rng.below(95) as u8 }).collect());
    }
    for v in &byte_values {
        let lit: String = v.iter().map(|b| format!("\\x{b:02x}")).collect();
        let src = format!("def g() -> None:\n    v = b\"{lit}\"\n");
        let req = format!("c08 fmtbytes {}", enc_str(&bytes_latin(v)));
        match catch(|| incan::format_source(&src)) {
            Ok(Ok(f)) => {
                let text = f.lines().find_map(|l| l.trim_start().strip_prefix("v = b\"").and_then(|r| r.strip_suffix('"'))).map(|x| x.to_string());
                match text {
                    Some(t) => {
                        out.case(&req, &enc_str(&t));
                        // oracle: the formatted literal is read back as the same bytes
                        let back = first_literal(&f).ok().and_then(|(_, b, _)| b);
                        out.case(&format!("c08 bytesback {}", enc_str(&bytes_latin(v))), &match back { Some(b) => enc_str(&bytes_latin(&b)), None => "relex-failed".to_string() });
                    }
                    None => out.case(&req, "literal-not-found"),
                }
            }
            _ => out.case(&req, "format-failed"),
        }
        n_fb += 1;
    }
    // string values
    let mut str_values: Vec<String> = vec![String::new(), "\"".into(), "\\".into(), "'".into(), "\n".into(), "\r\n".into(), "\t".into(), "\\n".into(), "\\\"".into(), "é\"ω".into(), "\\q".into(), "{x}".into()];
    for _ in 0..n {
        let len = 1 + rng.below(8) as usize;
        str_values.push((0..len).map(|_| match rng.below(5) { 0 => *rng.pick(&['"', '\\', '\'', '\n', '\t', '\r', 'n', 't', 'x', '0']), 1 => *rng.pick(&['é', 'ω', '🎉', '\u{7f}', '\u{1}']), _ => (32 + rng.below(95) as u8) as char }).collect());
    }
    for v in &str_values {
        // braces would start an interpolation in some literal forms; the plain string literal keeps them
        let lit: String = v.chars().map(|c| match c { '"' => "\\\"".to_string(), '\\' => "\\\\".to_string(), '\n' => "\\n".to_string(), '\r' => "\\r".to_string(), '\t' => "\\t".to_string(), c => c.to_string() }).collect();
        let src = format!("def g() -> None:\n    v = \"{lit}\"\n");
        let req = format!("c08 fmtstr {}", enc_str(v));
        match catch(|| incan::format_source(&src)) {
            Ok(Ok(f)) => {
                let text = f.lines().find_map(|l| l.trim_start().strip_prefix("v = \"").and_then(|r| r.strip_suffix('"'))).map(|x| x.to_string());
                match text {
                    Some(t) => {
                        out.case(&req, &enc_str(&t));
                        let back = first_literal(&f).ok().and_then(|(s, _, _)| s);
                        out.case(&format!("c08 strback {}", enc_str(v)), &match back { Some(b) => enc_str(&b), None => "relex-failed".to_string() });
                    }
                    None => out.case(&req, "literal-not-found"),
                }
            }
            _ => out.case(&req, "format-failed"),
        }
        n_fs += 1;
    }
    // float literal values: what the formatter writes must be read back as the same f64 (no model: oracle only)
    let mut floats: Vec<f64> = vec![0.0, 1.0, 0.1, 0.5, 3.14159, 1e10, 123456789.125, 4503599627370496.0, 9007199254740993.0, 9223372036854775807.0,
        9223372036854775808.0, 1e19, 6.0e23, 1e100, 1.0e300, 1.7976931348623157e308, 5e-324, 2.2250738585072014e-308, 1e-7, 0.000123, 1e21, 1e22, 255.0, 65536.0];
    for _ in 0..(n / 4) {
        let f = f64::from_bits(rng.next());
        if f.is_finite() && f >= 0.0 { floats.push(f); }
        floats.push((rng.below(1 << 20) as f64) * 10f64.powi(rng.below(40) as i32 - 10));
    }
    let mut n_ff = 0u32;
    for f in &floats {
        let lit = format!("{f:?}");
        let src = format!("def g() -> None:\n    v = {lit}\n");
        let lexed = |t: &str| -> Option<f64> { incan_syntax::lexer::lex(t).ok().and_then(|toks| toks.iter().find_map(|k| match &k.kind { TokenKind::Float(x) => Some(*x), _ => None })) };
        // only literals the lexer reads as this very value are in scope
        if lexed(&src).map(|x| x.to_bits()) != Some(f.to_bits()) { continue; }
        let real = match catch(|| incan::format_source(&src)) {
            Ok(Ok(t)) => match lexed(&t) { Some(x) => format!("{:x}", x.to_bits()), None => "relex-failed".to_string() },
            _ => "format-failed".to_string(),
        };
        n_ff += 1;
        out.case(&format!("c08 floatback {:x}", f.to_bits()), &real);
    }
    out.meta(&serde_json::json!({"float_values_formatted": n_ff}));
    // arbitrary literal texts through the real lexer (fidelity of the scanner models, error paths included)
    for _ in 0..n {
        let len = rng.below(9) as usize;
        let body: String = (0..len).map(|_| match rng.below(8) { 0 | 1 => '\\', 2 => *rng.pick(&['x', 'n', 't', 'r', '0', '\'', '+', 'q']), 3 => *rng.pick(&['0', '1', '9', 'a', 'f', 'A', 'F', 'g']), 4 => *rng.pick(&['é', 'ÿ', 'Ā']), 5 => if rng.chance(1, 3) { '"' } else { ' ' }, _ => (32 + rng.below(95) as u8) as char }).filter(|c| *c != '"').collect();
        let esc_quote = if rng.chance(1, 5) { "\\\"z" } else { "" };
        let text = format!("{body}{esc_quote}\"");
        // bytes
        let src = format!("x = b\"{text}\n");
        let real = match catch(|| first_literal(&src)) {
            Ok(Ok((_, Some(b), end))) => format!("ok {} {}", enc_str(&bytes_latin(&b)), src.len() - end),
            Ok(Ok(_)) => "other-token".to_string(),
            _ => "error".to_string(),
        };
        out.case(&format!("c08 scanbytes {}", enc_str(&format!("{text}\n"))), &real);
        n_sb += 1;
        // strings
        let src = format!("x = \"{text}\n");
        let real = match catch(|| first_literal(&src)) {
            Ok(Ok((Some(s), _, end))) => format!("ok {} {}", enc_str(&s), src[end..].chars().count()),
            Ok(Ok(_)) => "other-token".to_string(),
            _ => "error".to_string(),
        };
        out.case(&format!("c08 scanstr {}", enc_str(&format!("\"{text}\n"))), &real);
        n_ss += 1;
    }
    out.meta(&serde_json::json!({"bytes_values_formatted": n_fb, "string_values_formatted": n_fs, "bytes_texts_scanned": n_sb, "string_texts_scanned": n_ss}));
}
