//! C13: any legal Incan name is safe to use. (a) the keyword tables, dumped for the generated Lean file and tied
//! entry by entry; (b) programs in which one binding position carries a given name, compiled by the real pipeline
//! and rustc, run, and compared with the same program under a plain name.
use crate::runner::{self, Case, Outcome};
use crate::util::{Out, Rng};

/// Rust 2021 strict + reserved keywords (The Rust Reference, "Keywords"), transcribed independently of /repo.
pub const REFERENCE_2021: [&str; 53] = [
    "as", "break", "const", "continue", "crate", "else", "enum", "extern", "false", "fn", "for", "if", "impl", "in", "let", "loop",
    "match", "mod", "move", "mut", "pub", "ref", "return", "self", "Self", "static", "struct", "super", "trait", "true", "type",
    "unsafe", "use", "where", "while", "async", "await", "dyn", "abstract", "become", "box", "do", "final", "macro", "override",
    "priv", "typeof", "unsized", "virtual", "yield", "try", "gen_is_2024_only_placeholder", "macro_rules_is_weak_placeholder",
];

fn lexes_as_ident(name: &str) -> bool {
    match incan_syntax::lexer::lex(&format!("{name}\n")) {
        Ok(toks) => toks.iter().any(|t| matches!(&t.kind, incan_syntax::lexer::TokenKind::Ident(s) if s == name)),
        Err(_) => false,
    }
}

/// JSON with the real tables (consumed by the check to regenerate lean/IncanModel/Generated/Keywords.lean).
pub fn tables() -> serde_json::Value {
    let rust: Vec<&str> = incan_core::lang::rust_keywords::RUST_KEYWORDS.to_vec();
    let mut cands: Vec<&str> = rust.clone();
    for k in ["self", "Self"] {
        if !cands.contains(&k) {
            cands.push(k);
        }
    }
    let accepted: Vec<&str> = cands.iter().copied().filter(|k| lexes_as_ident(k)).collect();
    serde_json::json!({"rust_keywords": rust, "rust_keywords_legal_in_incan": accepted})
}

pub const POSITIONS: [(&str, &str); 40] = [
    // names the compiler itself gives a meaning to elsewhere: a user method `run` with a keyword `port` (the web
    // surface's `app.run(port=…)`), under the plain and under every other name
    ("runportmethod", "class Job:\n    n: int\n\n    def run(self, port: int, NAME: int) -> int:\n        return self.n + port * 10 + NAME\n\ndef main() -> None:\n    j = Job(n=1)\n    println(f\"{j.run(port=3, NAME=2)}\")\n"),
    ("eqparam", "class P:\n    x: int\n\n    def __eq__(self, NAME: P) -> bool:\n        return self.x == NAME.x\n\ndef main() -> None:\n    println(P(x=1) == P(x=1))\n    println(P(x=1) == P(x=2))\n"),
    ("variantpayload", "enum E:\n    NAME(int, int)\n    Other\n\ndef main() -> None:\n    e = E.NAME(3, 4)\n    match e:\n        E.NAME(a, b) => println(f\"{a + b}\")\n        E.Other => println(\"other\")\n"),
    ("variantpayloadbind", "enum E:\n    V(int)\n    Other\n\ndef main() -> None:\n    e = E.V(3)\n    match e:\n        E.V(NAME) => println(f\"{NAME + 1}\")\n        E.Other => println(\"other\")\n"),
    ("variantpayloadfn", "enum E:\n    NAME(int)\n    Other\n\ndef mk(n: int) -> E:\n    return E.NAME(n)\n\ndef val(e: E) -> int:\n    match e:\n        E.NAME(v) => return v\n        E.Other => return 0\n\ndef main() -> None:\n    println(f\"{val(mk(5))}\")\n"),
    ("methodnamedarg", "model M:\n    a: int\n\n    def add(self, NAME: int) -> int:\n        return self.a + NAME\n\ndef main() -> None:\n    m = M(a=3)\n    println(f\"{m.add(NAME=2)}\")\n"),
    ("closuretwoparams", "def main() -> None:\n    f = (a, NAME) => a * 10 + NAME\n    println(f\"{f(2, 3)}\")\n"),
    ("constinconst", "const NAME: int = 3\nconst OTHER: int = NAME + 1\n\ndef main() -> None:\n    println(f\"{OTHER}\")\n"),
    ("fieldchain", "model Inner:\n    NAME: int\n\nmodel Outer:\n    inner: Inner\n\ndef main() -> None:\n    o = Outer(inner=Inner(NAME=4))\n    println(f\"{o.inner.NAME + 1}\")\n"),
    ("passedon", "def g(NAME: int) -> int:\n    return NAME * 2\n\ndef f(NAME: int) -> int:\n    return g(NAME) + g(NAME=NAME)\n\ndef main() -> None:\n    println(f\"{f(3)}\")\n"),
    ("somepayload", "def f(NAME: int) -> Option[int]:\n    return Some(NAME)\n\ndef main() -> None:\n    match f(4):\n        Some(v) => println(f\"{v}\")\n        None => println(\"none\")\n"),
    ("local", "def main() -> None:\n    NAME = 5\n    println(f\"{NAME}\")\n"),
    ("mutlocal", "def main() -> None:\n    mut NAME = 5\n    NAME += 2\n    NAME = NAME * 2\n    println(f\"{NAME}\")\n"),
    ("param", "def f(NAME: int) -> int:\n    return NAME + 1\n\ndef main() -> None:\n    println(f\"{f(2)}\")\n"),
    ("namedarg", "def f(NAME: int) -> int:\n    return NAME + 1\n\ndef main() -> None:\n    println(f\"{f(NAME=2)}\")\n"),
    ("function", "def NAME(x: int) -> int:\n    return x + 1\n\ndef main() -> None:\n    println(f\"{NAME(2)}\")\n"),
    ("field", "model M:\n    NAME: int\n\ndef main() -> None:\n    m = M(NAME=3)\n    println(f\"{m.NAME}\")\n"),
    ("fieldassign", "model M:\n    NAME: int\n\ndef main() -> None:\n    mut m = M(NAME=3)\n    m.NAME = 4\n    v = m.NAME\n    println(f\"{v}\")\n"),
    ("method", "model M:\n    a: int\n\n    def NAME(self) -> int:\n        return self.a + 1\n\ndef main() -> None:\n    m = M(a=3)\n    println(f\"{m.NAME()}\")\n"),
    ("selffield", "model M:\n    NAME: int\n\n    def get(self) -> int:\n        return self.NAME + 1\n\ndef main() -> None:\n    m = M(NAME=3)\n    println(f\"{m.get()}\")\n"),
    ("modelname", "model NAME:\n    a: int\n\ndef main() -> None:\n    m = NAME(a=3)\n    println(f\"{m.a}\")\n"),
    ("classname", "class NAME:\n    a: int\n\n    def get(self) -> int:\n        return self.a\n\ndef main() -> None:\n    m = NAME(a=3)\n    v = m.get()\n    println(f\"{v}\")\n"),
    ("forvar", "def main() -> None:\n    for NAME in range(3):\n        println(f\"{NAME}\")\n"),
    ("closureparam", "def main() -> None:\n    f = (NAME) => NAME + 1\n    println(f\"{f(2)}\")\n"),
    ("matchbind", "def main() -> None:\n    o = Some(4)\n    match o:\n        Some(NAME) => println(f\"{NAME}\")\n        None => println(\"none\")\n"),
    ("comprvar", "def main() -> None:\n    xs = [1, 2, 3]\n    ys = [NAME * 2 for NAME in xs]\n    println(f\"{ys[2]}\")\n"),
    ("enumname", "enum NAME:\n    A\n    B\n\ndef main() -> None:\n    e = NAME.A\n    match e:\n        NAME.A => println(\"a\")\n        NAME.B => println(\"b\")\n"),
    ("variant", "enum E:\n    NAME\n    Other\n\ndef main() -> None:\n    e = E.NAME\n    match e:\n        E.NAME => println(\"first\")\n        E.Other => println(\"other\")\n"),
    ("const", "const NAME: int = 3\n\ndef main() -> None:\n    println(f\"{NAME}\")\n"),
    ("newtypename", "type NAME = newtype int\n\ndef main() -> None:\n    x = NAME(3)\n    v = x.0\n    println(f\"{v}\")\n"),
    ("traitname", "trait NAME:\n    def hi(self) -> int: ...\n\nmodel M with NAME:\n    a: int\n\n    def hi(self) -> int:\n        return self.a\n\ndef main() -> None:\n    m = M(a=2)\n    println(f\"{m.hi()}\")\n"),
    ("traitmethod", "trait T:\n    def NAME(self) -> int: ...\n\nmodel M with T:\n    a: int\n\n    def NAME(self) -> int:\n        return self.a\n\ndef main() -> None:\n    m = M(a=2)\n    println(f\"{m.NAME()}\")\n"),
    ("indexassign", "def main() -> None:\n    mut NAME = [1, 2, 3]\n    NAME[0] = 7\n    println(f\"{NAME[0]}\")\n"),
    ("staticmethod", "model M:\n    a: int\n\n    def NAME(x: int) -> int:\n        return x + 1\n\ndef main() -> None:\n    println(f\"{M.NAME(2)}\")\n"),
    // positions whose output names the identifier itself (reflection, JSON keys): compared after renaming back
    ("reflectfields", "model M:\n    a: int\n    NAME: int\n\ndef main() -> None:\n    m = M(a=1, NAME=3)\n    for fld in m.__fields__():\n        println(f\"field {fld}\")\n"),
    ("reflectclass", "class NAME:\n    a: int\n\n    def get(self) -> int:\n        return self.a\n\ndef main() -> None:\n    m = NAME(a=3)\n    println(m.__class_name__())\n"),
    ("jsonkey", "@derive(Serialize)\nmodel M:\n    a: int\n    NAME: int\n\ndef main() -> None:\n    m = M(a=1, NAME=3)\n    println(json_stringify(m))\n"),
    // a type under this name built with keyword arguments out of declaration order and with a defaulted field left out
    ("modelkwargs", "model NAME:\n    x: int\n    y: int = 7\n\ndef main() -> None:\n    p = NAME(y=2, x=1)\n    q = NAME(x=5)\n    println(f\"{p.x} {p.y} {q.x} {q.y}\")\n"),
    ("classkwargs", "class NAME:\n    x: int\n    y: int = 7\n\n    def sum(self) -> int:\n        return self.x * 10 + self.y\n\ndef main() -> None:\n    p = NAME(y=2, x=1)\n    q = NAME(x=5)\n    println(f\"{p.sum()} {q.sum()}\")\n"),
    ("whilevar", "def main() -> None:\n    mut NAME = 0\n    while NAME < 3:\n        NAME = NAME + 1\n    println(f\"{NAME}\")\n"),
];

/// Names that collide with what the generated code itself relies on.
pub const CLASH_NAMES: [&str; 8] = ["__parts", "__args", "String", "Vec", "HashMap", "i64", "incan_stdlib", "Self"];

/// Names of builtin collection/string methods and builtin functions: legal as names of the user's own methods,
/// fields and variables (a different namespace in Incan).
pub const BUILTIN_LIKE: [&str; 28] = [
    "get", "insert", "remove", "append", "pop", "swap", "contains", "upper", "lower", "strip", "split", "replace", "join", "keys",
    "values", "count", "index", "startswith", "endswith", "reserve", "len", "sum", "min", "max", "str", "int", "abs", "items",
];

/// Rename sweep: in every program of the corpus and of the repository that the pipeline accepts, each declared
/// lower-case identifier in turn is renamed (all its occurrences, token-wise) to a Rust keyword that is a legal
/// Incan identifier; if the checker still accepts the program, code generation must still succeed (the generated
/// text is parsed by syn inside the pipeline: an identifier emitted without its `r#` does not get through).
fn rename_sweep(out: &mut Out, tier: &str, legal_kw: &[String]) {
    use incan_syntax::lexer::TokenKind as T;
    use incan_core::lang::keywords::KeywordId as K;
    use incan_core::lang::punctuation::PunctuationId as P;
    use incan_core::lang::operators::OperatorId as O;
    let mut files: Vec<String> = Vec::new();
    for dir in ["/verif/corpus/c03", "/verif/corpus/fmt", "/repo/examples", "/repo/tests/fixtures/valid", "/repo/tests/codegen_snapshots"] {
        let mut stack = vec![std::path::PathBuf::from(dir)];
        while let Some(d) = stack.pop() {
            if let Ok(rd) = std::fs::read_dir(&d) {
                for e in rd.filter_map(|e| e.ok()) {
                    let p = e.path();
                    if p.is_dir() { stack.push(p); } else if p.extension().map(|x| x == "incn").unwrap_or(false) { files.push(p.to_string_lossy().to_string()); }
                }
            }
        }
    }
    files.sort();
    let per_file = if tier == "thorough" { 40 } else { 5 };
    let kws: Vec<&String> = legal_kw.iter().filter(|k| !["type", "Self", "self", "crate", "super"].contains(&k.as_str())).collect();
    let (mut n_base, mut n_cases, mut n_check_rejects, mut kw_i) = (0u32, 0u32, 0u32, 0usize);
    for f in &files {
        let Ok(src) = std::fs::read_to_string(f) else { continue };
        if !matches!(crate::util::catch(|| runner::compile(&src)), Ok(Ok(_))) { continue; }
        let Ok(toks) = incan_syntax::lexer::lex(&src) else { continue };
        n_base += 1;
        // declared lower-case names
        let mut names: Vec<String> = Vec::new();
        for i in 0..toks.len() {
            let T::Ident(name) = &toks[i].kind else { continue };
            if !name.chars().next().map(|c| c.is_lowercase() || c == '_').unwrap_or(false) || name == "self" || name == "main" || name.starts_with("__") { continue; }
            let prev = if i > 0 { Some(&toks[i - 1].kind) } else { None };
            let next = toks.get(i + 1).map(|t| &t.kind);
            let declared = matches!(prev, Some(T::Keyword(K::Def | K::For | K::Mut | K::Let | K::Const)))
                || (matches!(next, Some(T::Punctuation(P::Colon))) && matches!(prev, Some(T::Punctuation(P::LParen | P::Comma) | T::Newline | T::Indent | T::Dedent)))
                || (matches!(next, Some(T::Operator(O::Eq))) && matches!(prev, Some(T::Newline | T::Indent | T::Dedent)));
            if declared && !names.contains(name) { names.push(name.clone()); }
        }
        let tag = f.trim_start_matches("/repo/").trim_start_matches("/verif/").replace('/', ":");
        for name in names.iter().take(per_file) {
            let kw = kws[kw_i % kws.len()].as_str();
            kw_i += 1;
            // rebuild the text, replacing the identifier tokens (and whole words inside f-string tokens)
            let mut text = String::new();
            let mut at = 0usize;
            for t in &toks {
                if t.span.start < at || t.span.end > src.len() { continue; }
                match &t.kind {
                    T::Ident(n) if n == name => { text.push_str(&src[at..t.span.start]); text.push_str(kw); at = t.span.end; }
                    T::FString(_) => {
                        text.push_str(&src[at..t.span.start]);
                        let body = &src[t.span.start..t.span.end];
                        let mut o = String::new();
                        let bytes: Vec<char> = body.chars().collect();
                        let mut j = 0;
                        while j < bytes.len() {
                            let is_word = |c: char| c.is_alphanumeric() || c == '_';
                            if is_word(bytes[j]) && (j == 0 || !is_word(bytes[j - 1])) {
                                let mut k2 = j;
                                while k2 < bytes.len() && is_word(bytes[k2]) { k2 += 1; }
                                let w: String = bytes[j..k2].iter().collect();
                                if w == *name { o.push_str(kw); } else { o.push_str(&w); }
                                j = k2;
                            } else { o.push(bytes[j]); j += 1; }
                        }
                        text.push_str(&o);
                        at = t.span.end;
                    }
                    _ => {}
                }
            }
            text.push_str(&src[at..]);
            let real = match crate::util::catch(|| runner::compile(&text)) {
                Ok(Ok(_)) => "generated".to_string(),
                Ok(Err((stage, _))) if stage == "check" || stage == "parse" || stage == "lex" => { n_check_rejects += 1; continue; }
                Ok(Err((stage, msg))) => format!("{stage}-error {}", msg.replace(' ', "_").chars().take(100).collect::<String>()),
                Err(m) => format!("panic {}", m.replace(' ', "_").chars().take(100).collect::<String>()),
            };
            n_cases += 1;
            out.case(&format!("c13 rename {tag} {name} {kw}"), &real);
        }
    }
    out.meta(&serde_json::json!({"rename_sweep_programs": n_base, "rename_cases": n_cases, "renamed_but_rejected_by_front_end": n_check_rejects}));
}

pub fn run(out: &mut Out, tier: &str, seed: u64, _scratch: &str) {
    let mut rng = Rng::new(seed);
    let t = tables();
    out.meta(&serde_json::json!({"tables": t}));
    // (a) keyword recognition
    let rust: Vec<String> = incan_core::lang::rust_keywords::RUST_KEYWORDS.iter().map(|s| s.to_string()).collect();
    let mut probes: Vec<String> = rust.clone();
    probes.extend(REFERENCE_2021.iter().map(|s| s.to_string()));
    for k in &rust {
        probes.push(format!("{k}_"));
        probes.push(format!("_{k}"));
        probes.push(k.to_uppercase());
        if k.len() > 1 {
            probes.push(k[..k.len() - 1].to_string());
        }
    }
    let letters = "abcdefghijklmnopqrstuvwxyz_";
    for _ in 0..200 {
        let n = 1 + rng.below(7) as usize;
        probes.push((0..n).map(|_| letters.as_bytes()[rng.below(letters.len() as u64) as usize] as char).collect());
    }
    for p in &probes {
        out.case(&format!("c13 iskw {p}"), if incan_core::lang::rust_keywords::is_keyword(p) { "keyword" } else { "plain" });
        out.case(&format!("c13 legal {p}"), if lexes_as_ident(p) { "ident" } else { "reserved" });
    }
    // (a') the spelling the emitter gives a local variable / a field / a function of that name
    {
        let mut names: Vec<String> = rust.clone();
        names.extend(["zeta", "loop_", "_loop", "r_loop", "Zeta_9"].iter().map(|s| s.to_string()));
        for n in names.iter().filter(|n| lexes_as_ident(n) && n.as_str() != "Self" && n.as_str() != "self") {
            let src = format!("model M:\n    {n}: int\n\ndef main() -> None:\n    {n} = 41\n    m = M({n}=42)\n    println(f\"{{{n}}} {{m.{n}}}\")\n");
            let real = match runner::compile(&src) {
                Err((stage, msg)) => format!("rejected:{stage}:{}", msg.replace(' ', "_")),
                Ok(rust_src) => {
                    // `let <spelling> = 41;` and the struct field `pub <spelling>: i64`
                    let spell = |before: &str, after: &str| -> Option<String> {
                        rust_src.lines().find_map(|l| {
                            let t = l.trim();
                            t.strip_prefix(before).and_then(|r| r.strip_suffix(after)).map(|x| x.trim().to_string())
                        })
                    };
                    let field = rust_src.lines().find_map(|l| l.trim().strip_suffix(": i64,").map(|x| x.trim_start_matches("pub ").trim().to_string()));
                    match (spell("let ", " = 41;"), field) {
                        (Some(a), Some(b)) if a == b => match a.strip_prefix("r#") {
                            Some(r) => format!("raw {r}"),
                            None => format!("plain {a}"),
                        },
                        (a, b) => format!("spellings-differ-or-missing {a:?} {b:?}"),
                    }
                }
            };
            out.case(&format!("c13 tok {n}"), &real);
        }
    }
    // (a'') sibling names stay distinct: the name, name_, _name, r_name and NAME bound side by side
    let mut sib_jobs: Vec<String> = Vec::new();
    {
        let mut ks: Vec<String> = rust.iter().filter(|k| lexes_as_ident(k) && k.as_str() != "Self" && k.as_str() != "self").cloned().collect();
        ks.push("zeta".to_string());
        if tier != "thorough" {
            // a seeded third of them per run
            let off = (seed % 3) as usize;
            ks = ks.into_iter().enumerate().filter(|(i, k)| i % 3 == off || k == "zeta").map(|(_, k)| k).collect();
        }
        sib_jobs = ks;
    }
    let sib_cases: Vec<Case> = sib_jobs
        .iter()
        .map(|k| {
            let up = if k.to_uppercase() != *k && lexes_as_ident(&k.to_uppercase()) { k.to_uppercase() } else { format!("{k}_up") };
            let src = format!(
                "model M:\n    {k}: int\n    {k}_: int\n    _{k}: int\n    r_{k}: int\n\ndef {k}_fn(x: int) -> int:\n    return x + 1\n\ndef f({k}: int, {k}_: int) -> int:\n    return {k} * 10 + {k}_\n\ndef main() -> None:\n    {k} = 1\n    {k}_ = 2\n    _{k} = 3\n    r_{k} = 4\n    {up} = 5\n    m = M({k}=6, {k}_=7, _{k}=8, r_{k}=9)\n    println(f\"{{{k}}} {{{k}_}} {{_{k}}} {{r_{k}}} {{{up}}} {{m.{k}}} {{m.{k}_}} {{m._{k}}} {{m.r_{k}}} {{f(1, 2)}} {{f({k}_=3, {k}=4)}} {{{k}_fn(1)}}\")\n"
            );
            Case { name: String::new(), source: src }
        })
        .collect();
    let sib_out = runner::run_batch("/verif/.build/batch/c13s", "/verif/.build/batch-target", &sib_cases);
    for (k, o) in sib_jobs.iter().zip(sib_out.iter()) {
        out.case(&format!("c13 siblings {k}"), &runner::show(o));
    }
    let _ = std::fs::remove_dir_all("/verif/.build/batch/c13s");
    // (b) programs
    let legal_kw: Vec<String> = t["rust_keywords_legal_in_incan"].as_array().map(|a| a.iter().filter_map(|v| v.as_str().map(|s| s.to_string())).collect()).unwrap_or_default();
    let legal_kw: Vec<String> = legal_kw.into_iter().filter(|k| k != "Self").collect();
    rename_sweep(out, tier, &legal_kw);
    let mut jobs: Vec<(String, String)> = Vec::new(); // (position, name)
    for (pos, _) in POSITIONS {
        jobs.push((pos.to_string(), "zeta".to_string()));
        if tier == "thorough" {
            for k in &legal_kw {
                jobs.push((pos.to_string(), k.clone()));
            }
        } else {
            for _ in 0..3 {
                jobs.push((pos.to_string(), rng.pick(&legal_kw).clone()));
            }
        }
        jobs.push((pos.to_string(), "Zeta_9".to_string()));
    }
    if tier != "thorough" {
        for k in &legal_kw {
            for _ in 0..2 {
                jobs.push((POSITIONS[rng.below(POSITIONS.len() as u64) as usize].0.to_string(), k.clone()));
            }
        }
    }
    for n in CLASH_NAMES {
        for pos in ["local", "const", "function", "modelname", "param", "field"] {
            jobs.push((pos.to_string(), n.to_string()));
        }
    }
    for (i, n) in BUILTIN_LIKE.iter().enumerate() {
        for (j, pos) in ["method", "staticmethod", "traitmethod", "field", "local", "param", "selffield"].iter().enumerate() {
            if tier == "thorough" || pos.starts_with("method") || (i + j + seed as usize) % 3 == 0 {
                jobs.push((pos.to_string(), n.to_string()));
            }
        }
    }
    jobs.sort();
    jobs.dedup();
    let cases: Vec<Case> = jobs
        .iter()
        .map(|(pos, name)| {
            let src = POSITIONS.iter().find(|(p, _)| p == pos).map(|(_, s)| s.replace("NAME", name)).unwrap_or_default();
            Case { name: String::new(), source: src }
        })
        .collect();
    let outcomes = runner::run_batch("/verif/.build/batch/c13", "/verif/.build/batch-target", &cases);
    let base: std::collections::HashMap<String, String> = jobs
        .iter()
        .zip(outcomes.iter())
        .filter(|((_, n), _)| n == "zeta")
        .map(|((p, _), o)| (p.clone(), runner::show(o)))
        .collect();
    let mut hist: std::collections::BTreeMap<String, u64> = std::collections::BTreeMap::new();
    for ((pos, name), o) in jobs.iter().zip(outcomes.iter()) {
        let shown = runner::show(o);
        let b = base.get(pos).cloned().unwrap_or_default();
        let baseline_ok = matches!(outcomes[jobs.iter().position(|(p, n)| p == pos && n == "zeta").unwrap_or(0)], Outcome::Ran { code: 0, .. });
        let real = if !baseline_ok {
            format!("baseline-broken {b}")
        } else if shown == b || (["reflectfields", "reflectclass", "jsonkey"].contains(&pos.as_str()) && shown.replace(name.as_str(), "zeta") == b) {
            "same".to_string()
        } else {
            format!("differs {shown}")
        };
        *hist.entry(real.split(' ').next().unwrap_or("").to_string()).or_insert(0) += 1;
        out.case(&format!("c13 prog {pos} {name}"), &real);
    }
    let _ = std::fs::remove_dir_all("/verif/.build/batch/c13");
    // multi-file positions: an item of another module under this name, and this name as the alias of an import
    // (built as real two-file projects; a few names per run, all of them in the thorough tier)
    {
        let mut names: Vec<String> = vec!["zeta".to_string()];
        let pool: Vec<&String> = legal_kw.iter().filter(|k| !["type", "Self", "self", "crate", "super"].contains(&k.as_str())).collect();
        let take = if tier == "thorough" { pool.len() } else { 3 };
        for i in 0..take {
            let k = pool[(seed as usize + i * 7) % pool.len()].clone();
            if !names.contains(&k) { names.push(k); }
        }
        let mut results: Vec<(String, String, String)> = Vec::new(); // (position, name, shown)
        for name in &names {
            for pos in ["importitem", "importalias"] {
                let root = format!("/verif/.build/batch/c13proj");
                let _ = std::fs::remove_dir_all(&root);
                std::fs::create_dir_all(format!("{root}/src")).expect("mkdir");
                let (helper, main) = if pos == "importitem" {
                    (format!("pub def {name}(n: int) -> int:\n    return n + 1\n"), format!("from helper import {name}\n\ndef main() -> None:\n    println({name}(2))\n"))
                } else {
                    ("pub def plain(n: int) -> int:\n    return n + 1\n".to_string(), format!("from helper import plain as {name}\n\ndef main() -> None:\n    println({name}(2))\n"))
                };
                std::fs::write(format!("{root}/src/helper.incn"), helper).expect("w");
                std::fs::write(format!("{root}/src/main.incn"), main).expect("w");
                let o = runner::build_project(&format!("{root}/src/main.incn"), &format!("{root}/out"), "/verif/.build/batch-target-proj");
                results.push((pos.to_string(), name.clone(), runner::show(&o)));
                let _ = std::fs::remove_dir_all(&root);
            }
        }
        for (pos, name, shown) in &results {
            let b = results.iter().find(|(p, n, _)| p == pos && n == "zeta").map(|x| x.2.clone()).unwrap_or_default();
            let real = if !b.starts_with("ran code=0") { format!("baseline-broken {b}") } else if *shown == b { "same".to_string() } else { format!("differs {shown}") };
            *hist.entry(real.split(' ').next().unwrap_or("").to_string()).or_insert(0) += 1;
            out.case(&format!("c13 prog {pos} {name}"), &real);
        }
    }
    out.meta(&serde_json::json!({"programs": cases.len(), "positions": POSITIONS.len(), "keywords_legal_in_incan": legal_kw, "outcome_histogram": hist, "probes": probes.len()}));
}
