//! C20: derived JSON / equality / ordering / hashing / clone on generated model declarations and values.
//! Every program goes through the real pipeline, rustc (serde derives included) and is executed.
use crate::runner::{self, Case, Outcome};
use crate::util::{Out, Rng, catch, enc_str};

#[derive(Clone, Debug)]
pub enum Ty { Int, Bool, Str, Float, Opt(Box<Ty>), List(Box<Ty>), Dict(Box<Ty>), Struct(String, Vec<(String, Ty)>) }
#[derive(Clone, Debug)]
pub enum Val { Int(i64), Bool(bool), Str(String), Float(f64), None_, Some_(Box<Val>), List(Vec<Val>), Dict(Vec<(String, Val)>), Struct(Vec<(String, Val)>) }

fn ty_src(t: &Ty) -> String {
    match t {
        Ty::Int => "int".into(), Ty::Bool => "bool".into(), Ty::Str => "str".into(), Ty::Float => "float".into(),
        Ty::Opt(x) => format!("Option[{}]", ty_src(x)), Ty::List(x) => format!("List[{}]", ty_src(x)),
        Ty::Dict(x) => format!("Dict[str, {}]", ty_src(x)), Ty::Struct(n, _) => n.clone(),
    }
}
fn str_lit(s: &str) -> String {
    let mut o = String::from("\"");
    for c in s.chars() {
        match c { '"' => o.push_str("\\\""), '\\' => o.push_str("\\\\"), '\n' => o.push_str("\\n"), '\t' => o.push_str("\\t"), '\r' => o.push_str("\\r"), c => o.push(c) }
    }
    o.push('"');
    o
}
/// Source of a value expression; collections that would be ambiguous when empty are bound through typed locals
/// (`pre` collects `name: T = ...` lines).
fn val_src(v: &Val, t: &Ty, pre: &mut Vec<String>, ctr: &mut u32) -> String {
    val_src_in(v, t, pre, ctr, false)
}

/// `nested`: inside a list/dict literal, where a bare string literal is emitted as `&str` (a C02 defect): go
/// through the identity helper `mk(x: str) -> str` there.
fn val_src_in(v: &Val, t: &Ty, pre: &mut Vec<String>, ctr: &mut u32, nested: bool) -> String {
    match (v, t) {
        (Val::Int(n), _) => if *n < 0 { format!("-{}", -n) } else { n.to_string() },
        (Val::Bool(b), _) => if *b { "True".into() } else { "False".into() },
        (Val::Str(s), _) => if nested { format!("mk({})", str_lit(s)) } else { str_lit(s) },
        (Val::Float(f), _) => format!("{f:?}"),
        (Val::None_, _) => { *ctr += 1; let n = format!("tmp{ctr}"); pre.push(format!("{n}: {} = None", ty_src(t))); n }
        (Val::Some_(x), Ty::Opt(u)) => format!("Some({})", val_src_in(x, u, pre, ctr, nested)),
        (Val::List(xs), Ty::List(u)) => {
            let items: Vec<String> = xs.iter().map(|x| val_src_in(x, u, pre, ctr, true)).collect();
            if xs.is_empty() {
                *ctr += 1;
                let n = format!("tmp{ctr}");
                pre.push(format!("{n}: {} = []", ty_src(t)));
                n
            } else {
                format!("[{}]", items.join(", "))
            }
        }
        (Val::Dict(kvs), Ty::Dict(u)) => {
            if kvs.is_empty() {
                *ctr += 1;
                let n = format!("tmp{ctr}");
                pre.push(format!("{n}: {} = {{}}", ty_src(t)));
                n
            } else {
                let items: Vec<String> = kvs.iter().map(|(k, x)| format!("mk({}): {}", str_lit(k), val_src_in(x, u, pre, ctr, true))).collect();
                format!("{{{}}}", items.join(", "))
            }
        }
        (Val::Struct(fs), Ty::Struct(name, fts)) => {
            let args: Vec<String> = fs.iter().zip(fts.iter()).map(|((k, x), (_, ft))| format!("{k}={}", val_src_in(x, ft, pre, ctr, nested))).collect();
            format!("{name}({})", args.join(", "))
        }
        _ => "None".into(),
    }
}

fn enc_ty(t: &Ty, out: &mut Vec<String>) {
    match t {
        Ty::Int => out.push("i".into()), Ty::Bool => out.push("b".into()), Ty::Str => out.push("s".into()), Ty::Float => out.push("f".into()),
        Ty::Opt(x) => { out.push("O".into()); enc_ty(x, out) }
        Ty::List(x) => { out.push("L".into()); enc_ty(x, out) }
        Ty::Dict(x) => { out.push("D".into()); enc_ty(x, out) }
        Ty::Struct(_, fs) => { out.push(format!("S{}", fs.len())); for (k, ft) in fs { out.push(format!("N{}", enc_str(k))); enc_ty(ft, out); } }
    }
}
fn enc_val(v: &Val, out: &mut Vec<String>) {
    match v {
        Val::Int(n) => out.push(format!("i{n}")), Val::Bool(b) => out.push(if *b { "bT".into() } else { "bF".into() }),
        Val::Str(s) => out.push(format!("s{}", enc_str(s))),
        Val::Float(f) => out.push(format!("f{:016x}:{}", f.to_bits(), serde_json::to_string(f).unwrap_or_default())),
        Val::None_ => out.push("n".into()),
        Val::Some_(x) => { out.push("o".into()); enc_val(x, out) }
        Val::List(xs) => { out.push(format!("l{}", xs.len())); for x in xs { enc_val(x, out) } }
        Val::Dict(kvs) => { out.push(format!("d{}", kvs.len())); for (k, x) in kvs { out.push(format!("k{}", enc_str(k))); enc_val(x, out) } }
        Val::Struct(fs) => { out.push(format!("S{}", fs.len())); for (k, x) in fs { out.push(format!("N{}", enc_str(k))); enc_val(x, out) } }
    }
}
fn e_ty(t: &Ty) -> String { let mut v = Vec::new(); enc_ty(t, &mut v); v.join(";") }
fn e_val(x: &Val) -> String { let mut v = Vec::new(); enc_val(x, &mut v); v.join(";") }

const STRS: [&str; 10] = ["", "x", "hello world", "é", "q\"uote", "back\\slash", "line\nbreak", "tab\there", "ωμέγα 🎉", "cr\rlf"];
const NAMES: [&str; 12] = ["id", "name", "value", "tags", "count", "flag", "ref", "loop", "data", "note", "kind", "size"];

/// kind: 0 = anything JSON-able, 1 = orderable/hashable (no float, no dict)
fn gen_ty(r: &mut Rng, depth: u32, kind: u32, inner: &Ty) -> Ty {
    let n = if depth == 0 { 4 } else { 9 };
    loop {
        let t = match r.below(n) {
            0 => Ty::Int, 1 => Ty::Bool, 2 => Ty::Str, 3 => Ty::Float,
            4 => Ty::Opt(Box::new(gen_ty(r, 0, kind, inner))),
            5 => Ty::List(Box::new(gen_ty(r, depth - 1, kind, inner))),
            6 => Ty::Dict(Box::new(gen_ty(r, 0, kind, inner))),
            7 => inner.clone(),
            _ => Ty::Opt(Box::new(inner.clone())),
        };
        let bad = kind == 1 && has(&t, &|x| matches!(x, Ty::Float | Ty::Dict(_)));
        // Option[List[..]] / nested Option are outside the documented mapping
        if !bad { return t; }
    }
}
fn has(t: &Ty, p: &dyn Fn(&Ty) -> bool) -> bool {
    if p(t) { return true; }
    match t { Ty::Opt(x) | Ty::List(x) | Ty::Dict(x) => has(x, p), Ty::Struct(_, fs) => fs.iter().any(|(_, ft)| has(ft, p)), _ => false }
}
fn gen_val(r: &mut Rng, t: &Ty) -> Val {
    match t {
        Ty::Int => Val::Int(*r.pick(&[0i64, 1, -1, 7, -42, 1000000007, -9007199254740993, 9223372036854775807, 3, 2])),
        Ty::Bool => Val::Bool(r.chance(1, 2)),
        Ty::Str => Val::Str(r.pick(&STRS).to_string()),
        Ty::Float => Val::Float(*r.pick(&[0.5f64, -2.25, 3.0, 0.001, 1e21, -0.0, 123456.789])),
        Ty::Opt(x) => if r.chance(1, 3) { Val::None_ } else { Val::Some_(Box::new(gen_val(r, x))) },
        Ty::List(x) => { let n = r.below(4); Val::List((0..n).map(|_| gen_val(r, x)).collect()) }
        Ty::Dict(x) => if r.chance(1, 2) { Val::Dict(vec![]) } else { Val::Dict(vec![(r.pick(&["k", "a b", "é"]).to_string(), gen_val(r, x))]) },
        Ty::Struct(_, fs) => Val::Struct(fs.iter().map(|(k, ft)| (k.clone(), gen_val(r, ft))).collect()),
    }
}
/// a value close to `v`: equal, or differing in one (late) field
fn gen_near(r: &mut Rng, t: &Ty, v: &Val) -> Val {
    match (t, v) {
        (Ty::Struct(_, fts), Val::Struct(fs)) if r.chance(3, 4) && !fs.is_empty() => {
            let i = r.below(fs.len() as u64) as usize;
            let mut out = fs.clone();
            out[i].1 = gen_val(r, &fts[i].1);
            Val::Struct(out)
        }
        _ => if r.chance(1, 3) { v.clone() } else { gen_val(r, t) },
    }
}

fn model_decl(name: &str, derives: &str, fts: &[(String, Ty)], is_class: bool) -> String {
    model_decl_d(name, derives, fts, &vec![None; fts.len()], is_class)
}

/// Literal source of a default value (only simple field types get defaults).
fn default_lit(v: &Val) -> String {
    match v {
        Val::Int(n) => if *n < 0 { format!("-{}", -n) } else { n.to_string() },
        Val::Bool(b) => if *b { "True".into() } else { "False".into() },
        Val::Str(s) => str_lit(s),
        Val::Float(f) => format!("{f:?}"),
        _ => "None".into(),
    }
}

/// Defaults for a third of the simple-typed fields (anywhere in the declaration, also before required fields).
fn gen_defaults(r: &mut Rng, fts: &[(String, Ty)]) -> Vec<Option<Val>> {
    fts.iter().map(|(_, t)| match t {
        Ty::Int | Ty::Bool | Ty::Str => if r.chance(1, 3) { Some(gen_val(r, t)) } else { None },
        _ => None,
    }).map(|d| match d { Some(Val::Int(n)) if n.abs() > 1_000_000_000_000 => Some(Val::Int(7)), other => other }).collect()
}

/// Constructor call for the top-level struct that leaves out the fields listed in `omit` (they have defaults).
fn ctor_src(v: &Val, t: &Ty, omit: &[bool], pre: &mut Vec<String>, ctr: &mut u32) -> String {
    match (v, t) {
        (Val::Struct(fs), Ty::Struct(name, fts)) => {
            let args: Vec<String> = fs.iter().zip(fts.iter()).enumerate().filter(|(i, _)| !omit[*i]).map(|(_, ((k, x), (_, ft)))| format!("{k}={}", val_src(x, ft, pre, ctr))).collect();
            format!("{name}({})", args.join(", "))
        }
        _ => val_src(v, t, pre, ctr),
    }
}

fn model_decl_d(name: &str, derives: &str, fts: &[(String, Ty)], defaults: &[Option<Val>], is_class: bool) -> String {
    let mut s = String::new();
    if !derives.is_empty() { s.push_str(&format!("@derive({derives})\n")); }
    s.push_str(&format!("{} {name}:\n", if is_class { "class" } else { "model" }));
    for ((k, t), d) in fts.iter().zip(defaults.iter()) {
        match d {
            Some(v) => s.push_str(&format!("    {k}: {} = {}\n", ty_src(t), default_lit(v))),
            None => s.push_str(&format!("    {k}: {}\n", ty_src(t))),
        }
    }
    if is_class { s.push_str("\n    def tag(self) -> int:\n        return 1\n"); }
    s.push('\n');
    s
}

/// The fields of `M` spread over a chain of classes `B0 <- B1 <- M` (`splits` = number of fields per level, root
/// first); the flattened declaration order is the order of `fts`.
fn chain_decl(derives: &str, fts: &[(String, Ty)], splits: &[usize]) -> String {
    let mut s = String::new();
    let mut at = 0usize;
    for (li, n) in splits.iter().enumerate() {
        let name = if li + 1 == splits.len() { "M".to_string() } else { format!("B{li}") };
        if !derives.is_empty() { s.push_str(&format!("@derive({derives})\n")); }
        if li == 0 { s.push_str(&format!("class {name}:\n")); } else { s.push_str(&format!("class {name} extends B{}:\n", li - 1)); }
        for (k, t) in &fts[at..at + n] { s.push_str(&format!("    {k}: {}\n", ty_src(t))); }
        s.push_str(&format!("\n    def tag(self) -> int:\n        return {li}\n\n"));
        at += n;
    }
    s
}
/// A composition of `n` into 2 or 3 positive parts (None when n < 2).
fn gen_splits(r: &mut Rng, n: usize) -> Option<Vec<usize>> {
    if n < 2 { return None; }
    let parts = if n >= 3 && r.chance(1, 2) { 3 } else { 2 };
    let mut cuts: Vec<usize> = Vec::new();
    while cuts.len() < parts - 1 {
        let c = 1 + r.below(n as u64 - 1) as usize;
        if !cuts.contains(&c) { cuts.push(c); }
    }
    cuts.sort();
    let mut out = Vec::new();
    let mut prev = 0;
    for c in cuts { out.push(c - prev); prev = c; }
    out.push(n - prev);
    Some(out)
}

const MK: &str = "def mk(x: str) -> str:\n    return x\n\n";

fn gen_struct(r: &mut Rng, kind: u32, float_ok: bool) -> (Ty, Ty) {
    let inner_fs: Vec<(String, Ty)> = vec![("x".to_string(), Ty::Int), ("t".to_string(), Ty::Str)];
    let inner = Ty::Struct("Inner".into(), inner_fs);
    let n = 1 + r.below(5) as usize;
    let mut names: Vec<&str> = NAMES.to_vec();
    let mut fs = Vec::new();
    for _ in 0..n {
        let i = r.below(names.len() as u64) as usize;
        let name = names.remove(i);
        let mut t = gen_ty(r, 1, kind, &inner);
        if !float_ok { while has(&t, &|x| matches!(x, Ty::Float)) { t = gen_ty(r, 1, kind, &inner); } }
        fs.push((name.to_string(), t));
    }
    (Ty::Struct("M".into(), fs), inner)
}

fn canon(o: &Outcome) -> String {
    match o {
        Outcome::Ran { stdout, code: 0, panic: None } => format!("ok {}", stdout.trim_end_matches('\n').replace('\n', "\u{1}")),
        other => runner::show(other),
    }
}

pub fn run(out: &mut Out, tier: &str, seed: u64, _scratch: &str) {
    let mut rng = Rng::new(seed);
    let n_json = if tier == "thorough" { 260 } else { 40 };
    let n_cmp = if tier == "thorough" { 200 } else { 30 };
    let n_hash = if tier == "thorough" { 120 } else { 16 };
    let n_clone = if tier == "thorough" { 60 } else { 8 };
    let mut reqs: Vec<String> = Vec::new();
    let mut cases: Vec<Case> = Vec::new();
    let inner_decl = |d: &str| model_decl("Inner", d, &[("x".to_string(), Ty::Int), ("t".to_string(), Ty::Str)], false);
    // JSON: stringify + round trip
    for i in 0..n_json {
        let float_ok = i % 3 == 0;
        let (t, _) = gen_struct(&mut rng, 0, float_ok);
        let Ty::Struct(_, fts) = &t else { continue };
        let v = gen_val(&mut rng, &t);
        let eqd = if has(&t, &|x| matches!(x, Ty::Float)) { "PartialEq" } else { "Eq" };
        let is_class = i % 5 == 4;
        let mut src = format!("{MK}{}", inner_decl(&format!("Serialize, Deserialize, {eqd}")));
        let splits = if i % 4 == 3 { gen_splits(&mut rng, fts.len()) } else { None };
        // field defaults (also before required fields); the constructor call leaves half of the defaulted fields out
        let defaults = if splits.is_none() { gen_defaults(&mut rng, fts) } else { vec![None; fts.len()] };
        let omit: Vec<bool> = defaults.iter().map(|d| d.is_some() && rng.chance(1, 2)).collect();
        let v = match v { Val::Struct(fs) => Val::Struct(fs.into_iter().enumerate().map(|(i, (k, x))| if omit[i] { (k, defaults[i].clone().unwrap()) } else { (k, x) }).collect()), other => other };
        match &splits {
            Some(sp) => src.push_str(&chain_decl(&format!("Serialize, Deserialize, {eqd}"), fts, sp)),
            None => src.push_str(&model_decl_d("M", &format!("Serialize, Deserialize, {eqd}"), fts, &defaults, is_class)),
        }
        let mut pre = Vec::new();
        let mut ctr = 0;
        let vs = ctor_src(&v, &t, &omit, &mut pre, &mut ctr);
        src.push_str("def main() -> None:\n");
        for p in &pre { src.push_str(&format!("    {p}\n")); }
        src.push_str(&format!("    v = {vs}\n    j = json_stringify(v)\n    println(j)\n    match M.from_json(j):\n        Ok(w) => println(f\"{{w == v}}\")\n        Err(e) => println(e)\n"));
        reqs.push(format!("c20 json {} {}{}", e_ty(&t), e_val(&v), splits.map(|sp| format!(" chain:{}", sp.iter().map(|x| x.to_string()).collect::<Vec<_>>().join(","))).unwrap_or_default()));
        cases.push(Case { name: String::new(), source: src });
    }
    // comparison / ordering
    for i in 0..n_cmp {
        let (t, _) = gen_struct(&mut rng, 1, false);
        let Ty::Struct(_, fts) = &t else { continue };
        let v = gen_val(&mut rng, &t);
        let w = gen_near(&mut rng, &t, &v);
        let derives = ["Ord", "Eq, Ord", "PartialOrd, Ord", "Eq, PartialEq, PartialOrd, Ord"][i % 4];
        let mut src = format!("{MK}{}", inner_decl(derives));
        let splits = if i % 3 == 2 { gen_splits(&mut rng, fts.len()) } else { None };
        let defaults = if splits.is_none() { gen_defaults(&mut rng, fts) } else { vec![None; fts.len()] };
        let omit: Vec<bool> = defaults.iter().map(|d| d.is_some() && rng.chance(1, 2)).collect();
        let v = match v { Val::Struct(fs) => Val::Struct(fs.into_iter().enumerate().map(|(i, (k, x))| if omit[i] { (k, defaults[i].clone().unwrap()) } else { (k, x) }).collect()), other => other };
        match &splits {
            Some(sp) => src.push_str(&chain_decl(derives, fts, sp)),
            None => src.push_str(&model_decl_d("M", derives, fts, &defaults, false)),
        }
        let mut pre = Vec::new();
        let mut ctr = 0;
        let vs = ctor_src(&v, &t, &omit, &mut pre, &mut ctr);
        let ws = val_src(&w, &t, &mut pre, &mut ctr);
        src.push_str("def main() -> None:\n");
        for p in &pre { src.push_str(&format!("    {p}\n")); }
        src.push_str(&format!("    v = {vs}\n    w = {ws}\n    println(f\"{{v == w}} {{v != w}} {{v < w}} {{v <= w}} {{v > w}} {{v >= w}}\")\n"));
        reqs.push(format!("c20 cmp {} {} {}{}", e_ty(&t), e_val(&v), e_val(&w), splits.map(|sp| format!(" chain:{}", sp.iter().map(|x| x.to_string()).collect::<Vec<_>>().join(","))).unwrap_or_default()));
        cases.push(Case { name: String::new(), source: src });
    }
    // hashing: dict keys
    for _ in 0..n_hash {
        let (t, _) = gen_struct(&mut rng, 1, false);
        let Ty::Struct(_, fts) = &t else { continue };
        let v = gen_val(&mut rng, &t);
        let w = gen_near(&mut rng, &t, &v);
        let mut src = format!("{MK}{}", inner_decl("Eq, Hash"));
        src.push_str(&model_decl("M", "Eq, Hash", fts, false));
        let mut pre = Vec::new();
        let mut ctr = 0;
        let vs = val_src(&v, &t, &mut pre, &mut ctr);
        let ws = val_src(&w, &t, &mut pre, &mut ctr);
        let us = val_src(&v, &t, &mut pre, &mut ctr);
        src.push_str("def main() -> None:\n");
        for p in &pre { src.push_str(&format!("    {p}\n")); }
        src.push_str(&format!("    v = {vs}\n    w = {ws}\n    u = {us}\n    mut d: Dict[M, int] = {{}}\n    d[v] = 1\n    d[w] = 2\n    n = len(d)\n    hu = u in d\n    println(f\"{{n}} {{hu}}\")\n"));
        reqs.push(format!("c20 hash {} {} {}", e_ty(&t), e_val(&v), e_val(&w)));
        cases.push(Case { name: String::new(), source: src });
    }
    // clone: equal to and independent of the original
    for _ in 0..n_clone {
        let fts = vec![("n".to_string(), Ty::Int), ("xs".to_string(), Ty::List(Box::new(Ty::Int))), ("s".to_string(), Ty::Str)];
        let t = Ty::Struct("M".into(), fts.clone());
        let v = gen_val(&mut rng, &t);
        let mut src = model_decl("M", "Eq", &fts, rng.chance(1, 2));
        let mut pre = Vec::new();
        let mut ctr = 0;
        let vs = val_src(&v, &t, &mut pre, &mut ctr);
        let ss = val_src(&v, &t, &mut pre, &mut ctr);
        src.push_str("def main() -> None:\n");
        for p in &pre { src.push_str(&format!("    {p}\n")); }
        src.push_str(&format!("    mut a = {vs}\n    snapshot = {ss}\n    c = a.clone()\n    before = c == a\n    a.n = a.n + 1\n    a.xs.append(99)\n    println(f\"{{before}} {{c == snapshot}} {{a == c}}\")\n"));
        reqs.push(format!("c20 clone {} {}", e_ty(&t), e_val(&v)));
        cases.push(Case { name: String::new(), source: src });
    }
    // every field defaulted, `@derive(Default)`, constructed without arguments: the declared defaults are the value
    let n_alld = if tier == "thorough" { 40 } else { 8 };
    for i in 0..n_alld {
        let n = 1 + rng.below(4) as usize;
        let mut names: Vec<&str> = NAMES.to_vec();
        let mut fts: Vec<(String, Ty)> = Vec::new();
        let mut dvals: Vec<Option<Val>> = Vec::new();
        for _ in 0..n {
            let name = names.remove(rng.below(names.len() as u64) as usize);
            let t = *rng.pick(&[0u8, 1, 2]);
            let ty = match t { 0 => Ty::Int, 1 => Ty::Bool, _ => Ty::Str };
            // defaults that differ from Rust's Default::default() values
            let v = match ty { Ty::Int => Val::Int(*rng.pick(&[14i64, -3, 8080])), Ty::Bool => Val::Bool(true), _ => Val::Str(rng.pick(&["dark", "x y", "é"]).to_string()) };
            fts.push((name.to_string(), ty));
            dvals.push(Some(v));
        }
        let t = Ty::Struct("M".into(), fts.clone());
        let v = Val::Struct(fts.iter().zip(dvals.iter()).map(|((k, _), d)| (k.clone(), d.clone().unwrap())).collect());
        let is_class = i % 2 == 1;
        let mut src = String::from(MK);
        src.push_str(&model_decl_d("M", "Default, Serialize, Deserialize, Eq", &fts, &dvals, is_class));
        src.push_str("def main() -> None:\n    v = M()\n    j = json_stringify(v)\n    println(j)\n    match M.from_json(j):\n        Ok(w) => println(f\"{w == v}\")\n        Err(e) => println(e)\n");
        reqs.push(format!("c20 json {} {}", e_ty(&t), e_val(&v)));
        cases.push(Case { name: String::new(), source: src });
    }
    let outs = runner::run_batch("/verif/.build/batch/c20", "/verif/.build/batch-target", &cases);
    let mut hist: std::collections::BTreeMap<String, u64> = std::collections::BTreeMap::new();
    for (req, o) in reqs.iter().zip(outs.iter()) {
        let real = canon(o);
        *hist.entry(real.split(|c| c == ' ' || c == ':').next().unwrap_or("").to_string()).or_insert(0) += 1;
        out.case(req, &real);
    }
    let _ = std::fs::remove_dir_all("/verif/.build/batch/c20");
    // derive lists: what #[derive(..)] does the emitter write for each written subset?
    let all = ["Eq", "PartialEq", "Ord", "PartialOrd", "Hash", "Serialize", "Deserialize", "Copy"];
    let n_sub = if tier == "thorough" { 256 } else { 64 };
    for k in 0..n_sub {
        let mask = if tier == "thorough" { k as u64 } else { rng.below(256) };
        let mut written: Vec<&str> = all.iter().enumerate().filter(|(i, _)| mask >> i & 1 == 1).map(|(_, d)| *d).collect();
        // a seeded rotation so that the order in which the user wrote them varies
        let rot = if written.is_empty() { 0 } else { rng.below(written.len() as u64) as usize };
        written.rotate_left(rot);
        let src = format!("{}model M:\n    a: int\n\ndef main() -> None:\n    pass\n", if written.is_empty() { String::new() } else { format!("@derive({})\n", written.join(", ")) });
        let real = catch(|| match runner::compile(&src) {
            Ok(rust) => {
                let one = rust.replace('\n', " ");
                match one.find("#[derive(") {
                    Some(p) => {
                        let rest = &one[p + 9..];
                        let end = rest.find(")]").unwrap_or(0);
                        rest[..end].split(',').map(|x| x.trim().trim_start_matches("serde::").to_string()).filter(|x| !x.is_empty()).collect::<Vec<_>>().join(",")
                    }
                    None => "no-derive".to_string(),
                }
            }
            Err((stage, m)) => format!("rejected:{stage}:{}", m.replace(' ', "_").chars().take(60).collect::<String>()),
        })
        .unwrap_or_else(|m| format!("panic {m}"));
        out.case(&format!("c20 derives {}", if written.is_empty() { "-".to_string() } else { written.join(",") }), &real);
    }
    out.meta(&serde_json::json!({"programs": cases.len(), "outcome_histogram": hist, "json": n_json, "cmp": n_cmp, "hash": n_hash, "clone": n_clone, "derive_subsets": n_sub}));
}
