//! C03: ill-typed programs are rejected with a located diagnostic.
//! Base programs (corpus/c03/*.incn, accepted by the checker) are broken by ONE local edit at every position the
//! independent AST walker below finds: (a) every expression position is replaced by an unknown name, (b) at the
//! head of every statement list one rule-violating statement is inserted. The real checker must reject the edited
//! program with an error located on the edited lines.
use crate::util::{Out, Rng, catch};
use incan_syntax::ast::*;

struct ExprPos { label: String, start: usize, end: usize, path: String }
struct BlockPos { label: String, first_stmt_start: usize, in_loop: bool, returns: String, func: String }

struct Walk { exprs: Vec<ExprPos>, blocks: Vec<BlockPos>, ret: String, func: String, path: Vec<String> }

impl Walk {
    fn expr(&mut self, e: &Spanned<Expr>, label: &str) {
        self.path.push(label.to_string());
        self.exprs.push(ExprPos { label: label.to_string(), start: e.span.start, end: e.span.end, path: self.path.join(">") });
        self.expr_children(e);
        self.path.pop();
    }
    fn expr_children(&mut self, e: &Spanned<Expr>) {
        match &e.node {
            Expr::Ident(_) | Expr::Literal(_) | Expr::SelfExpr => {}
            Expr::Binary(l, op, r) => {
                let k = match op { BinaryOp::And | BinaryOp::Or => "logic", BinaryOp::In | BinaryOp::NotIn | BinaryOp::Is => "member", BinaryOp::Eq | BinaryOp::NotEq | BinaryOp::Lt | BinaryOp::Gt | BinaryOp::LtEq | BinaryOp::GtEq => "cmp", _ => "arith" };
                self.expr(l, &format!("Binary.{k}.left"));
                self.expr(r, &format!("Binary.{k}.right"));
            }
            Expr::Unary(_, x) => self.expr(x, "Unary.operand"),
            Expr::Call(f, args) => {
                self.expr(f, "Call.callee");
                for a in args { match a { CallArg::Positional(x) => self.expr(x, "Call.arg"), CallArg::Named(_, x) => self.expr(x, "Call.namedarg") } }
            }
            Expr::Index(b, i) => { self.expr(b, "Index.base"); self.expr(i, "Index.index"); }
            Expr::Slice(b, s) => {
                self.expr(b, "Slice.base");
                if let Some(x) = &s.start { self.expr(x, "Slice.start"); }
                if let Some(x) = &s.end { self.expr(x, "Slice.end"); }
                if let Some(x) = &s.step { self.expr(x, "Slice.step"); }
            }
            Expr::Field(b, _) => self.expr(b, "Field.base"),
            Expr::MethodCall(b, _, args) => {
                self.expr(b, "MethodCall.receiver");
                for a in args { match a { CallArg::Positional(x) => self.expr(x, "MethodCall.arg"), CallArg::Named(_, x) => self.expr(x, "MethodCall.namedarg") } }
            }
            Expr::Await(x) => self.expr(x, "Await.inner"),
            Expr::Try(x) => self.expr(x, "Try.inner"),
            Expr::Match(s, arms) => {
                self.expr(s, "Match.subject");
                for arm in arms {
                    if let Some(g) = &arm.node.guard { self.expr(g, "Match.guard"); }
                    match &arm.node.body {
                        MatchBody::Expr(x) => self.expr(x, "Match.armexpr"),
                        MatchBody::Block(b) => self.block(b, "Match.armblock", false),
                    }
                }
            }
            Expr::If(ie) => {
                self.expr(&ie.condition, "IfExpr.cond");
                self.block(&ie.then_body, "IfExpr.then", false);
                if let Some(b) = &ie.else_body { self.block(b, "IfExpr.else", false); }
            }
            Expr::ListComp(c) => {
                self.expr(&c.expr, "ListComp.expr");
                self.expr(&c.iter, "ListComp.iter");
                if let Some(f) = &c.filter { self.expr(f, "ListComp.filter"); }
            }
            Expr::DictComp(c) => {
                self.expr(&c.key, "DictComp.key");
                self.expr(&c.value, "DictComp.value");
                self.expr(&c.iter, "DictComp.iter");
                if let Some(f) = &c.filter { self.expr(f, "DictComp.filter"); }
            }
            Expr::Closure(_, body) => self.expr(body, "Closure.body"),
            Expr::Tuple(xs) => for x in xs { self.expr(x, "Tuple.elem") },
            Expr::List(xs) => for x in xs { self.expr(x, "List.elem") },
            Expr::Set(xs) => for x in xs { self.expr(x, "Set.elem") },
            Expr::Dict(kvs) => for (k, v) in kvs { self.expr(k, "Dict.key"); self.expr(v, "Dict.value"); },
            Expr::Paren(x) => self.expr(x, "Paren.inner"),
            Expr::Constructor(_, args) => for a in args { match a { CallArg::Positional(x) => self.expr(x, "Constructor.arg"), CallArg::Named(_, x) => self.expr(x, "Constructor.namedarg") } },
            // spans of interpolated expressions are relative to the f-string, not to the file: no text edit is possible
            // through them; f-string interpolation is exercised by the statement rule `unknown-name-in-fstring`
            Expr::FString(_) => {}
            Expr::Yield(x) => if let Some(x) = x { self.expr(x, "Yield.inner"); },
            Expr::Range { start, end, .. } => { self.expr(start, "Range.start"); self.expr(end, "Range.end"); }
        }
    }
    fn block(&mut self, b: &[Spanned<Statement>], label: &str, in_loop: bool) {
        // function / method bodies of the corpus start with the two prelude bindings (imm_x, opt_v): insert after them
        let skip = if label == "Function.body" || label.ends_with(".method") { 2 } else { 0 };
        if let Some(first) = b.get(skip) {
            self.blocks.push(BlockPos { label: label.to_string(), first_stmt_start: first.span.start, in_loop, returns: self.ret.clone(), func: self.func.clone() });
        }
        self.path.push(label.to_string());
        for s in b { self.stmt(s, in_loop); }
        self.path.pop();
    }
    fn stmt(&mut self, s: &Spanned<Statement>, in_loop: bool) {
        match &s.node {
            Statement::Assignment(a) => self.expr(&a.value, "Assignment.value"),
            Statement::FieldAssignment(a) => { self.expr(&a.object, "FieldAssignment.object"); self.expr(&a.value, "FieldAssignment.value"); }
            Statement::IndexAssignment(a) => { self.expr(&a.object, "IndexAssignment.object"); self.expr(&a.index, "IndexAssignment.index"); self.expr(&a.value, "IndexAssignment.value"); }
            Statement::Return(x) => if let Some(x) = x { self.expr(x, "Return.value"); },
            Statement::If(i) => {
                self.expr(&i.condition, "If.cond");
                self.block(&i.then_body, "If.then", in_loop);
                for (c, b) in &i.elif_branches { self.expr(c, "If.elifcond"); self.block(b, "If.elif", in_loop); }
                if let Some(b) = &i.else_body { self.block(b, "If.else", in_loop); }
            }
            Statement::While(w) => { self.expr(&w.condition, "While.cond"); self.block(&w.body, "While.body", true); }
            Statement::For(f) => { self.expr(&f.iter, "For.iter"); self.block(&f.body, "For.body", true); }
            Statement::Expr(x) => self.expr(x, "ExprStmt"),
            Statement::CompoundAssignment(c) => self.expr(&c.value, "CompoundAssignment.value"),
            Statement::TupleUnpack(t) => self.expr(&t.value, "TupleUnpack.value"),
            Statement::TupleAssign(t) => { for x in &t.targets { self.expr(x, "TupleAssign.target"); } self.expr(&t.value, "TupleAssign.value"); }
            Statement::ChainedAssignment(c) => self.expr(&c.value, "ChainedAssignment.value"),
            Statement::Pass | Statement::Break | Statement::Continue => {}
        }
    }
    fn methods(&mut self, ms: &[Spanned<MethodDecl>], owner: &str) {
        for m in ms {
            if let Some(b) = &m.node.body {
                self.ret = format!("{}", m.node.return_type.node);
                self.block(b, &format!("{owner}.method"), false);
            }
        }
    }
    fn program(&mut self, p: &Program) {
        for d in &p.declarations {
            match &d.node {
                Declaration::Function(f) => { self.ret = format!("{}", f.return_type.node); self.func = f.name.clone(); self.block(&f.body, "Function.body", false); self.func.clear(); }
                Declaration::Model(m) => {
                    for fd in &m.fields { if let Some(x) = &fd.node.default { self.expr(x, "Model.fielddefault"); } }
                    self.methods(&m.methods, "Model");
                }
                Declaration::Class(c) => {
                    for fd in &c.fields { if let Some(x) = &fd.node.default { self.expr(x, "Class.fielddefault"); } }
                    self.methods(&c.methods, "Class");
                }
                Declaration::Trait(t) => self.methods(&t.methods, "Trait"),
                Declaration::Newtype(n) => self.methods(&n.methods, "Newtype"),
                Declaration::Const(c) => self.expr(&c.value, "Const.value"),
                _ => {}
            }
        }
    }
}

/// Every expression position of a program: (path of walker labels from the owning body down to the position,
/// start, end). Used by other checks that sweep positions (C15's feature scanners).
pub fn expr_positions(src: &str) -> Option<Vec<(String, usize, usize)>> {
    let toks = incan_syntax::lexer::lex(src).ok()?;
    let ast = incan_syntax::parser::parse(&toks).ok()?;
    let mut w = Walk { exprs: vec![], blocks: vec![], ret: String::new(), func: String::new(), path: vec![] };
    w.program(&ast);
    Some(w.exprs.into_iter().map(|e| (e.path, e.start, e.end)).collect())
}

fn check(source: &str) -> Result<Result<(), Vec<(String, usize, usize)>>, String> {
    let toks = incan_syntax::lexer::lex(source).map_err(|e| format!("lex:{}", e[0].message))?;
    let ast = incan_syntax::parser::parse(&toks).map_err(|e| format!("parse:{}", e[0].message))?;
    let mut tc = incan::frontend::typechecker::TypeChecker::new();
    Ok(tc.check_program(&ast).map_err(|errs| errs.iter().map(|e| (e.message.clone(), e.span.start, e.span.end)).collect()))
}

fn line_bounds(src: &str, off: usize) -> (usize, usize) {
    let start = src[..off].rfind('\n').map(|p| p + 1).unwrap_or(0);
    let end = src[off..].find('\n').map(|p| off + p).unwrap_or(src.len());
    (start, end)
}

/// Rule-violating statements (one per documented rule that can be broken by inserting a statement).
/// `{I}` = indentation. Every base function starts with `imm_x = 0` and `opt_v = Some(1)`; Pt, Color, helper_ok,
/// takes_int are declared by the base program.
pub const RULES: [(&str, &str); 39] = [
    ("list-slice-end-not-int", "{I}zz_xs = [1, 2, 3]\n{I}zz_t = zz_xs[:\"two\"]\n"),
    ("list-slice-start-not-int", "{I}zz_xs = [1, 2, 3]\n{I}zz_t = zz_xs[\"one\":]\n"),
    ("list-slice-step-not-int", "{I}zz_xs = [1, 2, 3]\n{I}zz_t = zz_xs[::\"two\"]\n"),
    ("list-slice-both-end-bad", "{I}zz_xs = [1, 2, 3]\n{I}zz_t = zz_xs[0:\"two\"]\n"),
    ("str-slice-end-not-int", "{I}zz_s = \"hello\"\n{I}zz_t = zz_s[:\"two\"]\n"),
    ("str-slice-start-not-int", "{I}zz_s = \"hello\"\n{I}zz_t = zz_s[1.5:]\n"),
    ("list-index-not-int", "{I}zz_xs = [1, 2, 3]\n{I}zz_t = zz_xs[\"one\"]\n"),
    ("str-index-not-int", "{I}zz_s = \"hello\"\n{I}zz_t = zz_s[True]\n"),
    ("if-condition-not-bool", "{I}if imm_x:\n{I}    pass\n"),
    ("while-condition-not-bool", "{I}while \"s\":\n{I}    pass\n"),
    ("not-on-non-bool", "{I}zz_t = not imm_x\n"),
    ("and-on-non-bool", "{I}zz_t = imm_x and True\n"),
    ("for-over-non-iterable", "{I}for zz_i in imm_x:\n{I}    pass\n"),
    ("ctor-no-arguments", "{I}zz_tmp = Pt()\n"),
    ("ctor-wrong-field-type", "{I}zz_tmp = Pt(x=1, y=\"two\")\n"),
    ("unknown-name", "{I}zz_tmp = zz_unknown_name + 1\n"),
    ("unknown-name-in-fstring", "{I}zz_tmp = f\"v={zz_unknown_name + 1}\"\n"),
    ("pass-wrong-type", "{I}zz_tmp = takes_int(\"text\")\n"),
    ("pass-too-few", "{I}zz_tmp = takes_int()\n"),
    ("pass-too-many", "{I}zz_tmp = takes_int(1, 2)\n"),
    ("pass-unknown-keyword", "{I}zz_tmp = takes_int(v=1, zz=2)\n"),
    ("assign-wrong-type", "{I}zz_tmp: int = \"text\"\n"),
    ("reassign-immutable", "{I}imm_x = 5\n"),
    ("compound-immutable", "{I}imm_x += 1\n"),
    ("return-wrong-type", "{I}return (1, 2, 3)\n"),
    ("return-nothing", "{I}return\n"),
    ("mutating-method-on-immutable", "{I}zz_imm_box = Box(w=1, h=2)\n{I}zz_imm_box.grow(1)\n"),
    ("try-in-closure-in-non-result-fn", "{I}zz_f = (zz_k) => helper_ok(zz_k)?\n"),
    ("unknown-name-in-closure", "{I}zz_f = (zz_k) => zz_k + zz_unknown_name\n"),
    ("unknown-name-in-comprehension", "{I}zz_l = [zz_unknown_name + zz_i for zz_i in range(2)]\n"),
    ("unknown-name-in-comprehension-filter", "{I}zz_l = [zz_i for zz_i in range(2) if zz_unknown_name > zz_i]\n"),
    ("field-assign-immutable", "{I}zz_imm_pt = Pt(x=1, y=2)\n{I}zz_imm_pt.x = 5\n"),
    ("try-on-non-result", "{I}zz_tmp = imm_x?\n"),
    ("try-in-non-result-fn", "{I}zz_tmp = helper_ok(1)?\n"),
    ("match-missing-variant", "{I}match opt_v:\n{I}    Some(zz_q) =>\n{I}        pass\n"),
    ("match-missing-enum-variant", "{I}match Color.Red:\n{I}    Color.Red =>\n{I}        pass\n{I}    Color.Green =>\n{I}        pass\n"),
    ("ctor-missing-field", "{I}zz_tmp = Pt(x=1)\n"),
    ("ctor-unknown-field", "{I}zz_tmp = Pt(x=1, y=2, zz=3)\n"),
    ("ctor-duplicate-field", "{I}zz_tmp = Pt(x=1, x=2, y=3)\n"),
];
pub const KNOWN_RULES: [(&str, &str); 0] = [];

pub fn run(out: &mut Out, tier: &str, seed: u64, _scratch: &str) {
    let mut rng = Rng::new(seed);
    let mut files: Vec<String> = std::fs::read_dir("/verif/corpus/c03").map(|d| d.filter_map(|e| e.ok()).map(|e| e.path().to_string_lossy().to_string()).filter(|p| p.ends_with(".incn")).collect()).unwrap_or_default();
    files.sort();
    // the repository's own programs widen the set of contexts for the expression edits (they do not carry the
    // prelude bindings the statement rules need, so only stream (a) runs on them)
    let mut extra: Vec<String> = Vec::new();
    for dir in ["/repo/examples", "/repo/tests/fixtures/valid", "/repo/tests/codegen_snapshots"] {
        let mut stack = vec![std::path::PathBuf::from(dir)];
        while let Some(d) = stack.pop() {
            if let Ok(rd) = std::fs::read_dir(&d) {
                for e in rd.filter_map(|e| e.ok()) {
                    let p = e.path();
                    if p.is_dir() { stack.push(p); } else if p.extension().map(|x| x == "incn").unwrap_or(false) { extra.push(p.to_string_lossy().to_string()); }
                }
            }
        }
    }
    extra.sort();
    let n_own = files.len();
    files.extend(extra);
    let mut n_expr = 0u64;
    let mut n_stmt = 0u64;
    let mut labels: std::collections::BTreeMap<String, u64> = std::collections::BTreeMap::new();
    for (fi, file) in files.iter().enumerate() {
        let base = std::fs::read_to_string(file).expect("read");
        let own = fi < n_own;
        let fname_owned = if own { file.rsplit('/').next().unwrap_or("").to_string() } else { file.trim_start_matches("/repo/").replace('/', ":") };
        let fname = fname_owned.as_str();
        match check(&base) {
            Ok(Ok(())) => if own { out.case(&format!("c03 base {fname}"), "accepted") },
            Ok(Err(errs)) => { if own { out.case(&format!("c03 base {fname}"), &format!("rejected {}", errs[0].0.replace(' ', "_"))); } continue; }
            Err(e) => { if own { out.case(&format!("c03 base {fname}"), &format!("unparsable {}", e.replace(' ', "_"))); } continue; }
        }
        let toks = incan_syntax::lexer::lex(&base).expect("lex");
        let ast = incan_syntax::parser::parse(&toks).expect("parse");
        let mut w = Walk { exprs: vec![], blocks: vec![], ret: String::new(), func: String::new(), path: vec![] };
        w.program(&ast);
        // (a) every expression position replaced by an unknown name
        let quick_cap = if own { 400 } else { 40 };
        let mut idxs: Vec<usize> = (0..w.exprs.len()).collect();
        if tier != "thorough" && idxs.len() > quick_cap {
            // keep one of every label, then a seeded sample
            let mut seen = std::collections::BTreeSet::new();
            let mut keep = Vec::new();
            for &i in &idxs { if seen.insert(w.exprs[i].label.clone()) { keep.push(i); } }
            while keep.len() < quick_cap { keep.push(idxs[rng.below(idxs.len() as u64) as usize]); }
            keep.sort(); keep.dedup();
            idxs = keep;
        }
        for (k, &i) in idxs.iter().enumerate() {
            let p = &w.exprs[i];
            if p.end <= p.start || p.end > base.len() { continue; }
            let name = "zz_unknown_name";
            // block-bodied expressions (match, if) carry the trailing line break in their span
            let mut end = p.end;
            while end > p.start && base.as_bytes()[end - 1].is_ascii_whitespace() { end -= 1; }
            let edited = format!("{}{}{}", &base[..p.start], name, &base[end..]);
            let (ls, le) = (p.start, p.start + name.len());
            let verdict = match catch(|| check(&edited)) {
                Err(m) => format!("panic {m}"),
                Ok(Err(_)) => "edit-unparsable".to_string(),
                Ok(Ok(Ok(()))) => {
                    let (a, b) = line_bounds(&edited, ls);
                    format!("accepted [{}]", edited[a..b].trim().replace(' ', "_"))
                }
                Ok(Ok(Err(errs))) => {
                    if errs.iter().any(|(_, s, e)| *s < le && *e > ls) { "rejected-located".to_string() }
                    else {
                        let (a, b) = line_bounds(&edited, ls);
                        if errs.iter().any(|(_, s, e)| *s < b && *e > a) { "rejected-same-line".to_string() } else { format!("rejected-elsewhere {} [{}]", errs[0].0.replace(' ', "_"), edited[a..b].trim().replace(' ', "_")) }
                    }
                }
            };
            *labels.entry(p.label.clone()).or_insert(0) += 1;
            n_expr += 1;
            out.case(&format!("c03 expr {fname} {} {k}", p.label), &verdict);
        }
        // (b) one rule-violating statement at the head of every statement list
        if !own { continue; }
        for (bi, b) in w.blocks.iter().enumerate() {
            let (ls, _) = line_bounds(&base, b.first_stmt_start);
            let indent = &base[ls..b.first_stmt_start];
            if !indent.chars().all(|c| c == ' ') || b.func.starts_with("twin_") { continue; }
            for (rule, snippet) in RULES.iter().chain(KNOWN_RULES.iter()) {
                // `?` is legal inside a function returning Result: that rule is about the other functions
                if (*rule == "try-in-non-result-fn" || *rule == "try-in-closure-in-non-result-fn") && b.returns.starts_with("Result") { continue; }
                if *rule == "return-wrong-type" && b.returns.starts_with('(') { continue; }
                // a bare `return` is legal where nothing is returned
                if *rule == "return-nothing" && (b.returns.is_empty() || b.returns == "None" || b.returns == "Unit" || b.returns == "()") { continue; }
                if *rule == "mutating-method-on-immutable" && !base.contains("def grow(mut self") { continue; }
                let text = snippet.replace("{I}", indent);
                let edited = format!("{}{}{}", &base[..ls], text, &base[ls..]);
                let (a, e) = (ls, ls + text.len());
                let verdict = match catch(|| check(&edited)) {
                    Err(m) => format!("panic {m}"),
                    Ok(Err(m)) => format!("edit-unparsable {}", m.replace(' ', "_")),
                    Ok(Ok(Ok(()))) => "accepted".to_string(),
                    Ok(Ok(Err(errs))) => {
                        if errs.iter().any(|(_, s, en)| *s < e && *en > a) { "rejected-located".to_string() } else { format!("rejected-elsewhere {}", errs[0].0.replace(' ', "_")) }
                    }
                };
                n_stmt += 1;
                *labels.entry(b.label.clone()).or_insert(0) += 1;
                out.case(&format!("c03 stmt {fname} {} {rule} {bi}", b.label), &verdict);
            }
        }
    }
    // (c) scope chain: a binding at depth `bd`, an assignment at depth `d`, every kind of nesting construct
    let nests = ["if flag:", "else-of-if", "elif flag:", "while flag:", "for it in xs:", "match-arm"];
    let max_d = if tier == "thorough" { 5 } else { 3 };
    let mut n_scope = 0u64;
    for d in 0..=max_d {
        for bd in 0..=d {
            for is_mut in [false, true] {
                for kind in ["plain", "let", "mut", "compound", "method", "field", "index"] {
                    let variants = if tier == "thorough" { nests.len() } else { 2 };
                    for v in 0..variants {
                        // an earlier function binds the same name mutably: bindings of other functions must not matter
                        let mut src = String::from("class Box:\n    w: int\n    h: int\n\n    def grow(mut self, by: int) -> None:\n        self.w = self.w + by\n\ndef twin() -> int:\n    mut x = 1\n    x += 1\n    x = x + 1\n    return x\n\ndef f(flag: bool, xs: List[int], o: Option[int]) -> int:\n");
                        let prefix_lines = src.lines().count();
                        let init = match kind { "method" | "field" => "Box(w=1, h=2)", "index" => "[1, 2]", _ => "0" };
                        let mut indent = String::from("    ");
                        let mut lines: Vec<String> = Vec::new();
                        for level in 0..=d {
                            if level == bd {
                                lines.push(format!("{indent}{}x = {init}", if is_mut { "mut " } else { "" }));
                            }
                            if level < d {
                                let nest = nests[(v + level + rng.below(nests.len() as u64) as usize) % nests.len()];
                                match nest {
                                    "else-of-if" => { lines.push(format!("{indent}if flag:")); lines.push(format!("{indent}    pass")); lines.push(format!("{indent}else:")); }
                                    "elif flag:" => { lines.push(format!("{indent}if flag:")); lines.push(format!("{indent}    pass")); lines.push(format!("{indent}elif flag:")); }
                                    "match-arm" => { lines.push(format!("{indent}match o:")); lines.push(format!("{indent}    None =>")); lines.push(format!("{indent}        pass")); lines.push(format!("{indent}    Some(q) =>")); indent.push_str("    "); }
                                    other => lines.push(format!("{indent}{other}")),
                                }
                                indent.push_str("    ");
                            }
                        }
                        let marker = lines.len();
                        lines.push(match kind {
                            "plain" => format!("{indent}x = 5"),
                            "let" => format!("{indent}let x = 5"),
                            "mut" => format!("{indent}mut x = 5"),
                            "method" => format!("{indent}x.grow(1)"),
                            "field" => format!("{indent}x.w = 5"),
                            "index" => format!("{indent}x[0] = 5"),
                            _ => format!("{indent}x += 5"),
                        });
                        src.push_str(&lines.join("\n"));
                        src.push_str("\n    return 0\n");
                        let line_start: usize = src.lines().take(marker + prefix_lines).map(|l| l.len() + 1).sum();
                        let line_end = line_start + lines[marker].len();
                        let verdict = match catch(|| check(&src)) {
                            Err(m) => format!("panic {m}"),
                            Ok(Err(m)) => format!("unparsable {}", m.replace(' ', "_")),
                            Ok(Ok(Ok(()))) => "accepted".to_string(),
                            Ok(Ok(Err(errs))) => {
                                if errs.iter().any(|(m, s, e)| m.contains("Cannot mutate") && *s < line_end && *e > line_start) { "mutationWithoutMut".to_string() }
                                else { format!("other-error {}", errs[0].0.replace(' ', "_")) }
                            }
                        };
                        n_scope += 1;
                        out.case(&format!("c03 scope {d} {bd} {} {kind} {v}", is_mut as u8), &verdict);
                    }
                }
            }
        }
    }
    // (d) match coverage on enum / Option / Result subjects
    let n_match = if tier == "thorough" { 600 } else { 120 };
    for _ in 0..n_match {
        let subject = rng.below(3); // 0 enum, 1 Option, 2 Result
        let variants: Vec<String> = match subject {
            0 => {
                // names related by prefix / suffix / containment: a coverage test that compares names loosely
                // (ends_with, starts_with, contains, case-insensitively) confuses them
                const POOL: [&str; 14] = ["Open", "HalfOpen", "OpenHalf", "Op", "Closed", "Close", "V", "VV", "V0", "V1", "A", "AB", "BA", "Aa"];
                let n = 2 + rng.below(3) as usize;
                let mut names: Vec<String> = Vec::new();
                while names.len() < n {
                    let c = POOL[rng.below(POOL.len() as u64) as usize].to_string();
                    if !names.contains(&c) { names.push(c); }
                }
                names
            }
            1 => vec!["Some".into(), "None".into()],
            _ => vec!["Ok".into(), "Err".into()],
        };
        let mut arms: Vec<String> = Vec::new(); // encoded arm kinds
        let mut arm_src: Vec<String> = Vec::new();
        for v in &variants {
            if rng.chance(3, 4) {
                match (subject, v.as_str()) {
                    (0, _) => { arms.push(format!("c{v}")); arm_src.push(format!("E.{v}")); }
                    (1, "Some") => { arms.push("cSome".into()); arm_src.push("Some(q)".into()); }
                    (1, _) => { if rng.chance(1, 2) { arms.push("cNone".into()); } else { arms.push("n".into()); } arm_src.push("None".into()); }
                    (_, "Ok") => { arms.push("cOk".into()); arm_src.push("Ok(q)".into()); }
                    _ => { arms.push("cErr".into()); arm_src.push("Err(q)".into()); }
                }
            }
        }
        if rng.chance(1, 6) { arms.push("w".into()); arm_src.push("_".into()); }
        else if rng.chance(1, 8) { arms.push("b".into()); arm_src.push("anything".into()); }
        if arms.is_empty() { continue; }
        // the `None` keyword arm is a literal pattern, whatever we guessed above: normalise the encoding from the real AST below
        let mut src = String::new();
        if subject == 0 { src.push_str(&format!("enum E:\n{}\n", variants.iter().map(|v| format!("    {v}\n")).collect::<String>())); }
        let (param, _) = match subject { 0 => ("s: E", ""), 1 => ("s: Option[int]", ""), _ => ("s: Result[int, str]", "") };
        src.push_str(&format!("def f({param}) -> int:\n    match s:\n"));
        for a in &arm_src { src.push_str(&format!("        {a} =>\n            pass\n")); }
        src.push_str("    return 0\n");
        // re-derive the arm encoding from what the real parser produced (Some/None/Ok/Err spellings)
        let enc: Vec<String> = match incan_syntax::lexer::lex(&src).ok().and_then(|t| incan_syntax::parser::parse(&t).ok()) {
            Some(ast) => {
                let mut out_arms = Vec::new();
                for d in &ast.declarations {
                    if let Declaration::Function(f) = &d.node {
                        if let Some(st) = f.body.first() {
                            if let Statement::Expr(e) = &st.node {
                                if let Expr::Match(_, arms) = &e.node {
                                    for arm in arms {
                                        out_arms.push(match &arm.node.pattern.node {
                                            Pattern::Wildcard => "w".to_string(),
                                            Pattern::Binding(_) => "b".to_string(),
                                            Pattern::Literal(Literal::None) => "n".to_string(),
                                            Pattern::Constructor(name, _) => format!("c{}", name.rsplit(|c| c == ':' || c == '.').next().unwrap_or(name)),
                                            _ => "o".to_string(),
                                        });
                                    }
                                }
                            }
                        }
                    }
                }
                out_arms
            }
            None => arms.clone(),
        };
        let verdict = match catch(|| check(&src)) {
            Err(m) => format!("panic {m}"),
            Ok(Err(m)) => format!("unparsable {}", m.replace(' ', "_")),
            Ok(Ok(Ok(()))) => "complete".to_string(),
            Ok(Ok(Err(errs))) => match errs.iter().find(|(m, _, _)| m.starts_with("Non-exhaustive match")) {
                Some((m, _, _)) => format!("missing {}", m.rsplit("for ").next().unwrap_or("").replace(", ", ",")),
                None => format!("other-error {}", errs[0].0.replace(' ', "_")),
            },
        };
        out.case(&format!("c03 match {} {} {}", variants.join(","), (subject == 1) as u8, enc.join(",")), &verdict);
    }
    // (e) call arguments: signatures of 1-4 parameters (primitive, collection, model, class, trait-typed; trailing
    // ones may have defaults), function and method calls, positional and keyword arguments, 0-2 arguments of a type
    // the parameter does not accept, and arity edits (arguments dropped, a surplus positional, an unknown keyword)
    const TYS: [(&str, &str); 9] = [("int", "7"), ("str", "\"s\""), ("bool", "True"), ("float", "1.5"), ("List[int]", "[1, 2]"),
        ("Pt", "Pt(x=1, y=2)"), ("Box", "Box(w=1, h=2)"), ("Cat", "Cat(n=1)"), ("Option[int]", "Some(3)")];
    const PARAM_TYS: [&str; 10] = ["int", "str", "bool", "float", "List[int]", "Pt", "Box", "Cat", "Option[int]", "Shape"];
    let adopts = |a: &str, e: &str| a == e || (e == "Shape" && (a == "Box" || a == "Sq"));
    let n_call = if tier == "thorough" { 2000 } else { 400 };
    let mut n_call_wrong = 0u64;
    let mut n_call_arity = 0u64;
    for ci in 0..n_call {
        let np = 1 + rng.below(4) as usize;
        let params: Vec<(String, &str)> = (0..np).map(|i| (format!("p{i}"), PARAM_TYS[rng.below(PARAM_TYS.len() as u64) as usize])).collect();
        // defaults on a suffix of the parameters (never on a trait-typed one: it has no literal)
        let mut has_default = vec![false; np];
        for i in (0..np).rev() {
            if params[i].1 != "Shape" && rng.chance(1, 4) { has_default[i] = true; } else { break; }
        }
        // argument types: fitting, then up to two positions replaced by a type the parameter does not accept
        let mut arg_tys: Vec<(&str, &str)> = params.iter().map(|(_, t)| if *t == "Shape" { if rng.chance(1, 2) { ("Box", "Box(w=1, h=2)") } else { ("Sq", "Sq(w=1, h=1, s=2)") } } else { *TYS.iter().find(|(n, _)| n == t).unwrap() }).collect();
        let n_wrong = [0usize, 1, 1, 1, 2][rng.below(5) as usize].min(np);
        let mut wrong_at: Vec<usize> = Vec::new();
        while wrong_at.len() < n_wrong {
            let j = rng.below(np as u64) as usize;
            if wrong_at.contains(&j) { continue; }
            let cands: Vec<&(&str, &str)> = TYS.iter().filter(|(n, _)| !adopts(n, params[j].1) && !(*n == "int" && params[j].1 == "float") && !(*n == "float" && params[j].1 == "int")).collect();
            arg_tys[j] = *cands[rng.below(cands.len() as u64) as usize];
            wrong_at.push(j);
        }
        // the last `nk` arguments are written as keywords, in a shuffled order
        let nk = if rng.chance(1, 3) { rng.below(np as u64 + 1) as usize } else { 0 };
        let mut order: Vec<usize> = (0..np).collect();
        if nk > 1 {
            let tail = &mut order[np - nk..];
            for i in (1..tail.len()).rev() { let j = rng.below(i as u64 + 1) as usize; tail.swap(i, j); }
        }
        // written arguments: (parameter index or usize::MAX for an argument no parameter takes, keyword?, type, text)
        let mut written: Vec<(usize, Option<String>, &str, String)> = order.iter().enumerate().map(|(w, &pi)| {
            let kw = w >= np - nk;
            (pi, if kw { Some(params[pi].0.clone()) } else { None }, arg_tys[pi].0, arg_tys[pi].1.to_string())
        }).collect();
        // arity edit
        let edit = rng.below(6);
        match edit {
            0 => { let k = 1 + rng.below(2) as usize; for _ in 0..k.min(written.len()) { written.pop(); } }
            1 if nk == 0 => written.push((usize::MAX, None, "int", "99".to_string())),
            2 => written.push((usize::MAX, Some("zz".to_string()), "int", "1".to_string())),
            _ => {}
        }
        if edit <= 2 { n_call_arity += 1; }
        let is_method = ci % 2 == 1;
        let sig = params.iter().enumerate().map(|(i, (n, t))| if has_default[i] { format!("{n}: {t} = {}", TYS.iter().find(|(x, _)| x == t).unwrap().1) } else { format!("{n}: {t}") }).collect::<Vec<_>>().join(", ");
        let mut src = String::from("model Pt:\n    x: int\n    y: int\n\ntrait Shape:\n    def area(self) -> int: ...\n\nclass Box with Shape:\n    w: int\n    h: int\n\n    def area(self) -> int:\n        return self.w * self.h\n\nclass Sq extends Box:\n    s: int\n\nclass Cat:\n    n: int\n\n");
        src.push_str(&format!("def callee({sig}) -> int:\n    return 0\n\nclass Host:\n    v: int\n\n    def meth(self, {sig}) -> int:\n        return 0\n\ndef main() -> None:\n    h = Host(v=1)\n"));
        let mut line = String::from(if is_method { "    r = h.meth(" } else { "    r = callee(" });
        let line_start = src.len();
        let mut spans: Vec<(usize, usize)> = Vec::new(); // per written argument: span of its value
        let mut enc_args: Vec<String> = Vec::new();
        for (w, (_, kw, ty, text)) in written.iter().enumerate() {
            if w > 0 { line.push_str(", "); }
            if let Some(k) = kw { line.push_str(&format!("{k}=")); }
            let a = line_start + line.len();
            line.push_str(text);
            spans.push((a, line_start + line.len()));
            enc_args.push(match kw { Some(k) => format!("{k}={ty}"), None => ty.to_string() });
        }
        let call_span = (line_start, line_start + line.len() + 1);
        line.push_str(")\n");
        src.push_str(&line);
        let verdict = match catch(|| check(&src)) {
            Err(m) => format!("panic {m}"),
            Ok(Err(m)) => format!("unparsable {}", m.replace(' ', "_")),
            Ok(Ok(Ok(()))) => "accepted".to_string(),
            Ok(Ok(Err(errs))) => {
                let mut flagged: Vec<usize> = Vec::new();
                let mut missing: Vec<String> = Vec::new();
                let mut other: Option<String> = None;
                for (m, s0, _e0) in &errs {
                    let at_arg = spans.iter().position(|(a, e)| *s0 >= *a && *s0 < *e);
                    if m.starts_with("Missing argument") && *s0 >= call_span.0 && *s0 < call_span.1 {
                        missing.extend(m.rsplit(": ").next().unwrap_or("").split(", ").map(|x| x.to_string()));
                    } else if let (Some(w), true) = (at_arg, m.starts_with("Type mismatch") || m.starts_with("Too many arguments") || m.starts_with("Unknown keyword argument")) {
                        if !flagged.contains(&w) { flagged.push(w); }
                    } else if other.is_none() {
                        other = Some(m.replace(' ', "_"));
                    }
                }
                flagged.sort();
                match other {
                    Some(o) => format!("other-error {o}"),
                    None => format!("flag {} missing {}", if flagged.is_empty() { "-".to_string() } else { flagged.iter().map(|x| x.to_string()).collect::<Vec<_>>().join(",") }, if missing.is_empty() { "-".to_string() } else { missing.join(",") }),
                }
            }
        };
        if n_wrong > 0 { n_call_wrong += 1; }
        // ground truth for the oracle, from the generator's own bookkeeping (not from the model)
        let mut truth: Vec<usize> = written.iter().enumerate().filter(|(_, (pi, _, _, _))| *pi == usize::MAX || wrong_at.contains(pi)).map(|(w, _)| w).collect();
        truth.sort();
        let truth_missing: Vec<String> = (0..np).filter(|pi| !has_default[*pi] && !written.iter().any(|(q, _, _, _)| q == pi)).map(|pi| params[pi].0.clone()).collect();
        out.case(&format!("c03 call {} {} {} {}/{}", if is_method { "method" } else { "function" },
            params.iter().enumerate().map(|(i, (n, t))| format!("{n}:{t}{}", if has_default[i] { ":d" } else { "" })).collect::<Vec<_>>().join(";"),
            if enc_args.is_empty() { "-".to_string() } else { enc_args.join(";") },
            if truth.is_empty() { "-".to_string() } else { truth.iter().map(|x| x.to_string()).collect::<Vec<_>>().join(",") },
            if truth_missing.is_empty() { "-".to_string() } else { truth_missing.join(",") }), &verdict);
    }
    // (e2) default values: every parameter may carry a default of its own type or of another one; the checker must
    // flag exactly the ill-typed defaults, at the default's own span (function and method declarations)
    let n_def = if tier == "thorough" { 1500 } else { 300 };
    let mut n_def_wrong = 0u64;
    for di in 0..n_def {
        let np = 1 + rng.below(4) as usize;
        // (name, type, default: Option<(type of the value, text)>)
        let mut ps: Vec<(String, &str, Option<(&str, &str)>)> = Vec::new();
        for i in 0..np {
            let t = PARAM_TYS[rng.below(PARAM_TYS.len() as u64 - 1) as usize]; // no trait-typed parameter
            let d = match rng.below(4) {
                0 => None,
                1 => {
                    let cands: Vec<&(&str, &str)> = TYS.iter().filter(|(n, _)| *n != t && !(*n == "int" && t == "float") && !(*n == "float" && t == "int")).collect();
                    Some(**rng.pick(&cands))
                }
                _ => Some(*TYS.iter().find(|(n, _)| *n == t).unwrap()),
            };
            ps.push((format!("p{i}"), t, d));
        }
        let is_method = di % 2 == 1;
        let mut src = String::from("model Pt:\n    x: int\n    y: int\n\nclass Box:\n    w: int\n    h: int\n\nclass Cat:\n    n: int\n\n");
        let head = if is_method { "class Host:\n    v: int\n\n    def meth(self, " } else { "def callee(" };
        src.push_str(head);
        let mut spans: Vec<Option<(usize, usize)>> = Vec::new();
        for (i, (n, t, d)) in ps.iter().enumerate() {
            if i > 0 { src.push_str(", "); }
            src.push_str(&format!("{n}: {t}"));
            match d {
                Some((_, text)) => {
                    src.push_str(" = ");
                    let a = src.len();
                    src.push_str(text);
                    spans.push(Some((a, src.len())));
                }
                None => spans.push(None),
            }
        }
        src.push_str(if is_method { ") -> int:\n        return 0\n" } else { ") -> int:\n    return 0\n" });
        src.push_str("\ndef main() -> None:\n    pass\n");
        let verdict = match catch(|| check(&src)) {
            Err(m) => format!("panic {m}"),
            Ok(Err(m)) => format!("unparsable {}", m.replace(' ', "_")),
            Ok(Ok(Ok(()))) => "accepted".to_string(),
            Ok(Ok(Err(errs))) => {
                let mut flagged: Vec<usize> = Vec::new();
                let mut other: Option<String> = None;
                for (m, s0, _) in &errs {
                    match spans.iter().position(|sp| matches!(sp, Some((a, e)) if *s0 >= *a && *s0 < *e)) {
                        Some(i) if m.starts_with("Type mismatch") => { if !flagged.contains(&i) { flagged.push(i); } }
                        _ => { if other.is_none() { other = Some(m.replace(' ', "_")); } }
                    }
                }
                flagged.sort();
                match other {
                    Some(o) => format!("other-error {o}"),
                    None => format!("flag {}", flagged.iter().map(|x| x.to_string()).collect::<Vec<_>>().join(",")),
                }
            }
        };
        let truth: Vec<String> = ps.iter().enumerate().filter(|(_, (_, t, d))| matches!(d, Some((dt, _)) if dt != t)).map(|(i, _)| i.to_string()).collect();
        if !truth.is_empty() { n_def_wrong += 1; }
        out.case(&format!("c03 defaults {} {} {}", if is_method { "method" } else { "function" },
            ps.iter().map(|(n, t, d)| format!("{n}:{t}:{}", d.map(|x| x.0).unwrap_or("-"))).collect::<Vec<_>>().join(";"),
            if truth.is_empty() { "-".to_string() } else { truth.join(",") }), &verdict);
    }
    // (f) trait adoption: a trait with @requires fields, required (bodyless) and default methods; an adopter (class,
    // model, or class inheriting part of its members) that has a subset of them, some with another type / signature
    let n_adopt = if tier == "thorough" { 1200 } else { 250 };
    let f_tys = ["int", "str", "bool", "float"];
    let sig_src = |m: &str, sig: &str, body: Option<&str>| -> String {
        let (ps, ret) = sig.split_once('>').unwrap_or(("", "int"));
        let params: Vec<String> = ps.split('.').filter(|x| !x.is_empty()).enumerate().map(|(i, t)| format!("a{i}: {t}")).collect();
        let head = format!("    def {m}(self{}{}) -> {ret}:", if params.is_empty() { "" } else { ", " }, params.join(", "));
        match body {
            None => format!("{head} ...\n"),
            Some(_) => format!("{head}\n        return {}\n", match ret { "int" => "0", "str" => "\"s\"", "bool" => "True", _ => "0.5" }),
        }
    };
    let gen_sig = |r: &mut Rng| -> String {
        let n = r.below(3) as usize;
        let ps: Vec<&str> = (0..n).map(|_| *r.pick(&["int", "str"])).collect();
        format!("{}>{}", ps.join("."), r.pick(&["int", "str", "bool"]))
    };
    for _ in 0..n_adopt {
        let nreq = rng.below(3) as usize;
        let requires: Vec<(String, &str)> = (0..nreq).map(|i| (format!("rf{i}"), *rng.pick(&f_tys))).collect();
        let nm = 1 + rng.below(3) as usize;
        let tmethods: Vec<(String, bool, String)> = (0..nm).map(|i| (format!("tm{i}"), rng.chance(1, 3), gen_sig(&mut rng))).collect();
        let kind = *rng.pick(&["class", "model", "subclass"]);
        // the adopter's members: each required one present (3/4), sometimes with another type / signature
        let mut fields: Vec<(String, String)> = vec![("own".to_string(), "int".to_string())];
        let mut truth: Vec<String> = Vec::new();
        for (f, ty) in &requires {
            if rng.chance(3, 4) {
                if rng.chance(1, 5) {
                    let other = *f_tys.iter().find(|t| *t != ty && !(**t == "int" && *ty == "float") && !(**t == "float" && *ty == "int")).unwrap();
                    fields.push((f.clone(), other.to_string()));
                    truth.push(format!("ft:{f}"));
                } else {
                    fields.push((f.clone(), ty.to_string()));
                }
            } else {
                truth.push(format!("mf:{f}"));
            }
        }
        let mut ameths: Vec<(String, String)> = vec![("own_m".to_string(), ">int".to_string())];
        for (m, has_body, sig) in &tmethods {
            if rng.chance(3, 4) {
                if rng.chance(1, 4) {
                    let (ps, ret) = sig.split_once('>').unwrap();
                    let wrong = match rng.below(3) { 0 => format!("{ps}>{}", if ret == "int" { "str" } else { "int" }), 1 => format!("{}>{ret}", if ps.is_empty() { "int".to_string() } else { format!("{ps}.int") }), _ => format!("{}>{ret}", if ps.is_empty() { "str".to_string() } else { ps.replacen("int", "bool", 1).replacen("str", "int", 1) }) };
                    if wrong != *sig {
                        ameths.push((m.clone(), wrong));
                        if !has_body { truth.push(format!("ms:{m}")); }
                    } else {
                        ameths.push((m.clone(), sig.clone()));
                    }
                } else {
                    ameths.push((m.clone(), sig.clone()));
                }
            } else if !has_body {
                truth.push(format!("mm:{m}"));
            }
        }
        truth.sort();
        // source
        let mut src = String::new();
        if !requires.is_empty() { src.push_str(&format!("@requires({})\n", requires.iter().map(|(f, t)| format!("{f}: {t}")).collect::<Vec<_>>().join(", "))); }
        src.push_str("trait T:\n");
        for (m, has_body, sig) in &tmethods { src.push_str(&sig_src(m, sig, if *has_body { Some("") } else { None })); src.push('\n'); }
        let decl_start;
        let member_src = |fs: &[(String, String)], ms: &[(String, String)]| -> String {
            let mut o = String::new();
            for (f, t) in fs { o.push_str(&format!("    {f}: {t}\n")); }
            for (m, sig) in ms { o.push('\n'); o.push_str(&sig_src(m, sig, Some(""))); }
            o
        };
        if kind == "subclass" {
            // the parent holds every second member
            let pf: Vec<(String, String)> = fields.iter().enumerate().filter(|(i, _)| i % 2 == 1).map(|(_, x)| x.clone()).collect();
            let cf: Vec<(String, String)> = fields.iter().enumerate().filter(|(i, _)| i % 2 == 0).map(|(_, x)| x.clone()).collect();
            let pm: Vec<(String, String)> = ameths.iter().enumerate().filter(|(i, _)| i % 2 == 1).map(|(_, x)| x.clone()).collect();
            let cm: Vec<(String, String)> = ameths.iter().enumerate().filter(|(i, _)| i % 2 == 0).map(|(_, x)| x.clone()).collect();
            src.push_str("class P:\n    pown: int\n");
            src.push_str(&member_src(&pf, &pm));
            src.push('\n');
            decl_start = src.len();
            src.push_str("class X extends P with T:\n");
            src.push_str(&member_src(&cf, &cm));
        } else {
            decl_start = src.len();
            src.push_str(&format!("{kind} X with T:\n"));
            src.push_str(&member_src(&fields, &ameths));
        }
        let decl_end = src.len();
        src.push_str("\ndef main() -> None:\n    pass\n");
        let verdict = match catch(|| check(&src)) {
            Err(m) => format!("panic {m}"),
            Ok(Err(m)) => format!("unparsable {}", m.replace(' ', "_")),
            Ok(Ok(Ok(()))) => "accepted".to_string(),
            Ok(Ok(Err(errs))) => {
                let mut got: Vec<String> = Vec::new();
                let mut other: Option<String> = None;
                let mut elsewhere = false;
                for (m, s0, _) in &errs {
                    let q = |k: usize| m.split('\'').nth(k).unwrap_or("").to_string();
                    let tag = if m.starts_with("Type 'X' has no field") { Some(format!("mf:{}", q(3))) }
                        else if m.contains("requires method") { Some(format!("mm:{}", q(3))) }
                        else if m.contains("to match its signature") { Some(format!("ms:{}", m.split("::").nth(1).unwrap_or("").split(' ').next().unwrap_or(""))) }
                        else if m.contains("requires field") { Some(format!("ft:{}", q(3))) }
                        else if kind == "model" && m.starts_with("Type mismatch") && *s0 >= decl_start && *s0 < decl_end {
                            // models report a wrongly typed @requires field with the generic mismatch text, on the
                            // field's type annotation: the field is the one declared on that line
                            let ls = src[..*s0].rfind('\n').map(|i| i + 1).unwrap_or(0);
                            Some(format!("ft:{}", src[ls..*s0].trim().trim_end_matches(':').trim()))
                        }
                        else { None };
                    match tag {
                        Some(t) => { if !(*s0 >= decl_start && *s0 < decl_end) { elsewhere = true; } if !got.contains(&t) { got.push(t); } }
                        None => if other.is_none() { other = Some(m.replace(' ', "_")); },
                    }
                }
                got.sort();
                match other {
                    Some(o) => format!("other-error {o}"),
                    None => format!("{}{}", got.join(","), if elsewhere { " elsewhere" } else { "" }),
                }
            }
        };
        let enc = |v: &[(String, String)]| if v.is_empty() { "-".to_string() } else { v.iter().map(|(a, b)| format!("{a}:{b}")).collect::<Vec<_>>().join(",") };
        out.case(&format!("c03 adopt {kind} {} {} {} {} {}",
            if requires.is_empty() { "-".to_string() } else { requires.iter().map(|(f, t)| format!("{f}:{t}")).collect::<Vec<_>>().join(",") },
            tmethods.iter().map(|(m, b, sg)| format!("{m}:{}:{sg}", if *b { "d" } else { "a" })).collect::<Vec<_>>().join(","),
            enc(&fields), enc(&ameths),
            if truth.is_empty() { "-".to_string() } else { truth.join(",") }), &verdict);
    }
    out.meta(&serde_json::json!({"adoption_programs": n_adopt}));
    out.meta(&serde_json::json!({"scope_programs": n_scope, "match_programs": n_match, "call_programs": n_call, "call_programs_with_wrong_argument": n_call_wrong, "call_programs_with_arity_edit": n_call_arity, "default_programs": n_def, "default_programs_with_wrong_default": n_def_wrong}));
    out.meta(&serde_json::json!({"files": files.len(), "expr_edits": n_expr, "stmt_edits": n_stmt, "position_labels": labels}));
}
