//! C17: validated newtype construction. Generated programs (newtype declaration shape × construction site ×
//! argument value) go through the real front end + lowering + emitter, are compiled by rustc in one batch
//! project, and are run; the outcome is compared with the Lean model of the rewrite.
use crate::runner::{self, Case, Outcome};
use crate::util::{Out, Rng};

/// (shape id, methods source, model encoding of the methods)
fn shape(id: &str, shift: i64) -> (String, String) {
    let ok = if shift == 0 { "Ok(Pos(n))".to_string() } else { format!("Ok(Pos(n + {shift}))") };
    let m = |name: &str| format!("    def {name}(n: int) -> Result[Pos, str]:\n        if n <= 0:\n            return Err(\"must be positive\")\n        return {ok}\n\n");
    let res = "g2.Result.s.Pos.s.str";
    match id {
        "fu" => (m("from_underlying"), format!("from_underlying/0/s.int/{res}")),
        "fi" => (m("from_int"), format!("from_int/0/s.int/{res}")),
        "two" => (format!("{}{}", m("from_a"), m("from_b")), format!("from_a/0/s.int/{res},from_b/0/s.int/{res}")),
        "twofu" => (format!("{}{}", m("from_b"), m("from_underlying")), format!("from_b/0/s.int/{res},from_underlying/0/s.int/{res}")),
        "other" => (m("check"), format!("check/0/s.int/{res}")),
        "recv" => (
            "    def from_underlying(self, n: int) -> Result[Pos, str]:\n        if n <= 0:\n            return Err(\"must be positive\")\n        return Ok(Pos(n))\n\n".to_string(),
            format!("from_underlying/1/s.int/{res}"),
        ),
        "opt" => (
            "    def from_underlying(n: int) -> Option[Pos]:\n        if n <= 0:\n            return None\n        return Some(Pos(n))\n\n".to_string(),
            "from_underlying/0/s.int/g1.Option.s.Pos".to_string(),
        ),
        "wrongparam" => (
            "    def from_underlying(s: str) -> Result[Pos, str]:\n        if len(s) == 0:\n            return Err(\"empty\")\n        return Ok(Pos(1))\n\n".to_string(),
            format!("from_underlying/0/s.str/{res}"),
        ),
        "twoparams" => (
            "    def from_underlying(n: int, m: int) -> Result[Pos, str]:\n        if n <= 0:\n            return Err(\"must be positive\")\n        return Ok(Pos(n + m))\n\n".to_string(),
            format!("from_underlying/0/s.int+s.int/{res}"),
        ),
        "resother" => (
            "    def from_underlying(n: int) -> Result[Other, str]:\n        if n <= 0:\n            return Err(\"must be positive\")\n        return Ok(Other(n))\n\n".to_string(),
            "from_underlying/0/s.int/g2.Result.s.Other.s.str".to_string(),
        ),
        _ => (String::new(), "-".to_string()),
    }
}

const SITES: [&str; 23] = [
    "let", "arg", "list2", "list1", "field", "some", "ok", "ret", "othermethod", "modelmethod", "ownmethod", "nested", "alias",
    "compr", "dict", "tuple", "fielddefault", "matcharm", "fieldassign", "rewrap", "rewrapexpr", "indexarg", "fstring",
];

fn program(shape_id: &str, shift: i64, site: &str, v: i64, pos_last: bool) -> String {
    let (methods, _) = shape(shape_id, shift);
    program_with(&methods, site, v, pos_last)
}

/// One method of a generated declaration: (name, variant) -> (source, model encoding).
fn method_variant(name: &str, variant: &str, shift: i64) -> (String, String) {
    let ok = if shift == 0 { "Ok(Pos(n))".to_string() } else { format!("Ok(Pos(n + {shift}))") };
    let res = "g2.Result.s.Pos.s.str";
    match variant {
        "hook" => (format!("    def {name}(n: int) -> Result[Pos, str]:\n        if n <= 0:\n            return Err(\"must be positive\")\n        return {ok}\n\n"), format!("{name}/0/s.int/{res}")),
        "recv" => (format!("    def {name}(self, n: int) -> Result[Pos, str]:\n        if n <= 0:\n            return Err(\"must be positive\")\n        return Ok(Pos(n))\n\n"), format!("{name}/1/s.int/{res}")),
        "opt" => (format!("    def {name}(n: int) -> Option[Pos]:\n        if n <= 0:\n            return None\n        return Some(Pos(n))\n\n"), format!("{name}/0/s.int/g1.Option.s.Pos")),
        "wrongparam" => (format!("    def {name}(s: str) -> Result[Pos, str]:\n        if len(s) == 0:\n            return Err(\"empty\")\n        return Ok(Pos(1))\n\n"), format!("{name}/0/s.str/{res}")),
        "twoparams" => (format!("    def {name}(n: int, m: int) -> Result[Pos, str]:\n        if n <= 0:\n            return Err(\"must be positive\")\n        return Ok(Pos(n + m))\n\n"), format!("{name}/0/s.int+s.int/{res}")),
        _ => (format!("    def {name}(n: int) -> Result[Other, str]:\n        if n <= 0:\n            return Err(\"must be positive\")\n        return Ok(Other(n))\n\n"), format!("{name}/0/s.int/g2.Result.s.Other.s.str")),
    }
}

/// A declaration with 1-3 methods of distinct names, each hook-shaped or one of the near misses.
fn gen_shape(r: &mut Rng, shift: i64) -> (String, String) {
    let mut names = vec!["from_underlying", "from_int", "from_text", "from_a", "check", "make_pos"];
    let n = 1 + r.below(3) as usize;
    let mut src = String::new();
    let mut enc: Vec<String> = Vec::new();
    for _ in 0..n {
        let name = names.remove(r.below(names.len() as u64) as usize);
        let variant = if r.chance(1, 2) { "hook" } else { *r.pick(&["recv", "opt", "wrongparam", "twoparams", "resother"]) };
        let (m, e) = method_variant(name, variant, shift);
        src.push_str(&m);
        enc.push(e);
    }
    (src, enc.join(","))
}

fn program_with(methods: &str, site: &str, v: i64, pos_last: bool) -> String {
    let mut s = String::new();
    let mut pos = String::from("type Pos = newtype int:\n");
    pos.push_str(methods);
    pos.push_str("    def bump(self, d: int) -> Pos:\n        return Pos(self.0 + d)\n\n");
    if !pos_last {
        s.push_str(&pos);
    }
    s.push_str("type Other = newtype int:\n    def make(self, n: int) -> Pos:\n        return Pos(n)\n\n");
    let default = if site == "fielddefault" { format!(" = Pos({v})") } else { String::new() };
    s.push_str(&format!("model Holder:\n    p: Pos{default}\n\n    def mk(self, n: int) -> Pos:\n        return Pos(n)\n\n"));
    if pos_last {
        // declaration order must not matter: Pos is the last type whose methods are lowered before the functions
        s.push_str(&pos);
    }
    s.push_str("def ident(p: Pos) -> Pos:\n    return p\n\ndef build(n: int) -> Pos:\n    return Pos(n)\n\n");
    s.push_str("def mk_ok(n: int) -> Result[Pos, str]:\n    return Ok(Pos(n))\n\n");
    s.push_str("def show(p: Pos) -> None:\n    v = p.0\n    println(f\"{v}\")\n\n");
    s.push_str("def main() -> None:\n");
    let body = match site {
        "let" => format!("    a = Pos({v})\n    show(a)\n"),
        "arg" => format!("    show(ident(Pos({v})))\n"),
        "list2" => format!("    xs = [Pos(1), Pos({v})]\n    show(xs[1])\n"),
        "list1" => format!("    xs = [Pos({v}), Pos(1)]\n    show(xs[1])\n"),
        "field" => format!("    h = Holder(p=Pos({v}))\n    show(h.p)\n"),
        "some" => format!("    o = Some(Pos({v}))\n    match o:\n        Some(p) => show(p)\n        None => println(\"none\")\n"),
        "ok" => format!("    match mk_ok({v}):\n        Ok(p) => show(p)\n        Err(e) => println(e)\n"),
        "ret" => format!("    show(build({v}))\n"),
        "othermethod" => format!("    o = Other(3)\n    show(o.make({v}))\n"),
        "modelmethod" => format!("    h = Holder(p=Pos(4))\n    show(h.mk({v}))\n"),
        "ownmethod" => format!("    a = Pos(5)\n    show(a.bump({v}))\n"),
        "nested" => format!("    a = Pos(Pos({v}).0 + 1)\n    show(a)\n"),
        "alias" => format!("    f = Pos\n    show(f({v}))\n"),
        "compr" => format!("    ns = [1, {v}]\n    ys = [Pos(n) for n in ns]\n    show(ys[1])\n"),
        "dict" => format!("    d = {{\"a\": Pos({v})}}\n    show(d[\"a\"])\n"),
        "tuple" => format!("    t = (Pos({v}), 2)\n    show(t.0)\n"),
        "fielddefault" => "    h = Holder()\n    show(h.p)\n".to_string(),
        "matcharm" => format!("    x = 3\n    match x:\n        3 => show(Pos({v}))\n        _ => println(\"no\")\n"),
        "fieldassign" => format!("    mut h = Holder(p=Pos(1))\n    h.p = Pos({v})\n    show(h.p)\n"),
        "rewrap" => format!("    o = Other({v})\n    a = Pos(o.0)\n    show(a)\n"),
        "rewrapexpr" => format!("    o = Other({v})\n    a = Pos(o.0 + 0)\n    show(a)\n"),
        "indexarg" => format!("    ns = [1, {v}]\n    a = Pos(ns[1])\n    show(a)\n"),
        "fstring" => format!("    println(f\"{{Pos({v}).0}}\")\n"),
        _ => String::new(),
    };
    s.push_str(&body);
    s
}

fn canon(o: &Outcome) -> String {
    match o {
        Outcome::Ran { stdout, code: 0, panic: None } if stdout.trim() == "constructed" => "ok".to_string(),
        Outcome::Ran { stdout, code: 0, panic: None } => format!("ok {}", stdout.trim()),
        Outcome::Ran { panic: Some(p), .. } => {
            if let Some(rest) = p.strip_prefix("validated newtype construction failed: ") {
                format!("fail {}", rest.split(':').take(3).collect::<Vec<_>>().join(":").trim_end_matches(':').split(": ").next().unwrap_or(""))
            } else {
                format!("panic {}", p.replace(' ', "_"))
            }
        }
        other => runner::show(other),
    }
}

/// Hooked newtypes over other underlying types: (source type, model encoding, invalid literal, valid literal, validity test)
const UNDERLYINGS: [(&str, &str, &str, &str, &str); 6] = [
    ("str", "s.str", "\"\"", "\"ab\"", "len(x) == 0"),
    ("List[int]", "g1.List.s.int", "[]", "[1, 2]", "len(x) == 0"),
    ("List[List[int]]", "g1.List.g1.List.s.int", "[]", "[[1]]", "len(x) == 0"),
    ("Dict[int, int]", "g2.Dict.s.int.s.int", "{}", "{1: 2}", "len(x) == 0"),
    ("Option[int]", "g1.Option.s.int", "None", "Some(3)", "MATCH"),
    ("float", "s.float", "-1.5", "2.5", "x < 0.0"),
];

fn underlying_program(k: usize, hook_name: &str, valid: bool) -> String {
    let (ty, _, bad, good, test) = UNDERLYINGS[k];
    let arg = if valid { good } else { bad };
    let body = if test == "MATCH" {
        "        match x:\n            Some(n) => return Ok(Pos(Some(n)))\n            None => return Err(\"invalid\")\n".to_string()
    } else {
        format!("        if {test}:\n            return Err(\"invalid\")\n        return Ok(Pos(x))\n")
    };
    format!(
        "type Pos = newtype {ty}:\n    def {hook_name}(x: {ty}) -> Result[Pos, str]:\n{body}\ndef build(x: {ty}) -> Pos:\n    return Pos(x)\n\ndef main() -> None:\n    a: {ty} = {arg}\n    p = build(a)\n    println(\"constructed\")\n"
    )
}

/// Programs that use one newtype where another is required.
fn mix_program(site: &str) -> String {
    let mut s = String::from("type Pos = newtype int\ntype Other = newtype int\n\nmodel Holder:\n    p: Pos\n\ndef show(p: Pos) -> None:\n    v = p.0\n    println(f\"{v}\")\n\n");
    s.push_str(match site {
        "let-annot" => "def main() -> None:\n    o: Pos = Other(3)\n    show(o)\n",
        "return" => "def conv(o: Other) -> Pos:\n    return o\n\ndef main() -> None:\n    show(conv(Other(3)))\n",
        "arg" => "def main() -> None:\n    o = Other(3)\n    show(o)\n",
        "field" => "def main() -> None:\n    h = Holder(p=Other(3))\n    show(h.p)\n",
        "reassign" => "def main() -> None:\n    mut p = Pos(1)\n    p = Other(3)\n    show(p)\n",
        "list-annot" => "def main() -> None:\n    xs: List[Pos] = [Other(3)]\n    show(xs[0])\n",
        "underlying-as-newtype" => "def main() -> None:\n    p: Pos = 3\n    show(p)\n",
        "newtype-as-underlying" => "def take(n: int) -> int:\n    return n\n\ndef main() -> None:\n    k: int = Pos(3)\n    println(f\"{k}\")\n",
        "compare" => "def main() -> None:\n    a = Pos(3)\n    b = Other(3)\n    if a == b:\n        println(\"same\")\n",
        "append" => "def main() -> None:\n    mut xs: List[Pos] = []\n    xs.append(Other(3))\n    show(xs[0])\n",
        "append-nonempty" => "def main() -> None:\n    mut xs: List[Pos] = [Pos(1)]\n    xs.append(Other(3))\n    show(xs[1])\n",
        "insert" => "def main() -> None:\n    mut xs: List[Pos] = []\n    xs.insert(0, Other(3))\n    show(xs[0])\n",
        "extend" => "def main() -> None:\n    mut xs: List[Pos] = []\n    xs.extend([Other(3)])\n    show(xs[0])\n",
        "index-assign" => "def main() -> None:\n    mut xs: List[Pos] = [Pos(1)]\n    xs[0] = Other(3)\n    show(xs[0])\n",
        "dict-annot" => "def main() -> None:\n    d: Dict[str, Pos] = {\"a\": Other(3)}\n    show(d[\"a\"])\n",
        "dict-store" => "def main() -> None:\n    mut d: Dict[str, Pos] = {}\n    d[\"a\"] = Other(3)\n    show(d[\"a\"])\n",
        "option" => "def main() -> None:\n    o: Option[Pos] = Some(Other(3))\n    show(o.unwrap())\n",
        "result" => "def mk() -> Result[Pos, str]:\n    return Ok(Other(3))\n\ndef main() -> None:\n    show(mk().unwrap())\n",
        "tuple" => "def main() -> None:\n    t: Tuple[Pos, int] = (Other(3), 1)\n    show(t.0)\n",
        "field-assign" => "def main() -> None:\n    mut h = Holder(p=Pos(1))\n    h.p = Other(3)\n    show(h.p)\n",
        "method-arg" => "class Taker:\n    k: int\n\n    def take(self, p: Pos) -> None:\n        show(p)\n\ndef main() -> None:\n    t = Taker(k=1)\n    t.take(Other(3))\n",
        "kwarg" => "def main() -> None:\n    show(p=Other(3))\n",
        "default" => "def d(p: Pos = Other(3)) -> None:\n    show(p)\n\ndef main() -> None:\n    d(Pos(1))\n",
        "comprehension" => "def main() -> None:\n    os = [Other(3), Other(4)]\n    xs: List[Pos] = [o for o in os]\n    show(xs[0])\n",
        "match-arm" => "def pick(f: bool) -> Pos:\n    match f:\n        true => return Other(3)\n        false => return Pos(1)\n\ndef main() -> None:\n    show(pick(true))\n",
        "arith" => "def main() -> None:\n    a = Pos(3)\n    b = Other(3)\n    c = a.0 + b.0\n    p: Pos = b\n    show(p)\n",
        _ => "def main() -> None:\n    pass\n",
    });
    s
}

pub fn run(out: &mut Out, tier: &str, seed: u64, _scratch: &str) {
    let mut rng = Rng::new(seed);
    let shapes = ["fu", "fi", "two", "twofu", "other", "recv", "opt", "wrongparam", "twoparams", "resother", "none"];
    let mut cases: Vec<Case> = Vec::new();
    let mut reqs: Vec<String> = Vec::new();
    // every site with the canonical hook, a valid and an invalid argument
    for site in SITES {
        for v in [7i64, -3, 0] {
            for last in [false, true] {
                reqs.push(format!("c17 site {} 0 {site} {v} {}", shape("fu", 0).1, last as u8));
                cases.push(Case { name: String::new(), source: program("fu", 0, site, v, last) });
            }
        }
    }
    // every declaration shape at three sites
    for sh in shapes {
        for site in ["let", "othermethod", "list2"] {
            for v in [4i64, -2] {
                reqs.push(format!("c17 site {} 0 {site} {v} 0", shape(sh, 0).1));
                cases.push(Case { name: String::new(), source: program(sh, 0, site, v, false) });
            }
        }
    }
    // seeded random combinations, including a normalising hook (Ok(Pos(n + k)))
    let n_rand = if tier == "thorough" { 400 } else { 60 };
    for _ in 0..n_rand {
        let sh = *rng.pick(&shapes);
        let site = *rng.pick(&SITES);
        let shift = *rng.pick(&[0i64, 0, 100]);
        let v = rng.range(-5, 9);
        let last = rng.chance(1, 2);
        reqs.push(format!("c17 site {} {shift} {site} {v} {}", shape(sh, shift).1, last as u8));
        cases.push(Case { name: String::new(), source: program(sh, shift, site, v, last) });
    }
    // generated declarations: 1-3 methods, each hook-shaped or a near miss, under hook-like and other names
    let n_gen = if tier == "thorough" { 300 } else { 50 };
    for _ in 0..n_gen {
        let shift = *rng.pick(&[0i64, 0, 100]);
        let (methods, enc) = gen_shape(&mut rng, shift);
        let site = *rng.pick(&["let", "othermethod", "list2", "arg", "ret", "field"]);
        let v = *rng.pick(&[5i64, -2, 0, 3]);
        let last = rng.chance(1, 2);
        reqs.push(format!("c17 site {enc} {shift} {site} {v} {}", last as u8));
        cases.push(Case { name: String::new(), source: program_with(&methods, site, v, last) });
    }
    for k in 0..UNDERLYINGS.len() {
        for hook_name in ["from_underlying", "from_raw"] {
            for valid in [true, false] {
                reqs.push(format!("c17 usite {} {hook_name}/0/{}/g2.Result.s.Pos.s.str {}", UNDERLYINGS[k].1, UNDERLYINGS[k].1, valid as u8));
                cases.push(Case { name: String::new(), source: underlying_program(k, hook_name, valid) });
            }
        }
    }
    let n_site = cases.len();
    let mix_sites = ["let-annot", "return", "arg", "field", "reassign", "list-annot", "underlying-as-newtype", "newtype-as-underlying", "compare",
        "append", "append-nonempty", "insert", "extend", "index-assign", "dict-annot", "dict-store", "option", "result", "tuple", "field-assign",
        "method-arg", "kwarg", "default", "comprehension", "match-arm", "arith"];
    for site in mix_sites {
        reqs.push(format!("c17 mix {site}"));
        cases.push(Case { name: String::new(), source: mix_program(site) });
    }
    let outcomes = runner::run_batch("/verif/.build/batch/c17", "/verif/.build/batch-target", &cases);
    let mut hist: std::collections::BTreeMap<String, u64> = std::collections::BTreeMap::new();
    for (i, (req, o)) in reqs.iter().zip(outcomes.iter()).enumerate() {
        let real = if i < n_site {
            canon(o)
        } else {
            match o {
                Outcome::Rejected(stage, _) if stage == "check" => "check-reject".to_string(),
                Outcome::Rejected(stage, m) => format!("check-accept then {stage}:{}", m.replace(' ', "_")),
                Outcome::RustcError(m) => format!("check-accept rustc-reject {}", m.replace(' ', "_")),
                Outcome::Ran { stdout, .. } => format!("check-accept ran {}", stdout.trim().replace('\n', "|")),
                Outcome::Harness(m) => format!("harness {m}"),
            }
        };
        *hist.entry(real.split(' ').next().unwrap_or("").to_string()).or_insert(0) += 1;
        out.case(req, &real);
    }
    let _ = std::fs::remove_dir_all("/verif/.build/batch/c17");
    out.meta(&serde_json::json!({"programs": cases.len(), "outcome_histogram": hist, "sites": SITES.len(), "shapes": shapes.len()}));
}
