//! verif-harness: drives the real incan code for the correspondence checks.
//! usage: verif-harness <property> <tier> <seed> <outfile> [extra...]
mod c01;
mod c01feat;
mod c03;
mod c04;
mod c05;
mod c06;
mod c07;
mod c08;
mod c09w;
mod c10;
mod c11;
mod c12;
mod c13;
mod c14;
mod c15;
mod c16;
mod c17;
mod c18;
mod corpus;
mod fmt;
mod runner;
mod c19;
mod c20;
mod util;

fn main() {
    let args: Vec<String> = std::env::args().collect();
    if args.len() < 5 {
        eprintln!("usage: verif-harness <property> <tier> <seed> <outfile> [extra...]");
        std::process::exit(2);
    }
    let (prop, tier, seed, outfile) = (&args[1], &args[2], args[3].parse::<u64>().unwrap_or(0), &args[4]);
    util::silence_panics();
    let mut out = util::Out::create(outfile);
    match prop.as_str() {
        "c04" => c04::run(&mut out, tier, seed),
        "c05" => c05::run(&mut out, tier, seed),
        "c07" => c07::run(&mut out, tier, seed),
        "c08" => c08::run(&mut out, tier, seed),
        "c10" => c10::run(&mut out, tier, seed),
        "c11" => {
            let scratch = args.get(5).cloned().unwrap_or_else(|| "/verif/.build/scratch".to_string());
            c11::run(&mut out, tier, seed, &scratch)
        }
        // the terminal rendering stream alone (line, column, caret padding and underline length for every span of
        // every small document): also part of C19
        "c11r" => c11::render_only(&mut out, tier),
        "c11child" => {
            drop(out);
            c11::child(&args[5], outfile);
            return;
        }
        "fmt" => fmt::run(&mut out, tier, seed),
        "c09w" => c09w::run(&mut out, tier, seed),
        "rundir" => {
            let mut names: Vec<String> = std::fs::read_dir(&args[5]).expect("dir").filter_map(|e| e.ok()).map(|e| e.path().to_string_lossy().to_string()).filter(|p| p.ends_with(".incn")).collect();
            names.sort();
            let cases: Vec<runner::Case> = names.iter().map(|n| runner::Case { name: n.clone(), source: std::fs::read_to_string(n).expect("read") }).collect();
            let o = runner::run_batch("/verif/.build/scratch/runone", "/verif/.build/scratch/runone-target", &cases);
            for (c, o) in cases.iter().zip(o.iter()) {
                println!("{}\t{}", c.name.rsplit('/').next().unwrap_or(""), runner::show(o));
            }
        }
        "buildrun" => {
            let o = runner::build_project(&args[5], "/verif/.build/scratch/buildrun-out", "/verif/.build/scratch/buildrun-target");
            println!("{}", runner::show(&o));
        }
        "runone" => {
            let src = std::fs::read_to_string(&args[5]).expect("read");
            let o = runner::run_batch("/verif/.build/scratch/runone", "/verif/.build/scratch/runone-target", &[runner::Case { name: "x".into(), source: src }]);
            println!("{}", runner::show(&o[0]));
        }
        "fmtone" => {
            let src = std::fs::read_to_string(&args[5]).expect("read");
            println!("{}", fmt::verdict(&src).unwrap_or_else(|| "does-not-parse".to_string()));
            if let Ok(t) = incan::format_source(&src) {
                println!("-----\n{t}-----");
            }
        }
        "c12" => {
            let scratch = args.get(5).cloned().unwrap_or_else(|| "/verif/.build/scratch".to_string());
            c12::run(&mut out, tier, seed, &scratch)
        }
        "c14" => {
            let scratch = args.get(5).cloned().unwrap_or_else(|| "/verif/.build/scratch".to_string());
            c14::run(&mut out, tier, seed, &scratch)
        }
        "c15" => {
            let scratch = args.get(5).cloned().unwrap_or_else(|| "/verif/.build/scratch".to_string());
            c15::run(&mut out, tier, seed, &scratch)
        }
        "c16" => {
            let scratch = args.get(5).cloned().unwrap_or_else(|| "/verif/.build/scratch".to_string());
            c16::run(&mut out, tier, seed, &scratch)
        }
        "c06" => {
            let scratch = args.get(5).cloned().unwrap_or_else(|| "/verif/.build/scratch".to_string());
            c06::run(&mut out, tier, seed, &scratch)
        }
        "c20" => {
            let scratch = args.get(5).cloned().unwrap_or_else(|| "/verif/.build/scratch".to_string());
            c20::run(&mut out, tier, seed, &scratch)
        }
        "c01" => {
            let scratch = args.get(5).cloned().unwrap_or_else(|| "/verif/.build/scratch".to_string());
            c01::run(&mut out, tier, seed, &scratch)
        }
        "c02" => {
            let scratch = args.get(5).cloned().unwrap_or_else(|| "/verif/.build/scratch".to_string());
            c01::run_c02(&mut out, tier, seed, &scratch)
        }
        "c03" => {
            let scratch = args.get(5).cloned().unwrap_or_else(|| "/verif/.build/scratch".to_string());
            c03::run(&mut out, tier, seed, &scratch)
        }
        "c13" => {
            let scratch = args.get(5).cloned().unwrap_or_else(|| "/verif/.build/scratch".to_string());
            c13::run(&mut out, tier, seed, &scratch)
        }
        "c13tables" => {
            println!("{}", c13::tables());
        }
        "c17" => {
            let scratch = args.get(5).cloned().unwrap_or_else(|| "/verif/.build/scratch".to_string());
            c17::run(&mut out, tier, seed, &scratch)
        }
        "c16child" => {
            drop(out);
            let code = c16::child(&args[5], &args[6], args[7] == "1", args[8] == "1");
            std::process::exit(code);
        }
        "c18" => {
            let scratch = args.get(5).cloned().unwrap_or_else(|| "/verif/.build/scratch".to_string());
            c18::run(&mut out, tier, seed, &scratch)
        }
        "c19" => c19::run(&mut out, tier, seed),
        _ => {
            eprintln!("unknown property {prop}");
            std::process::exit(2);
        }
    }
    out.finish();
}
