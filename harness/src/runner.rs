//! Compile many small Incan programs with the real pipeline, build them as ONE Cargo project (one module
//! per program, release profile like `incan build`), and run each program as `batch <k>`.
use crate::util::catch;
use std::process::Command;

pub struct Case {
    pub name: String,
    pub source: String,
}

#[derive(Clone, Debug)]
pub enum Outcome {
    /// rejected before any Rust was produced: (stage, first message)
    Rejected(String, String),
    /// rustc rejected the generated module: first error line
    RustcError(String),
    /// ran: stdout, exit code, panic message (if it panicked)
    Ran { stdout: String, code: i32, panic: Option<String> },
    /// harness-level problem (timeout, spawn failure)
    Harness(String),
}

pub struct Compiled {
    pub rust: Option<String>,
    pub outcome: Option<Outcome>,
}

/// The real front end + code generator on one source (in-process).
pub fn compile(source: &str) -> Result<String, (String, String)> {
    let r = catch(|| -> Result<String, (String, String)> {
        let toks = incan_syntax::lexer::lex(source).map_err(|e| ("lex".to_string(), e[0].message.clone()))?;
        let ast = incan_syntax::parser::parse(&toks).map_err(|e| ("parse".to_string(), e[0].message.clone()))?;
        let mut tc = incan::frontend::typechecker::TypeChecker::new();
        tc.check_program(&ast).map_err(|e| ("check".to_string(), e[0].message.clone()))?;
        let mut cg = incan::IrCodegen::new();
        cg.scan_for_serde(&ast);
        cg.scan_for_async(&ast);
        cg.scan_for_web(&ast);
        cg.scan_for_list_helpers(&ast);
        cg.try_generate(&ast).map_err(|e| ("codegen".to_string(), e.to_string()))
    });
    match r {
        Ok(x) => x,
        Err(m) => Err(("panic".to_string(), m)),
    }
}

fn module_text(rust: &str) -> String {
    // drop the crate-level inner attribute and the mod-insertion marker; rename the entry point
    let mut out = String::from("#![allow(unused_imports, dead_code, unused_variables, unused_mut, unused_parens, unused_assignments, non_snake_case, unreachable_code)]\n");
    let mut has_entry = false;
    for line in rust.lines() {
        let t = line.trim_start();
        if t.starts_with("#![") || t.starts_with("// __INCAN_INSERT_MODS__") {
            continue;
        }
        if t.starts_with("fn main()") {
            out.push_str(&line.replacen("fn main()", "pub fn incan_main()", 1));
            has_entry = true;
        } else if t.starts_with("async fn main()") {
            out.push_str(&line.replacen("async fn main()", "pub async fn incan_main()", 1));
            has_entry = true;
        } else {
            out.push_str(line);
        }
        out.push('\n');
    }
    if !has_entry {
        // a library-like program (declarations only): it still has to compile; running it does nothing
        out.push_str("pub fn incan_main() {}\n");
    }
    out
}

/// Build and run. `dir` is a scratch directory (created / overwritten); `target` a cargo target dir.
pub fn run_batch(dir: &str, target: &str, cases: &[Case]) -> Vec<Outcome> {
    let mut outcomes: Vec<Option<Outcome>> = vec![None; cases.len()];
    let mut modules: Vec<Option<String>> = Vec::new();
    for (i, c) in cases.iter().enumerate() {
        match compile(&c.source) {
            Ok(rust) => modules.push(Some(module_text(&rust))),
            Err((stage, msg)) => {
                outcomes[i] = Some(Outcome::Rejected(stage, msg.lines().next().unwrap_or("").to_string()));
                modules.push(None);
            }
        }
    }
    let _ = std::fs::remove_dir_all(dir);
    std::fs::create_dir_all(format!("{dir}/src")).expect("mkdir");
    let repo = "/repo";
    std::fs::write(
        format!("{dir}/Cargo.toml"),
        format!(
            "[package]\nname = \"batch\"\nversion = \"0.1.0\"\nedition = \"2021\"\n\n[workspace]\n\n[dependencies]\nincan_stdlib = {{ path = \"{repo}/crates/incan_stdlib\", features = [\"json\"] }}\nincan_derive = {{ path = \"{repo}/crates/incan_derive\" }}\nserde = {{ version = \"1.0\", features = [\"derive\"] }}\nserde_json = \"1.0\"\n\n[profile.release]\nopt-level = 1\ncodegen-units = 16\n"
        ),
    )
    .expect("cargo toml");
    let _ = std::fs::copy(format!("{repo}/Cargo.lock"), format!("{dir}/Cargo.lock"));
    let mut live: Vec<usize> = (0..cases.len()).filter(|i| modules[*i].is_some()).collect();
    for round in 0..6 {
        // (re)write sources
        let _ = std::fs::remove_dir_all(format!("{dir}/src"));
        std::fs::create_dir_all(format!("{dir}/src")).expect("mkdir");
        let mut main = String::from("#![allow(unused)]\n");
        for i in &live {
            std::fs::write(format!("{dir}/src/case_{i}.rs"), modules[*i].as_ref().expect("module")).expect("write");
            main.push_str(&format!("mod case_{i};\n"));
        }
        main.push_str("fn main() {\n    let k: usize = std::env::args().nth(1).and_then(|s| s.parse().ok()).unwrap_or(usize::MAX);\n    match k {\n");
        for i in &live {
            main.push_str(&format!("        {i} => case_{i}::incan_main(),\n"));
        }
        main.push_str("        _ => std::process::exit(97),\n    }\n}\n");
        std::fs::write(format!("{dir}/src/main.rs"), main).expect("write main");
        let out = Command::new("cargo")
            .args(["build", "--release", "--offline", "--message-format=short"])
            .current_dir(dir)
            .env("CARGO_TARGET_DIR", target)
            .env("CARGO_NET_OFFLINE", "true")
            .env("RUSTFLAGS", "")
            .output();
        let Ok(out) = out else {
            for i in &live {
                outcomes[*i] = Some(Outcome::Harness("cargo could not be started".into()));
            }
            return outcomes.into_iter().map(|o| o.unwrap_or(Outcome::Harness("?".into()))).collect();
        };
        if out.status.success() {
            break;
        }
        // attribute errors to modules: "src/case_12.rs:5:9: error[E0308]: mismatched types"
        let stderr = String::from_utf8_lossy(&out.stderr);
        let mut bad: Vec<(usize, String)> = Vec::new();
        for line in stderr.lines() {
            if let Some(p) = line.find("src/case_") {
                if line.contains(": error") {
                    let rest = &line[p + 9..];
                    let num: String = rest.chars().take_while(|c| c.is_ascii_digit()).collect();
                    if let Ok(k) = num.parse::<usize>() {
                        if !bad.iter().any(|(b, _)| *b == k) {
                            let msg = line.split(": error").nth(1).unwrap_or("").trim_start_matches(|c: char| c == '[' || c.is_alphanumeric() || c == ']' || c == ':' || c == ' ');
                            let code = line.split("error[").nth(1).and_then(|s| s.split(']').next()).unwrap_or("");
                            bad.push((k, format!("{code} {msg}").trim().to_string()));
                        }
                    }
                }
            }
        }
        if bad.is_empty() || round == 5 {
            let first = stderr.lines().find(|l| l.contains("error")).unwrap_or("build failed").to_string();
            for i in &live {
                outcomes[*i] = Some(Outcome::Harness(format!("batch build failed: {first}")));
            }
            return outcomes.into_iter().map(|o| o.unwrap_or(Outcome::Harness("?".into()))).collect();
        }
        for (k, msg) in bad {
            outcomes[k] = Some(Outcome::RustcError(msg));
            live.retain(|x| *x != k);
        }
    }
    let bin = format!("{target}/release/batch");
    for i in live {
        if outcomes[i].is_some() {
            continue;
        }
        let (status, stdout, stderr) = match watchdog_run(&bin, &[i.to_string()]) {
            Ok(t) => t,
            Err(e) => {
                outcomes[i] = Some(Outcome::Harness(e));
                continue;
            }
        };
        outcomes[i] = Some(match status {
            None => Outcome::Harness("timeout (program did not finish within 10 s, nor within 90 s when run again)".into()),
            Some(st) => {
                let panic = if stderr.contains("panicked at") {
                    // message is the line after the "thread 'main' panicked at file:line:col:" line
                    let mut it = stderr.lines();
                    let mut msg = None;
                    while let Some(l) = it.next() {
                        if l.contains("panicked at") {
                            msg = it.next().map(|s| s.trim().to_string());
                            break;
                        }
                    }
                    msg.or(Some("<panic>".to_string()))
                } else {
                    None
                };
                Outcome::Ran { stdout, code: st.code().unwrap_or(-1), panic }
            }
        });
    }
    outcomes.into_iter().map(|o| o.unwrap_or(Outcome::Harness("not run".into()))).collect()
}

pub fn show(o: &Outcome) -> String {
    match o {
        Outcome::Rejected(stage, msg) => format!("rejected:{stage}:{}", msg.replace(' ', "_").chars().take(80).collect::<String>()),
        Outcome::RustcError(m) => format!("rustc-error:{}", m.replace(' ', "_").chars().take(90).collect::<String>()),
        Outcome::Ran { stdout, code, panic } => format!(
            "ran code={code} out={} panic={}",
            if stdout.is_empty() { "-".to_string() } else { stdout.trim_end_matches('\n').replace('\n', "|").replace(' ', "_") },
            panic.as_ref().map(|p| p.replace(' ', "_")).unwrap_or_else(|| "-".to_string())
        ),
        Outcome::Harness(m) => format!("harness:{}", m.replace(' ', "_")),
    }
}

fn run_binary(bin: &str, args: &[String]) -> Outcome {
    let (status, stdout, stderr) = match watchdog_run(bin, args) {
        Ok(t) => t,
        Err(e) => return Outcome::Harness(e),
    };
    match status {
        None => Outcome::Harness("timeout (program did not finish within 10 s, nor within 90 s when run again)".into()),
        Some(st) => {
            let panic = if stderr.contains("panicked at") {
                let mut it = stderr.lines();
                let mut msg = None;
                while let Some(l) = it.next() {
                    if l.contains("panicked at") {
                        msg = it.next().map(|s| s.trim().to_string());
                        break;
                    }
                }
                msg.or(Some("<panic>".to_string()))
            } else {
                None
            };
            Outcome::Ran { stdout, code: st.code().unwrap_or(-1), panic }
        }
    }
}

/// The real multi-file path: `incan build <main> <outdir>` in-process (module collection, per-module
/// lowering, project generation, cargo build --release), then run the produced binary.
/// `target` is exported as CARGO_TARGET_DIR so successive projects share compiled dependencies.
pub fn build_project(main: &str, outdir: &str, target: &str) -> Outcome {
    unsafe { std::env::set_var("CARGO_TARGET_DIR", target) };
    unsafe { std::env::set_var("CARGO_NET_OFFLINE", "true") };
    let _ = std::fs::remove_dir_all(outdir);
    let od = outdir.to_string();
    let r = catch(|| incan::cli::commands::build_file(main, Some(&od)));
    let out = match r {
        Err(m) => Outcome::Rejected("panic".into(), m),
        Ok(Err(e)) => {
            let first = e.message.lines().find(|l| l.contains("error")).unwrap_or(e.message.lines().next().unwrap_or("")).to_string();
            if e.message.contains("Build failed") {
                Outcome::RustcError(first)
            } else {
                Outcome::Rejected("cli".into(), first)
            }
        }
        Ok(Ok(_)) => {
            let stem = std::path::Path::new(main).file_stem().map(|s| s.to_string_lossy().to_string()).unwrap_or_default();
            run_binary(&format!("{target}/release/{stem}"), &[])
        }
    };
    let _ = std::fs::remove_dir_all(outdir);
    out
}

/// Run a compiled program under a watchdog.  The pipes are drained by reader threads while the program runs
/// (a program printing more than the pipe buffer must not look like a hang).  A program that misses the
/// 10 s limit is run once more with 90 s before it is reported: on a loaded machine (other builds running)
/// a trivial program can miss the short limit, and a timeout is an alarm.
fn watchdog_run(bin: &str, args: &[String]) -> Result<(Option<std::process::ExitStatus>, String, String), String> {
    let mut last = (None, String::new(), String::new());
    for limit in [10u64, 90] {
        // programs that write files (the repository's file_io example) write them next to the binary, not into
        // whatever directory the check was started from
        let cwd = std::path::Path::new(bin).parent().map(|p| p.to_path_buf()).unwrap_or_else(|| std::path::PathBuf::from("."));
        let mut child = Command::new(bin)
            .args(args)
            .current_dir(cwd)
            .stdout(std::process::Stdio::piped())
            .stderr(std::process::Stdio::piped())
            .spawn()
            .map_err(|e| format!("spawn: {e}"))?;
        use std::io::Read;
        let mut so = child.stdout.take();
        let mut se = child.stderr.take();
        let t_out = std::thread::spawn(move || {
            let mut s = Vec::new();
            if let Some(o) = so.as_mut() {
                let _ = o.read_to_end(&mut s);
            }
            String::from_utf8_lossy(&s).into_owned()
        });
        let t_err = std::thread::spawn(move || {
            let mut s = Vec::new();
            if let Some(e) = se.as_mut() {
                let _ = e.read_to_end(&mut s);
            }
            String::from_utf8_lossy(&s).into_owned()
        });
        let start = std::time::Instant::now();
        let status = loop {
            match child.try_wait() {
                Ok(Some(st)) => break Some(st),
                Ok(None) => {
                    if start.elapsed().as_secs() >= limit {
                        let _ = child.kill();
                        let _ = child.wait();
                        break None;
                    }
                    std::thread::sleep(std::time::Duration::from_millis(5));
                }
                Err(_) => break None,
            }
        };
        let stdout = t_out.join().unwrap_or_default();
        let stderr = t_err.join().unwrap_or_default();
        last = (status, stdout, stderr);
        if last.0.is_some() {
            break;
        }
    }
    Ok(last)
}
