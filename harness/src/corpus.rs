//! The repository's own `.incn` files, used as seed inputs by several properties.
use std::path::{Path, PathBuf};

fn walk(dir: &Path, out: &mut Vec<PathBuf>) {
    let Ok(rd) = std::fs::read_dir(dir) else { return };
    let mut entries: Vec<_> = rd.flatten().map(|e| e.path()).collect();
    entries.sort();
    for p in entries {
        let name = p.file_name().and_then(|s| s.to_str()).unwrap_or("");
        if p.is_dir() {
            if name == "target" || name == ".git" || name == "node_modules" {
                continue;
            }
            walk(&p, out);
        } else if name.ends_with(".incn") || name.ends_with(".incan") {
            out.push(p);
        }
    }
}

/// (relative path, contents) of every Incan source file under /repo, sorted.
pub fn files() -> Vec<(String, String)> {
    let mut v = Vec::new();
    walk(Path::new("/repo"), &mut v);
    v.into_iter()
        .filter_map(|p| {
            let s = std::fs::read_to_string(&p).ok()?;
            Some((p.strip_prefix("/repo").ok()?.to_string_lossy().to_string(), s))
        })
        .collect()
}

/// Debug rendering of an AST with every span erased.
pub fn erase_spans(dbg: &str) -> String {
    // "Span { start: 12, end: 34 }" -> "Span"
    let mut out = String::with_capacity(dbg.len());
    let bytes = dbg.as_bytes();
    let pat = b"Span { start: ";
    let mut i = 0;
    while i < bytes.len() {
        if bytes[i..].starts_with(pat) {
            let mut j = i + pat.len();
            while j < bytes.len() && bytes[j].is_ascii_digit() {
                j += 1;
            }
            if bytes[j..].starts_with(b", end: ") {
                j += 7;
                while j < bytes.len() && bytes[j].is_ascii_digit() {
                    j += 1;
                }
                if bytes[j..].starts_with(b" }") {
                    out.push_str("Span");
                    i = j + 2;
                    continue;
                }
            }
        }
        // copy one UTF-8 char
        let ch_len = match bytes[i] {
            b if b < 0x80 => 1,
            b if b >> 5 == 0b110 => 2,
            b if b >> 4 == 0b1110 => 3,
            _ => 4,
        };
        out.push_str(&dbg[i..i + ch_len]);
        i += ch_len;
    }
    out
}

pub fn ast_string(src: &str) -> Result<String, String> {
    let toks = incan_syntax::lexer::lex(src).map_err(|e| format!("lexerr {}", e[0].message))?;
    let prog = incan_syntax::parser::parse(&toks).map_err(|e| format!("parseerr {}", e[0].message))?;
    Ok(erase_spans(&format!("{prog:?}")))
}

/// The formatter's documented docstring normalisation: surrounding whitespace of a docstring is not
/// significant (`format_docstring` trims it). Applied to both sides before comparing ASTs for C08.
pub fn normalize_docstrings(dbg: &str) -> String {
    let mut out = String::with_capacity(dbg.len());
    let mut rest = dbg;
    loop {
        let next = ["Docstring(\"", "docstring: Some(\""].iter().filter_map(|p| rest.find(p).map(|i| (i, p.len()))).min();
        let Some((i, plen)) = next else {
            out.push_str(rest);
            return out;
        };
        out.push_str(&rest[..i + plen]);
        rest = &rest[i + plen..];
        // find the closing unescaped quote
        let b = rest.as_bytes();
        let mut j = 0;
        while j < b.len() {
            if b[j] == b'\\' {
                j += 2;
                continue;
            }
            if b[j] == b'"' {
                break;
            }
            j += 1;
        }
        let j = j.min(rest.len());
        let mut body = &rest[..j];
        loop {
            let t = body.trim_start_matches(' ');
            let t = t.strip_prefix("\\n").or_else(|| t.strip_prefix("\\t")).or_else(|| t.strip_prefix("\\r")).unwrap_or(t);
            if t.len() == body.len() {
                break;
            }
            body = t;
        }
        loop {
            let t = body.trim_end_matches(' ');
            let t = t.strip_suffix("\\n").or_else(|| t.strip_suffix("\\t")).or_else(|| t.strip_suffix("\\r")).unwrap_or(t);
            if t.len() == body.len() {
                break;
            }
            body = t;
        }
        out.push_str(body);
        rest = &rest[j..];
    }
}
