//! C12: determinism. Every observable output of the compiler for a source is hashed; the check runs
//! this stream in separate processes (different cwd / HOME / TZ / locale, fresh hash-map seeds) and
//! compares. Inside one process everything is also computed twice.
use crate::corpus;
use crate::util::{Out, catch};
use std::collections::hash_map::DefaultHasher;
use std::hash::{Hash, Hasher};

fn h(s: &str) -> String {
    // DefaultHasher::new() uses fixed keys (SipHash with zero keys): stable across processes
    let mut x = DefaultHasher::new();
    s.hash(&mut x);
    format!("{:016x}", x.finish())
}

/// Everything the CLI would print or write for one source file (single-file commands).
fn observe(name: &str, src: &str) -> String {
    let mut out = String::new();
    match incan_syntax::lexer::lex(src) {
        Err(errs) => {
            for e in &errs {
                out.push_str(&incan_syntax::diagnostics::format_error(name, src, e));
            }
        }
        Ok(toks) => match incan_syntax::parser::parse(&toks) {
            Err(errs) => {
                for e in &errs {
                    out.push_str(&incan_syntax::diagnostics::format_error(name, src, e));
                }
            }
            Ok(ast) => {
                let mut tc = incan::frontend::typechecker::TypeChecker::new();
                if let Err(errs) = tc.check_program(&ast) {
                    out.push_str("== check\n");
                    for e in &errs {
                        out.push_str(&incan_syntax::diagnostics::format_error(name, src, e));
                    }
                }
                out.push_str("== emit\n");
                match incan::IrCodegen::new().try_generate(&ast) {
                    Ok(code) => out.push_str(&code),
                    Err(e) => out.push_str(&format!("ERR {e}")),
                }
                out.push_str("== fmt\n");
                match incan::format_source(src) {
                    Ok(t) => out.push_str(&t),
                    Err(e) => out.push_str(&format!("ERR {e}")),
                }
                if let Ok(Some(d)) = incan::format_diff(src) {
                    out.push_str("== diff\n");
                    out.push_str(&d);
                }
            }
        },
    }
    out
}

fn hash_tree(dir: &str) -> String {
    fn walk(d: &std::path::Path, base: &std::path::Path, acc: &mut Vec<(String, String)>) {
        if let Ok(rd) = std::fs::read_dir(d) {
            let mut es: Vec<_> = rd.flatten().map(|e| e.path()).collect();
            es.sort();
            for p in es {
                if p.is_dir() {
                    walk(&p, base, acc);
                } else {
                    let rel = p.strip_prefix(base).unwrap_or(&p).to_string_lossy().to_string();
                    acc.push((rel, std::fs::read_to_string(&p).unwrap_or_default()));
                }
            }
        }
    }
    let mut acc = Vec::new();
    walk(std::path::Path::new(dir), std::path::Path::new(dir), &mut acc);
    let mut all = String::new();
    for (n, c) in acc {
        all.push_str(&format!("--- {n}\n{c}\n"));
    }
    h(&all)
}

const EXTRA: [(&str, &str); 10] = [
    ("<several unknown keyword arguments>", "def f(a: int) -> int:\n    return a\n\nclass K:\n    v: int\n\n    def m(self, a: int) -> int:\n        return a\n\ndef main() -> None:\n    x = f(a=1, zz=2, yy=3, xx=4, ww=5, vv=6)\n    y = K(v=1).m(a=1, q1=1, q2=2, q3=3, q4=4, q5=5)\n    z = f(1, 2, 3, 4, b=1, c=2, d=3)\n"),
    ("<several wrong arguments>", "def f(a: int, b: int, c: int, d: int, e: int) -> int:\n    return a\n\ndef main() -> None:\n    x = f(\"a\", \"b\", \"c\", \"d\", \"e\")\n    y = f(a=\"a\", e=\"e\", c=\"c\", b=\"b\", d=\"d\")\n    z = f()\n"),
    ("<several unused / shadowed / duplicate declarations>", "def f() -> int:\n    return 1\n\ndef f() -> int:\n    return 2\n\nmodel M:\n    a: int\n    a: int\n    b: str\n    b: str\n\nenum E:\n    A\n    A\n    B\n    B\n\ndef main() -> None:\n    m = M(a=1, b=\"x\")\n    n = nope1(nope2, nope3, nope4)\n    m.q1 = 1\n    m.q2 = 2\n    print(m.r1, m.r2, m.r3)\n"),
    ("<several missing fields>", "model P:\n    a: int\n    b: int\n    c: int\n    d: str\n    e: str\n\ndef main() -> None:\n    p = P()\n    q = P(a=1, zz=2, yy=3, xx=4)\n"),
    ("<several unknown names>", "def main() -> None:\n    print(u1, u2, u3, u4)\n    x: int = \"s\"\n    y: str = 1\n"),
    ("<several traits>", "trait A:\n    def a(self) -> int: ...\n\ntrait B:\n    def b(self) -> int: ...\n\ntrait C:\n    def c(self) -> int: ...\n\nclass K with A, B, C:\n    v: int\n\ndef main() -> None:\n    pass\n"),
    ("<non-exhaustive match, several variants>", "enum Dir:\n    North\n    South\n    East\n    West\n    Up\n    Down\n\ndef f(d: Dir) -> int:\n    match d:\n        Dir.North => return 1\n    return 0\n\ndef g(o: Option[int], r: Result[int, str]) -> int:\n    match o:\n        Some(v) => return v\n    match r:\n        Ok(v) => return v\n    return 0\n"),
    ("<several missing trait methods>", "trait T:\n    def a(self) -> int: ...\n    def b(self) -> int: ...\n    def c(self) -> int: ...\n    def d(self) -> int: ...\n    def e(self) -> int: ...\n\nclass K with T:\n    v: int\n\n@requires(p: int, q: int, r: str, s: str)\ntrait R:\n    def show(self) -> int:\n        return 1\n\nclass L with R:\n    z: int\n\ndef main() -> None:\n    pass\n"),
    ("<duplicate and unknown fields>", "model P:\n    a: int\n    b: int\n\ndef main() -> None:\n    p = P(a=1, a=2, b=3, zz=4, yy=5, xx=6, ww=7)\n    q = undefined1 + undefined2 + undefined3\n"),
    ("<several rust imports>", "import rust::uuid\nimport rust::rand\nimport rust::regex\nimport rust::anyhow\nimport rust::log\nfrom rust::std::collections import HashMap\n\ndef main() -> None:\n    pass\n"),
];


/// Module-tree stream: `ProjectGenerator::generate_nested` on generated path sets (few names, so that shared
/// prefixes and module = directory clashes are common); what was written is read back per directory.
fn modtree(out: &mut Out, tier: &str, seed: u64, scratch: &str) -> usize {
    use incan::backend::project::ProjectGenerator;
    use std::collections::{BTreeSet, HashMap};
    let mut rng = crate::util::Rng::new(seed ^ 0xc12);
    let names = ["a", "b", "c", "ab", "b_a", "z9"];
    let n = if tier == "thorough" { 400 } else { 60 };
    let code = "// Generated by the Incan compiler\n\n#![allow(unused_imports, dead_code, unused_variables)]\n\nuse incan_stdlib::prelude::*;\npub fn f() -> i64 {\n    return 1;\n}\n";
    let mut sets: Vec<Vec<Vec<String>>> = vec![
        vec![vec!["a".into()], vec!["a".into(), "b".into()], vec!["a".into(), "c".into(), "d".into()]],
        vec![vec!["b".into(), "a".into()], vec!["a".into(), "b".into()], vec!["a".into()], vec!["b".into()]],
    ];
    for _ in 0..n {
        let k = 1 + rng.below(6) as usize;
        let mut set: BTreeSet<Vec<String>> = BTreeSet::new();
        for _ in 0..k {
            let depth = 1 + rng.below(3) as usize;
            set.insert((0..depth).map(|_| names[rng.below(names.len() as u64) as usize].to_string()).collect());
        }
        // presented in a generated order (the model must not depend on it either)
        let mut v: Vec<Vec<String>> = set.into_iter().collect();
        for i in (1..v.len()).rev() {
            v.swap(i, rng.below(i as u64 + 1) as usize);
        }
        sets.push(v);
    }
    let mut count = 0;
    for (si, set) in sets.iter().enumerate() {
        let mut dirs: BTreeSet<Vec<String>> = BTreeSet::new();
        for p in set {
            for i in 0..=p.len() {
                dirs.insert(p[..i].to_vec());
            }
        }
        let shown = set.iter().map(|p| p.join("/")).collect::<Vec<_>>().join(",");
        let mut per_dir: HashMap<Vec<String>, BTreeSet<String>> = HashMap::new();
        for rep in 0..3 {
            let dir = format!("{scratch}/c12tree{si}_{rep}");
            let _ = std::fs::remove_dir_all(&dir);
            // a fresh map each time: a new hash seed, a new iteration order
            let mut modules: HashMap<Vec<String>, String> = HashMap::new();
            for p in set {
                modules.insert(p.clone(), code.to_string());
            }
            let g = ProjectGenerator::new(&dir, "tree", true);
            let res = catch(|| g.generate_nested(code, &modules).map_err(|e| e.to_string()));
            for d in &dirs {
                let obs = match &res {
                    Err(m) => format!("panic {m}"),
                    Ok(Err(e)) => format!("error {e}"),
                    Ok(Ok(())) => {
                        let read = |p: String| std::fs::read_to_string(p).ok();
                        let mods = |text: &str, kw: &str| -> Vec<String> {
                            text.lines().filter_map(|l| l.strip_prefix(kw).and_then(|r| r.strip_suffix(';'))).map(|x| x.to_string()).collect()
                        };
                        if d.is_empty() {
                            let main = read(format!("{dir}/src/main.rs")).unwrap_or_default();
                            let kids = mods(&main, "mod ");
                            format!("- - {} {}", if kids.is_empty() { "none" } else { "main" }, kids.join(","))
                        } else {
                            let own = read(format!("{dir}/src/{}.rs", d.join("/")));
                            let modrs = read(format!("{dir}/src/{}/mod.rs", d.join("/")));
                            let ko = own.as_deref().map(|t| mods(t, "pub mod ")).unwrap_or_default();
                            let km = modrs.as_deref().map(|t| mods(t, "pub mod ")).unwrap_or_default();
                            let (car, kids) = match (ko.is_empty(), km.is_empty()) {
                                (true, true) => ("none", vec![]),
                                (false, true) => ("own", ko),
                                (true, false) => ("mod", km),
                                (false, false) => ("both", [ko, km].concat()),
                            };
                            format!("{} {} {car} {}", own.is_some() as u8, modrs.is_some() as u8, kids.join(","))
                        }
                    }
                };
                per_dir.entry(d.clone()).or_default().insert(obs);
            }
            let _ = std::fs::remove_dir_all(&dir);
        }
        for d in &dirs {
            let obs = &per_dir[d];
            let dshow = if d.is_empty() { "-".to_string() } else { d.join("/") };
            let real = if obs.len() == 1 { obs.iter().next().cloned().unwrap_or_default() } else { format!("DIFFERS-IN-PROCESS {}", obs.iter().cloned().collect::<Vec<_>>().join(" | ")) };
            out.case(&format!("c12 modtree {shown} {dshow} 0"), &real);
            count += 1;
        }
    }
    count
}

pub fn run(out: &mut Out, tier: &str, seed: u64, scratch: &str) {
    let tree_cases = modtree(out, tier, seed, scratch);
    let mut sources: Vec<(String, String)> = corpus::files();
    for (n, s) in EXTRA {
        sources.push((n.to_string(), s.to_string()));
    }
    let mut twice_differs = 0;
    for (name, src) in &sources {
        let a = catch(|| observe(name, src)).unwrap_or_else(|m| format!("panic {m}"));
        let b = catch(|| observe(name, src)).unwrap_or_else(|m| format!("panic {m}"));
        if a != b {
            twice_differs += 1;
        }
        out.case(&format!("c12 file {}", name.replace(' ', "_")), &format!("{} {}", h(&a), if a == b { "same-twice" } else { "DIFFERS-IN-PROCESS" }));
    }
    // multi-file projects through the real build path (stub cargo in PATH, set up by the caller)
    let stub = format!("{scratch}/c12stub");
    std::fs::create_dir_all(&stub).expect("stub dir");
    std::fs::write(format!("{stub}/cargo"), "#!/bin/sh\nexit 0\n").expect("stub");
    #[cfg(unix)]
    {
        use std::os::unix::fs::PermissionsExt;
        let _ = std::fs::set_permissions(format!("{stub}/cargo"), std::fs::Permissions::from_mode(0o755));
    }
    let path = std::env::var("PATH").unwrap_or_default();
    unsafe { std::env::set_var("PATH", format!("{stub}:{path}")) };
    let mut projects: Vec<String> = Vec::new();
    for (name, _) in &sources {
        if name.contains("multifile") || name.contains("nested_project") {
            if name.ends_with("main.incn") {
                projects.push(format!("/repo/{name}"));
            }
        }
    }
    // a synthetic project with five rust:: imports and two helper modules
    let ws = format!("{scratch}/c12ws");
    let _ = std::fs::remove_dir_all(&ws);
    std::fs::create_dir_all(&ws).expect("ws");
    std::fs::write(format!("{ws}/alpha.incn"), "import rust::bytes\n\npub def fa() -> int:\n    return 1\n").expect("w");
    std::fs::write(format!("{ws}/beta.incn"), "import rust::itertools\n\npub def fb() -> int:\n    return 2\n").expect("w");
    std::fs::write(
        format!("{ws}/main.incn"),
        "import rust::uuid\nimport rust::rand\nimport rust::regex\nimport rust::anyhow\nimport rust::log\nfrom alpha import fa\nfrom beta import fb\n\ndef main() -> None:\n    print(fa() + fb())\n",
    )
    .expect("w");
    projects.push(format!("{ws}/main.incn"));
    for p in &projects {
        let outdir = format!("{scratch}/c12out");
        let mut hashes = Vec::new();
        for _ in 0..3 {
            let _ = std::fs::remove_dir_all(&outdir);
            let status = match catch(|| incan::cli::commands::build_file(p, Some(&outdir))) {
                Ok(Ok(_)) => "built".to_string(),
                Ok(Err(e)) => format!("refused:{}", h(&e.message)),
                Err(m) => format!("panic {m}"),
            };
            hashes.push(format!("{status}:{}", hash_tree(&outdir)));
        }
        let same = hashes.iter().all(|x| *x == hashes[0]);
        let shown = p.replace(scratch, "<scratch>");
        out.case(&format!("c12 project {shown}"), &format!("{} {}", hashes[0], if same { "same-thrice" } else { "DIFFERS-IN-PROCESS" }));
        let _ = std::fs::remove_dir_all(&outdir);
    }
    // a multi-file project with a syntax error in an imported module, checked through a *relative* path from inside
    // a directory that differs from process to process: what is printed must not depend on where the project lives
    {
        let rel = format!("{scratch}/c12rel");
        let _ = std::fs::remove_dir_all(&rel);
        std::fs::create_dir_all(&rel).expect("mkdir");
        std::fs::write(format!("{rel}/helper.incn"), "pub def helper( -> int:\n    return 1\n").expect("w");
        std::fs::write(format!("{rel}/other.incn"), "pub def other() -> int:\n    return 2 +\n").expect("w");
        std::fs::write(format!("{rel}/main.incn"), "from helper import helper\nfrom other import other\n\ndef main() -> None:\n    print(helper() + other())\n").expect("w");
        let old = std::env::current_dir().ok();
        let _ = std::env::set_current_dir(&rel);
        let shown = match catch(|| incan::cli::commands::collect_modules("main.incn")) {
            Ok(Ok(ms)) => format!("collected {}", ms.len()),
            Ok(Err(e)) => format!("error {}", e.message),
            Err(m) => format!("panic {m}"),
        };
        if let Some(o) = old { let _ = std::env::set_current_dir(o); }
        out.case("c12 relative broken-dependency", &format!("{} {}", h(&shown), if shown.contains(&rel) { "MENTIONS-ABSOLUTE-LOCATION" } else { "relative" }));
        let _ = std::fs::remove_dir_all(&rel);
    }
    // `incan test -v` on a file with several fixtures (every test skipped: nothing is compiled), four processes
    {
        let tv = format!("{scratch}/c12testv");
        let _ = std::fs::remove_dir_all(&tv);
        std::fs::create_dir_all(format!("{tv}/tests")).expect("mkdir");
        let mut src = String::from("from testing import assert_eq\n\n");
        for (i, n) in ["db", "cache", "client", "tmpdir", "clock", "config", "queue"].iter().enumerate() {
            src.push_str(&format!("@fixture{}\ndef {n}() -> int:\n    return {i}\n\n", if i % 3 == 0 { "(autouse=true)" } else { "" }));
        }
        src.push_str("@skip(\"not now\")\ndef test_uses(db: int, cache: int) -> None:\n    assert_eq(db, 0)\n");
        std::fs::write(format!("{tv}/tests/test_fx.incn"), src).expect("w");
        let exe = std::env::current_exe().expect("exe");
        let mut outs = Vec::new();
        for _ in 0..4 {
            let o = std::process::Command::new(&exe)
                .args(["c16child", "x", "0", "/dev/null", "tests", "-", "0", "0"])
                .current_dir(&tv)
                .env("VERIF_TEST_VERBOSE", "1")
                .env("NO_COLOR", "1")
                .output()
                .expect("spawn");
            let text: String = String::from_utf8_lossy(&o.stdout).lines().filter(|l| !l.contains(" in ")).collect::<Vec<_>>().join("\n");
            outs.push(text);
        }
        let same = outs.iter().all(|x| *x == outs[0]);
        let listed = outs[0].lines().filter(|l| l.trim_start().starts_with("- ")).count();
        out.case("c12 testv fixtures", &format!("{} fixtures={listed} {}", h(&outs[0]), if same { "same-4" } else { "DIFFERS-IN-PROCESS" }));
        let _ = std::fs::remove_dir_all(&tv);
    }
    unsafe { std::env::set_var("PATH", path) };
    let _ = std::fs::remove_dir_all(&ws);
    let _ = std::fs::remove_dir_all(&stub);
    out.meta(&serde_json::json!({"sources": sources.len(), "projects": projects.len(), "in_process_differences": twice_differs, "module_tree_cases": tree_cases}));
}
