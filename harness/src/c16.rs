//! C16: the real `incan test` (run_tests in a child process, real `cargo test` with a shared target
//! directory) on generated test files with known ground truth.
use crate::util::{Out, Rng};

#[derive(Clone)]
struct T {
    name: String,
    skip: bool,
    xfail: bool,
    slow: bool,
    body: &'static str, // "pass" | "assert" | "panic" | "index"
}

fn body_src(kind: &str) -> &'static str {
    match kind {
        "assert" => "    assert_eq(1 + 1, 3)\n",
        "panic" => "    xs = [1, 2]\n    print(xs[5])\n",
        "divzero" => "    z = 0\n    print(1 // z)\n",
        "assert_plain" => "    assert(1 == 2)\n",
        "assert_true" => "    assert_true(1 > 2)\n",
        "assert_false" => "    assert_false(1 < 2)\n",
        "assert_ne" => "    assert_ne(3, 3)\n",
        "fail" => "    fail(\"boom\")\n",
        "unwrap_none" => "    print(helper_none(0).unwrap())\n",
        // a failing body whose own output looks like the test harness reporting success
        "lookalike" => "    println(\"test result: ok. 1 passed; 0 failed; 0 ignored\")\n    println(\"test incan_test ... ok\")\n    assert_eq(1, 2)\n",
        // a passing body whose own output looks like a failure report
        "lookalike_ok" => "    println(\"test result: FAILED. 0 passed; 1 failed\")\n    println(\"panicked at src/main.rs\")\n    assert_eq(2, 2)\n",
        _ => "    assert_eq(2 + 2, 4)\n",
    }
}

fn render(tests: &[T]) -> String {
    let mut s = String::from("from testing import assert, assert_eq, assert_ne, assert_true, assert_false, fail\n\n");
    s.push_str("def helper_not_a_test() -> int:\n    return 1\n\n");
    s.push_str("def helper_none(n: int) -> Option[int]:\n    if n > 0:\n        return Some(n)\n    return None\n\n");
    for (i, t) in tests.iter().enumerate() {
        if t.skip {
            // every documented spelling of the marker (`@skip(reason: str = "")`)
            s.push_str(["@skip(\"not now\")\n", "@skip\n", "@skip()\n", "@skip(reason=\"later\")\n"][i % 4]);
        }
        if t.xfail {
            s.push_str("@xfail(\"known\")\n");
        }
        if t.slow {
            s.push_str("@slow\n");
        }
        s.push_str(&format!("def {}() -> None:\n{}\n", t.name, body_src(t.body)));
    }
    s
}

fn enc(tests: &[T]) -> String {
    tests
        .iter()
        .map(|t| format!("{}:{}{}{}{}", t.name, t.skip as u8, t.xfail as u8, t.slow as u8, (t.body == "pass" || t.body == "lookalike_ok") as u8))
        .collect::<Vec<_>>()
        .join(",")
}

/// Child mode: call the real runner; stdout is captured by the parent.
pub fn child(dir: &str, filter: &str, slow: bool, stop: bool) -> i32 {
    let f = if filter == "-" { None } else { Some(filter) };
    let verbose = std::env::var("VERIF_TEST_VERBOSE").is_ok();
    match incan::cli::test_runner::run_tests(dir, verbose, stop, slow, f, false, false) {
        Ok(_) => 0,
        Err(_) => 1,
    }
}

fn scenario(out: &mut Out, scratch: &str, tests: &[T], filter: &str, slow: bool, stop: bool) {
    scenario_files(out, scratch, &[("tests/test_gen.incn", tests.to_vec())], None, filter, slow, stop);
}

/// Several test files (given in the order the runner is expected to report them: sorted by path below `tests/`),
/// optionally with a symbolic link `tests/<link>` -> `<target>` to a directory outside `tests/`.
fn scenario_files(out: &mut Out, scratch: &str, files: &[(&str, Vec<T>)], symlink: Option<(&str, &str)>, filter: &str, slow: bool, stop: bool) {
    let ws = format!("{scratch}/c16ws");
    let _ = std::fs::remove_dir_all(&ws);
    std::fs::create_dir_all(format!("{ws}/tests")).expect("mkdir");
    for (rel, tests) in files {
        let path = format!("{ws}/{rel}");
        if let Some(parent) = std::path::Path::new(&path).parent() {
            std::fs::create_dir_all(parent).expect("mkdir");
        }
        std::fs::write(&path, render(tests)).expect("write");
    }
    #[cfg(unix)]
    if let Some((link, target)) = symlink {
        std::os::unix::fs::symlink(target, format!("{ws}/tests/{link}")).expect("symlink");
    }
    let exe = std::env::current_exe().expect("exe");
    let output = std::process::Command::new(exe)
        .args(["c16child", "x", "0", "/dev/null", "tests", filter, if slow { "1" } else { "0" }, if stop { "1" } else { "0" }])
        .current_dir(&ws)
        .env("CARGO_NET_OFFLINE", "true")
        .env("CARGO_TARGET_DIR", format!("{scratch}/c16target"))
        .env("NO_COLOR", "1")
        .output()
        .expect("spawn");
    let stdout = String::from_utf8_lossy(&output.stdout).to_string();
    // per-test verdict lines: "test_gen.incn::test_x PASSED"
    let mut verdicts = Vec::new();
    let mut summary = String::new();
    for line in stdout.lines() {
        if let Some((file, rest)) = line.split_once("::") {
            if file.ends_with(".incn") && !file.contains(' ') {
                let mut it = rest.split_whitespace();
                if let (Some(name), Some(status)) = (it.next(), it.next()) {
                    verdicts.push(format!("{name}={status}"));
                }
                continue;
            }
        }
        if line.contains(" in ") && line.starts_with("====") && line.ends_with("====") {
            let inner = line.trim_matches('=').trim();
            summary = inner.split(" in ").next().unwrap_or("").replace(", ", "+").replace(' ', "_");
        }
    }
    let code = output.status.code().unwrap_or(-1);
    let all: Vec<T> = files.iter().flat_map(|(_, ts)| ts.iter().cloned()).collect();
    out.case(
        &format!("c16 run {} {filter} {} {}", enc(&all), slow as u8, stop as u8),
        &format!("exit={code} verdicts={} summary={}", if verdicts.is_empty() { "-".to_string() } else { verdicts.join(",") }, if summary.is_empty() { "-".to_string() } else { summary }),
    );
    let _ = std::fs::remove_dir_all(&ws);
}

pub fn run(out: &mut Out, tier: &str, seed: u64, scratch: &str) {
    let mut rng = Rng::new(seed);
    let t = |name: &str, skip: bool, xfail: bool, slow: bool, body: &'static str| T { name: name.to_string(), skip, xfail, slow, body };
    let base = vec![
        t("test_add_ok", false, false, false, "pass"),
        t("test_add_bad", false, false, false, "assert"),
        t("test_index_panics", false, false, false, "panic"),
        t("test_skipped_bad", true, false, false, "assert"),
        t("test_xfail_bad", false, true, false, "assert"),
        t("test_xfail_ok", false, true, false, "pass"),
        t("test_slow_ok", false, false, true, "pass"),
    ];
    scenario(out, scratch, &base, "-", false, false);
    scenario(out, scratch, &base, "add", false, false);
    scenario(out, scratch, &base, "-", true, true);
    scenario(out, scratch, &[t("test_only_ok", false, false, false, "pass"), t("test_div", false, false, false, "divzero")], "-", false, false);
    scenario(out, scratch, &[t("test_a", false, false, false, "pass"), t("test_b", false, true, false, "panic")], "-", false, false);
    // -x must stop at the first FAILED test only: an expected failure (XFAIL), a skip and a pass do not stop the run
    scenario(
        out,
        scratch,
        &[t("test_a_known_bug", false, true, false, "assert"), t("test_b_skipped", true, false, false, "assert"), t("test_c_ok", false, false, false, "pass"), t("test_d_broken", false, false, false, "assert"), t("test_e_never", false, false, false, "pass")],
        "-",
        false,
        true,
    );
    // all four spellings of @skip on failing bodies: none may be executed
    scenario(
        out,
        scratch,
        &[t("test_s0", true, false, false, "assert"), t("test_s1", true, false, false, "panic"), t("test_s2", true, false, false, "assert"), t("test_s3", true, false, false, "divzero"), t("test_ok", false, false, false, "pass")],
        "-",
        false,
        false,
    );
    // every way a body can fail must be reported FAILED (constant-message and formatted panics alike)
    scenario(
        out,
        scratch,
        &[t("test_k_plain", false, false, false, "assert_plain"), t("test_k_true", false, false, false, "assert_true"), t("test_k_false", false, false, false, "assert_false"),
          t("test_k_ne", false, false, false, "assert_ne"), t("test_k_fail", false, false, false, "fail"), t("test_k_unwrap", false, false, false, "unwrap_none"), t("test_k_ok", false, false, false, "pass")],
        "-",
        false,
        false,
    );
    // -k never brings a @slow test back in without --slow; with --slow the keyword still applies
    let sel = vec![t("test_parse_fast", false, false, false, "pass"), t("test_parse_slow_bad", false, false, true, "assert"), t("test_other", false, false, false, "pass"), t("test_other_slow", false, false, true, "pass")];
    scenario(out, scratch, &sel, "parse", false, false);
    scenario(out, scratch, &sel, "parse", true, false);
    // verdicts come from what happened, not from what a test printed
    scenario(out, scratch, &[t("test_says_ok_but_fails", false, false, false, "lookalike"), t("test_says_failed_but_passes", false, false, false, "lookalike_ok"), t("test_plain", false, false, false, "pass")], "-", false, false);
    // an unexpected pass alone makes the run fail; expected failures and skips alone do not
    scenario(out, scratch, &[t("test_ok", false, false, false, "pass"), t("test_xpass_a", false, true, false, "pass"), t("test_xpass_b", false, true, false, "pass"), t("test_skipped", true, false, false, "assert")], "-", false, false);
    scenario(out, scratch, &[t("test_ok", false, false, false, "pass"), t("test_xfail", false, true, false, "assert"), t("test_skipped", true, false, false, "assert")], "-", false, false);
    // the same test name in two files: both are run and reported; a failing one decides the exit status
    scenario_files(
        out,
        scratch,
        &[("tests/test_alpha.incn", vec![t("test_roundtrip", false, false, false, "pass"), t("test_alpha_only", false, false, false, "pass")]),
          ("tests/test_beta.incn", vec![t("test_roundtrip", false, false, false, "assert"), t("test_beta_only", false, false, false, "pass")])],
        None,
        "-",
        false,
        false,
    );
    // test files in nested directories and behind a symbolic link to a directory outside the walked one
    scenario_files(
        out,
        scratch,
        &[("tests/deep/er/test_nested.incn", vec![t("test_nested_bad", false, false, false, "panic")]),
          ("shared_cases/test_broken.incn", vec![t("test_linked_bad", false, false, false, "assert")]),
          ("tests/test_main.incn", vec![t("test_main_ok", false, false, false, "pass")])],
        Some(("shared", "../shared_cases")),
        "-",
        false,
        false,
    );
    if tier == "thorough" {
        for _ in 0..6 {
            let n = 2 + rng.below(4) as usize;
            let mut ts = Vec::new();
            for i in 0..n {
                let body = *rng.pick(&["pass", "pass", "assert", "panic", "divzero", "assert_plain", "assert_true", "fail", "unwrap_none"]);
                ts.push(t(&format!("test_r{i}_{}", rng.pick(&["alpha", "beta", "add"])), rng.chance(1, 6), rng.chance(1, 5), rng.chance(1, 6), body));
            }
            let filter = *rng.pick(&["-", "-", "add", "alpha", "r1"]);
            scenario(out, scratch, &ts, filter, rng.chance(1, 2), rng.chance(1, 4));
        }
    }
    out.meta(&serde_json::json!({"note": "every non-skipped selected test is compiled and run by the real cargo test (shared CARGO_TARGET_DIR)"}));
}
