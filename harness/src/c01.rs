//! C01: compiled programs behave as the source says. Generated programs of the core fragment (ints, bools,
//! strings, List[int]; arithmetic incl. // and %, comparisons, and/or/not, len, indexing, concatenation, calls
//! with observable evaluation order; let/mut/assignment/compound assignment, if-elif-else, while, for over
//! range and lists, break/continue/return, append, print) are compiled by the real pipeline + rustc and run.
//! Each program travels three ways: Incan source (real), Python source (oracle: CPython), prefix encoding (model).
use crate::runner::{self, Case, Outcome};
use crate::util::{Out, Rng, enc_str};

#[derive(Clone, Debug)]
pub enum E {
    Int(i64), Bool(bool), Str(String), Var(String),
    Neg(Box<E>), Not(Box<E>),
    Arith(&'static str, Box<E>, Box<E>), Cmp(&'static str, Box<E>, Box<E>),
    And(Box<E>, Box<E>), Or(Box<E>, Box<E>), Concat(Box<E>, Box<E>),
    Len(Box<E>), Index(Box<E>, Box<E>), Call1(String, Box<E>), Call2(String, Box<E>, Box<E>), Paren(Box<E>),
}
#[derive(Clone, Debug)]
pub enum S {
    Let(bool, String, E), Assign(String, E), Aug(String, &'static str, E),
    If(E, Vec<S>, Vec<(E, Vec<S>)>, Option<Vec<S>>),
    While(E, Vec<S>), ForRange(String, E, E, Vec<S>), ForList(String, E, Vec<S>),
    Append(String, E), Ret(E), Print(E), Print2(E, E), ExprS(E), Brk, Cont,
}

fn aop(op: &str) -> &'static str { match op { "add" => "+", "sub" => "-", "mul" => "*", "floorDiv" => "//", _ => "%" } }
fn cop(op: &str) -> &'static str { match op { "eq" => "==", "ne" => "!=", "lt" => "<", "le" => "<=", "gt" => ">", _ => ">=" } }
fn slit(s: &str) -> String { format!("\"{}\"", s) }

fn esrc(e: &E, py: bool) -> String {
    match e {
        E::Int(n) => n.to_string(),
        E::Bool(b) => if *b { "True".into() } else { "False".into() },
        E::Str(s) => slit(s),
        E::Var(x) => x.clone(),
        E::Neg(x) => format!("-{}", esrc(x, py)),
        E::Not(x) => format!("not {}", esrc(x, py)),
        E::Arith(op, l, r) => format!("{} {} {}", esrc(l, py), aop(op), esrc(r, py)),
        E::Cmp(op, l, r) => format!("{} {} {}", esrc(l, py), cop(op), esrc(r, py)),
        E::And(l, r) => format!("{} and {}", esrc(l, py), esrc(r, py)),
        E::Or(l, r) => format!("{} or {}", esrc(l, py), esrc(r, py)),
        E::Concat(l, r) => format!("{} + {}", esrc(l, py), esrc(r, py)),
        E::Len(x) => format!("len({})", esrc(x, py)),
        E::Index(a, i) => format!("{}[{}]", esrc(a, py), esrc(i, py)),
        E::Call1(f, a) => format!("{f}({})", esrc(a, py)),
        E::Call2(f, a, b) => format!("{f}({}, {})", esrc(a, py), esrc(b, py)),
        E::Paren(x) => format!("({})", esrc(x, py)),
    }
}
fn ssrc(s: &S, ind: usize, py: bool, out: &mut String) {
    let p = " ".repeat(ind);
    match s {
        S::Let(m, x, e) => out.push_str(&format!("{p}{}{x} = {}\n", if *m && !py { "mut " } else { "" }, esrc(e, py))),
        S::Assign(x, e) => out.push_str(&format!("{p}{x} = {}\n", esrc(e, py))),
        S::Aug(x, op, e) => out.push_str(&format!("{p}{x} {}= {}\n", aop(op), esrc(e, py))),
        S::If(c, t, elifs, els) => {
            out.push_str(&format!("{p}if {}:\n", esrc(c, py)));
            bsrc(t, ind + 4, py, out);
            for (ec, eb) in elifs { out.push_str(&format!("{p}elif {}:\n", esrc(ec, py))); bsrc(eb, ind + 4, py, out); }
            if let Some(b) = els { out.push_str(&format!("{p}else:\n")); bsrc(b, ind + 4, py, out); }
        }
        S::While(c, b) => { out.push_str(&format!("{p}while {}:\n", esrc(c, py))); bsrc(b, ind + 4, py, out); }
        S::ForRange(x, lo, hi, b) => { out.push_str(&format!("{p}for {x} in range({}, {}):\n", esrc(lo, py), esrc(hi, py))); bsrc(b, ind + 4, py, out); }
        S::ForList(x, xs, b) => { out.push_str(&format!("{p}for {x} in {}:\n", esrc(xs, py))); bsrc(b, ind + 4, py, out); }
        S::Append(x, e) => out.push_str(&format!("{p}{x}.append({})\n", esrc(e, py))),
        S::Ret(e) => out.push_str(&format!("{p}return {}\n", esrc(e, py))),
        S::Print(e) => out.push_str(&format!("{p}{}({})\n", if py { "show" } else { "print" }, esrc(e, py))),
        S::Print2(a, b2) => out.push_str(&format!("{p}{}({}, {})\n", if py { "show2" } else { "print" }, esrc(a, py), esrc(b2, py))),
        S::ExprS(e) => out.push_str(&format!("{p}{}\n", esrc(e, py))),
        S::Brk => out.push_str(&format!("{p}break\n")),
        S::Cont => out.push_str(&format!("{p}continue\n")),
    }
}
fn bsrc(b: &[S], ind: usize, py: bool, out: &mut String) {
    if b.is_empty() { out.push_str(&format!("{}pass\n", " ".repeat(ind))); }
    for s in b { ssrc(s, ind, py, out); }
}

fn eenc(e: &E, o: &mut Vec<String>) {
    match e {
        E::Int(n) => o.push(format!("i{n}")), E::Bool(b) => o.push(if *b { "bT".into() } else { "bF".into() }),
        E::Str(s) => o.push(format!("s{}", enc_str(s))), E::Var(x) => o.push(format!("v{x}")),
        E::Neg(x) => { o.push("N".into()); eenc(x, o) } E::Not(x) => { o.push("!".into()); eenc(x, o) }
        E::Arith(op, l, r) => { o.push(format!("A{op}")); eenc(l, o); eenc(r, o) }
        E::Cmp(op, l, r) => { o.push(format!("C{op}")); eenc(l, o); eenc(r, o) }
        E::And(l, r) => { o.push("&".into()); eenc(l, o); eenc(r, o) } E::Or(l, r) => { o.push("|".into()); eenc(l, o); eenc(r, o) }
        E::Concat(l, r) => { o.push("+".into()); eenc(l, o); eenc(r, o) }
        E::Len(x) => { o.push("L".into()); eenc(x, o) } E::Index(a, i) => { o.push("X".into()); eenc(a, o); eenc(i, o) }
        E::Call1(f, a) => { o.push(format!("1{f}")); eenc(a, o) }
        E::Call2(f, a, b) => { o.push(format!("2{f}")); eenc(a, o); eenc(b, o) }
        E::Paren(x) => { o.push("P".into()); eenc(x, o) }
    }
}
fn benc(b: &[S], o: &mut Vec<String>) {
    o.push(format!("B{}", b.len()));
    for s in b { senc(s, o); }
}
fn senc(s: &S, o: &mut Vec<String>) {
    match s {
        S::Let(m, x, e) => { o.push(format!("{}{x}", if *m { "M" } else { "l" })); eenc(e, o) }
        S::Assign(x, e) => { o.push(format!("={x}")); eenc(e, o) }
        S::Aug(x, op, e) => { o.push(format!("a{op}:{x}")); eenc(e, o) }
        S::If(c, t, elifs, els) => {
            o.push(format!("I{}:{}", elifs.len(), els.is_some() as u8));
            eenc(c, o); benc(t, o);
            for (ec, eb) in elifs { eenc(ec, o); benc(eb, o); }
            if let Some(b) = els { benc(b, o); }
        }
        S::While(c, b) => { o.push("W".into()); eenc(c, o); benc(b, o) }
        S::ForRange(x, lo, hi, b) => { o.push(format!("R{x}")); eenc(lo, o); eenc(hi, o); benc(b, o) }
        S::ForList(x, xs, b) => { o.push(format!("F{x}")); eenc(xs, o); benc(b, o) }
        S::Append(x, e) => { o.push(format!("p{x}")); eenc(e, o) }
        S::Ret(e) => { o.push("r".into()); eenc(e, o) }
        S::Print(e) => { o.push("o".into()); eenc(e, o) }
        S::Print2(a, b2) => { o.push("O".into()); eenc(a, o); eenc(b2, o) }
        S::ExprS(e) => { o.push("e".into()); eenc(e, o) }
        S::Brk => o.push("k".into()), S::Cont => o.push("c".into()),
    }
}

struct G<'a> { r: &'a mut Rng, loop_depth: u32, ctr: u32, over_ys: u32 }
fn b(e: E) -> Box<E> { Box::new(e) }
impl<'a> G<'a> {
    fn int_atom(&mut self) -> E {
        match self.r.below(11) {
            0 | 1 => E::Int(self.r.range(0, 9)), 2 => E::Var("a".into()), 3 => E::Var("b".into()), 4 => E::Var("acc".into()),
            // `len(xs)` goes through a local: `xs.len() as i64 < …` does not parse in Rust (C02 finding)
            5 => E::Var("nx".into()),
            6 => E::Index(b(E::Var("xs".into())), b(E::Int(if self.r.chance(5, 6) { 0 } else { self.r.range(1, 3) }))),
            7 => E::Index(b(E::Var("xs".into())), b(E::Neg(b(E::Int(if self.r.chance(5, 6) { 1 } else { self.r.range(2, 4) }))))),
            8 => E::Call1("g".into(), b(self.int_term(0))),
            9 => E::Call2("h".into(), b(self.int_atom2()), b(self.int_atom2())),
            _ => E::Neg(b(E::Var("b".into()))),
        }
    }
    fn int_atom2(&mut self) -> E { match self.r.below(4) { 0 => E::Int(self.r.range(0, 9)), 1 => E::Var("a".into()), 2 => E::Var("b".into()), _ => E::Call1("g".into(), b(E::Int(self.r.range(0, 5)))) } }
    fn int_term(&mut self, d: u32) -> E {
        let mut e = self.int_atom();
        let n = if d == 0 { 0 } else { self.r.below(3) };
        for _ in 0..n {
            let op = *self.r.pick(&["mul", "floorDiv", "mod", "mul"]);
            // divisors: mostly non-zero literals, sometimes a variable that may be zero
            let rhs = if op == "mul" { self.int_atom() } else if self.r.chance(4, 5) { E::Int(self.r.range(1, 9)) } else { self.int_atom2() };
            e = E::Arith(op, b(e), b(rhs));
        }
        e
    }
    fn int_expr(&mut self, d: u32) -> E {
        let mut e = self.int_term(d);
        let n = if d == 0 { 0 } else { self.r.below(3) };
        for _ in 0..n { e = E::Arith(*self.r.pick(&["add", "sub"]), b(e), b(self.int_term(d - 1))); }
        e
    }
    fn cmp(&mut self) -> E {
        if self.r.chance(1, 5) {
            let l = E::Str(self.r.pick(&["", "a", "ab", "abc", "b", "B"]).to_string());
            let r2 = E::Str(self.r.pick(&["", "a", "ab", "abc", "b", "B"]).to_string());
            return E::Cmp(*self.r.pick(&["eq", "ne", "lt", "le", "gt", "ge"]), b(l), b(r2));
        }
        E::Cmp(*self.r.pick(&["eq", "ne", "lt", "le", "gt", "ge"]), b(self.int_expr(1)), b(self.int_expr(1)))
    }
    fn bool_atom(&mut self) -> E {
        match self.r.below(6) { 0 => E::Var("flag".into()), 1 => E::Not(b(E::Var("flag".into()))), 2 => E::Bool(self.r.chance(1, 2)), _ => self.cmp() }
    }
    fn bool_expr(&mut self) -> E {
        let mut e = self.bool_atom();
        for _ in 0..self.r.below(2) { e = E::And(b(e), b(self.bool_atom())); }
        if self.r.chance(1, 3) { let mut r2 = self.bool_atom(); if self.r.chance(1, 2) { r2 = E::And(b(r2), b(self.bool_atom())); } e = E::Or(b(e), b(r2)); }
        e
    }
    fn stmt(&mut self, d: u32) -> S {
        let k = self.r.below(if d == 0 { 7 } else { 13 });
        match k {
            0 => S::Assign("acc".into(), self.int_expr(2)),
            1 => { let op = *self.r.pick(&["add", "sub", "mul", "floorDiv", "mod"]); let rhs = if op == "floorDiv" || op == "mod" { if self.r.chance(4, 5) { E::Int(self.r.range(1, 9)) } else { self.int_atom2() } } else { self.int_expr(1) }; S::Aug("acc".into(), op, rhs) }
            2 => S::Print(self.int_expr(2)),
            3 => if self.r.chance(1, 3) { S::Print2(self.int_expr(1), self.bool_expr()) } else { S::Print(self.bool_expr()) },
            4 => if self.over_ys == 0 { S::Append("ys".into(), self.int_expr(1)) } else { S::Print(E::Len(b(E::Var("ys".into())))) },
            5 => { self.ctr += 1; S::Let(false, format!("t{}", self.ctr), self.int_expr(1)) }
            6 => if self.loop_depth > 0 && self.r.chance(1, 2) { if self.r.chance(1, 2) { S::Brk } else { S::Cont } } else { S::Print(E::Len(b(E::Var("ys".into())))) },
            7 | 8 => {
                let n_elif = self.r.below(4) as usize;
                let elifs = (0..n_elif).map(|_| (self.bool_expr(), self.block(d - 1))).collect();
                let els = if self.r.chance(2, 3) { Some(self.block(d - 1)) } else { None };
                S::If(self.bool_expr(), self.block(d - 1), elifs, els)
            }
            9 => {
                // bounded loop: the counter advances first, so `continue` cannot skip it
                self.ctr += 1;
                let i = format!("i{}", self.ctr);
                self.loop_depth += 1;
                let mut body = vec![S::Aug(i.clone(), "add", E::Int(1))];
                body.extend(self.block(d - 1));
                self.loop_depth -= 1;
                let cond = if self.r.chance(1, 2) { E::Cmp("lt", b(E::Var(i.clone())), b(E::Int(self.r.range(1, 4)))) } else { E::And(b(E::Cmp("lt", b(E::Var(i.clone())), b(E::Int(self.r.range(1, 5))))), b(self.bool_atom())) };
                return S::If(E::Bool(true), vec![S::Let(true, i, E::Int(0)), S::While(cond, body)], vec![], None);
            }
            10 => { self.ctr += 1; let v = format!("k{}", self.ctr); self.loop_depth += 1; let body = self.block(d - 1); self.loop_depth -= 1; S::ForRange(v, self.int_atom2(), E::Int(self.r.range(0, 4)), body) }
            11 => {
                self.ctr += 1;
                let v = format!("v{}", self.ctr);
                let over = if self.r.chance(1, 2) { "xs" } else { "ys" };
                self.loop_depth += 1;
                if over == "ys" { self.over_ys += 1; }
                let mut body = vec![S::Aug("acc".into(), "add", E::Var(v.clone()))];
                body.extend(self.block(d - 1));
                if over == "ys" { self.over_ys -= 1; }
                self.loop_depth -= 1;
                S::ForList(v, E::Var(over.into()), body)
            }
            _ => if self.r.chance(1, 4) { S::Ret(self.int_expr(1)) } else { S::ExprS(E::Call1("g".into(), b(self.int_expr(1)))) },
        }
    }
    fn block(&mut self, d: u32) -> Vec<S> {
        let n = 1 + self.r.below(3) as usize;
        (0..n).map(|_| self.stmt(d)).collect()
    }
}

const HELPERS_INCAN: &str = "def g(x: int) -> int:\n    print(x)\n    return x + 1\n\ndef h(x: int, y: int) -> int:\n    print(x - y)\n    return x * 2 - y\n\n";
const HELPERS_PY: &str = "def fmt(v):\n    return 'true' if v is True else 'false' if v is False else str(v)\n\ndef show(v):\n    print(fmt(v))\n\ndef show2(v, w):\n    print(fmt(v) + ' ' + fmt(w))\n\ndef g(x):\n    show(x)\n    return x + 1\n\ndef h(x, y):\n    show(x - y)\n    return x * 2 - y\n\n";

/// (incan source, python source, model encoding of f's body)
fn program(body0: &[S], args: &[(i64, i64, bool, Vec<i64>)]) -> (String, String, String) {
    let mut body_v = vec![S::Let(false, "nx".into(), E::Len(Box::new(E::Var("xs".into()))))];
    body_v.extend(body0.iter().cloned());
    let body = &body_v[..];
    let mut inc = String::from(HELPERS_INCAN);
    inc.push_str("def f(a: int, b: int, flag: bool, xs: List[int]) -> int:\n    mut acc = 0\n    mut ys = [1]\n");
    bsrc(body, 4, false, &mut inc);
    inc.push_str("    return acc\n\ndef main() -> None:\n");
    let mut py = String::from(HELPERS_PY);
    py.push_str("def f(a, b, flag, xs):\n    acc = 0\n    ys = [1]\n");
    bsrc(body, 4, true, &mut py);
    py.push_str("    return acc\n\n");
    for (i, (a, b2, fl, xs)) in args.iter().enumerate() {
        let xs_s = xs.iter().map(|x| x.to_string()).collect::<Vec<_>>().join(", ");
        inc.push_str(&format!("    r{i} = f({a}, {b2}, {}, [{xs_s}])\n    print(r{i})\n", if *fl { "True" } else { "False" }));
        py.push_str(&format!("show(f({a}, {b2}, {}, [{xs_s}]))\n", if *fl { "True" } else { "False" }));
    }
    let mut o = Vec::new();
    benc(body, &mut o);
    (inc, py, o.join(";"))
}

fn canon(o: &Outcome) -> String {
    match o {
        Outcome::Ran { stdout, code, panic } => {
            let stop = match panic {
                None => if *code == 0 { "done".to_string() } else { format!("exit{code}") },
                Some(p) => if p.contains("ZeroDivisionError") { "ZeroDivisionError".to_string() } else if p.contains("IndexError") { "IndexError".to_string() } else { format!("panic:{}", p.replace(' ', "_")) },
            };
            format!("{stop} {}", if stdout.is_empty() { "-".to_string() } else { stdout.trim_end_matches('\n').replace('\n', ",") })
        }
        other => runner::show(other),
    }
}

/// Grouping probes: programs whose meaning depends on parentheses (or on `not` over a comparison).
fn probes() -> Vec<(&'static str, Vec<S>)> {
    let a = || E::Var("a".into());
    let bb = || E::Var("b".into());
    vec![
        ("paren-product-of-sums", vec![S::Print(E::Arith("mul", b(E::Paren(b(E::Arith("add", b(a()), b(bb()))))), b(E::Paren(b(E::Arith("sub", b(a()), b(bb())))))))]),
        ("paren-right-nested-sub", vec![S::Print(E::Arith("sub", b(a()), b(E::Paren(b(E::Arith("sub", b(bb()), b(E::Int(1))))))))]),
        ("neg-of-sum", vec![S::Print(E::Neg(b(E::Paren(b(E::Arith("add", b(a()), b(bb())))))))]),
        ("not-over-comparison", vec![S::Print(E::Not(b(E::Paren(b(E::Cmp("lt", b(a()), b(bb())))))))]),
        ("not-comparison-no-paren", vec![S::Print(E::Not(b(E::Cmp("lt", b(a()), b(bb())))))]),
        ("paren-or-inside-and", vec![S::Print(E::And(b(E::Paren(b(E::Or(b(E::Var("flag".into())), b(E::Cmp("lt", b(a()), b(bb()))))))), b(E::Cmp("gt", b(a()), b(E::Int(100))))))]),
        ("redundant-parens", vec![S::Print(E::Arith("add", b(E::Paren(b(E::Arith("mul", b(a()), b(bb()))))), b(E::Paren(b(E::Int(1))))))]),
    ]
}

pub fn run(out: &mut Out, tier: &str, seed: u64, _scratch: &str) {
    let mut rng = Rng::new(seed);
    let n = if tier == "thorough" { 600 } else { 90 };
    let arg_sets: Vec<(i64, i64, bool, Vec<i64>)> = vec![(3, 0, true, vec![4, -2, 7]), (-5, 2, false, vec![1]), (0, -3, true, vec![9, 8, 7, 6])];
    let mut cases = Vec::new();
    let mut metas: Vec<(String, String, String)> = Vec::new(); // (kind, encoding, python)
    // hand-written regression programs first
    let fixed: Vec<Vec<S>> = vec![
        vec![S::If(E::Cmp("lt", b(E::Var("a".into())), b(E::Int(0))), vec![S::Print(E::Int(1))],
            vec![(E::Cmp("eq", b(E::Var("a".into())), b(E::Int(0))), vec![S::Print(E::Int(2))]), (E::Cmp("lt", b(E::Var("a".into())), b(E::Int(10))), vec![S::Print(E::Int(3))]), (E::Cmp("lt", b(E::Var("a".into())), b(E::Int(100))), vec![S::Print(E::Int(4))])],
            Some(vec![S::Print(E::Int(5))]))],
        vec![S::Print(E::Cmp("le", b(E::Str("abc".into())), b(E::Str("abc".into())))), S::Print(E::Cmp("ge", b(E::Str("".into())), b(E::Str("".into())))), S::Print(E::Cmp("le", b(E::Str("b".into())), b(E::Str("ab".into()))))],
        vec![S::Aug("acc".into(), "sub", E::Call1("g".into(), b(E::Int(3)))), S::Aug("acc".into(), "floorDiv", E::Var("b".into())), S::Print(E::Var("acc".into()))],
    ];
    for body in fixed.iter() {
        let (inc, py, enc) = program(body, &arg_sets);
        cases.push(Case { name: String::new(), source: inc });
        metas.push(("prog".into(), enc, py));
    }
    for _ in 0..n {
        let mut g = G { r: &mut rng, loop_depth: 0, ctr: 0, over_ys: 0 };
        let body = g.block(3);
        let (inc, py, enc) = program(&body, &arg_sets);
        cases.push(Case { name: String::new(), source: inc });
        metas.push(("prog".into(), enc, py));
    }
    for (name, body) in probes() {
        let (inc, py, enc) = program(&body, &arg_sets);
        cases.push(Case { name: String::new(), source: inc });
        metas.push((format!("probe:{name}"), enc, py));
    }
    let outs = runner::run_batch("/verif/.build/batch/c01", "/verif/.build/batch-target", &cases);
    let args_enc = arg_sets.iter().map(|(a, b2, f, xs)| format!("{a}:{b2}:{}:{}", *f as u8, xs.iter().map(|x| x.to_string()).collect::<Vec<_>>().join("_"))).collect::<Vec<_>>().join("|");
    let mut hist: std::collections::BTreeMap<String, u64> = std::collections::BTreeMap::new();
    let pydir = "/verif/.build/batch/c01py";
    let _ = std::fs::create_dir_all(pydir);
    for (i, ((kind, enc, py), o)) in metas.iter().zip(outs.iter()).enumerate() {
        let real = canon(o);
        *hist.entry(real.split(' ').next().unwrap_or("").split(':').next().unwrap_or("").to_string()).or_insert(0) += 1;
        let pyfile = format!("{pydir}/p{i}.py");
        std::fs::write(&pyfile, py).expect("write py");
        std::fs::write(format!("{pydir}/p{i}.incn"), &cases[i].source).expect("write incn");
        out.case(&format!("c01 {kind} {args_enc} {enc} {pyfile}"), &real);
    }
    let _ = std::fs::remove_dir_all("/verif/.build/batch/c01");
    // second stream: feature programs beyond the core fragment (oracle only)
    let reps = if tier == "thorough" { 8 } else { 2 };
    let mut feats = Vec::new();
    for _ in 0..reps {
        feats.extend(crate::c01feat::programs(&mut rng));
    }
    let fcases: Vec<Case> = feats.iter().map(|f| Case { name: String::new(), source: f.incan.clone() }).collect();
    let fouts = runner::run_batch("/verif/.build/batch/c01f", "/verif/.build/batch-target", &fcases);
    for (i, (f, o)) in feats.iter().zip(fouts.iter()).enumerate() {
        let pyfile = format!("{pydir}/f{i}.py");
        std::fs::write(&pyfile, &f.python).expect("write py");
        std::fs::write(format!("{pydir}/f{i}.incn"), &f.incan).expect("write incn");
        let real = canon(o);
        *hist.entry(format!("feat:{}", real.split(' ').next().unwrap_or("").split(':').next().unwrap_or(""))).or_insert(0) += 1;
        out.case(&format!("c01 feat {} - {pyfile}", f.name), &real);
    }
    let _ = std::fs::remove_dir_all("/verif/.build/batch/c01f");
    // third stream: class chains, which body does a method call run (model: inheritedMethods / dispatch)
    let n_chain = if tier == "thorough" { 60 } else { 12 };
    let mut chain_reqs: Vec<String> = Vec::new();
    let mut chain_cases: Vec<Case> = Vec::new();
    for _ in 0..n_chain {
        let depth = 1 + rng.below(3) as usize;
        let names = ["a", "b", "c", "d"];
        let mut levels: Vec<(String, Vec<&str>)> = Vec::new();
        for li in 0..depth {
            let ms: Vec<&str> = names.iter().copied().filter(|_| rng.chance(1, 2)).collect();
            levels.push((format!("C{li}"), ms));
        }
        let mut src = String::new();
        for (li, (cname, ms)) in levels.iter().enumerate() {
            if li == 0 { src.push_str(&format!("class {cname}:\n")); } else { src.push_str(&format!("class {cname} extends C{}:\n", li - 1)); }
            src.push_str(&format!("    f{li}: int\n"));
            for m in ms { src.push_str(&format!("\n    def {m}(self) -> str:\n        return \"{cname}\"\n")); }
            src.push('\n');
        }
        src.push_str("def main() -> None:\n");
        for li in 0..depth {
            let args = (0..=li).map(|k| format!("f{k}={k}")).collect::<Vec<_>>().join(", ");
            src.push_str(&format!("    x{li} = C{li}({args})\n"));
            for m in names {
                if levels[..=li].iter().any(|(_, ms)| ms.contains(&m)) {
                    src.push_str(&format!("    r{li}{m} = x{li}.{m}()\n    print(f\"{li}.{m}={{r{li}{m}}}\")\n"));
                }
            }
        }
        src.push_str("    print(\"end\")\n");
        chain_reqs.push(format!("c01 dispatch {}", levels.iter().map(|(c, ms)| format!("{c}:{}", ms.join(","))).collect::<Vec<_>>().join(";")));
        chain_cases.push(Case { name: String::new(), source: src });
    }
    let chain_outs = runner::run_batch("/verif/.build/batch/c01d", "/verif/.build/batch-target", &chain_cases);
    for (req, o) in chain_reqs.iter().zip(chain_outs.iter()) {
        // drop the trailing "end" marker line (keeps the output non-empty for classes without methods)
        let real = canon(o);
        let real = real.strip_suffix(",end").map(|x| x.to_string()).unwrap_or_else(|| if real == "done end" { "done -".to_string() } else { real });
        out.case(req, &real);
    }
    let _ = std::fs::remove_dir_all("/verif/.build/batch/c01d");
    // fourth stream: list comprehensions over lists and ranges with a condition on the loop variable and an element
    // expression (model: Sem/Comprehension `meaning`); 12 comprehensions per compiled program
    let n_comp_prog = if tier == "thorough" { 40 } else { 6 };
    let conds = [("mod2", "x % 2 == 0"), ("mod3", "x % 3 == 1"), ("lt", "x < 4"), ("gt", "x > 0"), ("ne", "x != 2"), ("all", "x == x")];
    let elems = [("id", "x"), ("add", "x + 1"), ("mul", "x * 10"), ("sub", "x - 3"), ("rsub", "7 - x"), ("sq", "x * x")];
    let mut comp_reqs: Vec<Vec<String>> = Vec::new();
    let mut comp_cases: Vec<Case> = Vec::new();
    for _ in 0..n_comp_prog {
        let mut body = String::from("def main() -> None:\n");
        let mut reqs = Vec::new();
        for k in 0..12 {
            let (cn, ct) = *rng.pick(&conds);
            let (en, et) = *rng.pick(&elems);
            let (src_text, xs): (String, Vec<i64>) = if rng.chance(1, 2) {
                let (lo, hi) = (rng.range(-4, 3), rng.range(3, 9));
                (format!("range({lo}, {hi})"), (lo..hi).collect())
            } else {
                let n = rng.below(7) as usize;
                let v: Vec<i64> = (0..n).map(|_| rng.range(-5, 9)).collect();
                (format!("[{}]", v.iter().map(|x| x.to_string()).collect::<Vec<_>>().join(", ")), v)
            };
            if xs.is_empty() { continue; } // an empty list literal has no element type
            body.push_str(&format!("    c{k} = [{et} for x in {src_text} if {ct}]\n    println(len(c{k}))\n    for v in c{k}:\n        println(v)\n    println(\"end\")\n"));
            reqs.push(format!("c01 comp {} {cn} {en}", xs.iter().map(|x| x.to_string()).collect::<Vec<_>>().join(",")));
        }
        comp_reqs.push(reqs);
        comp_cases.push(Case { name: String::new(), source: body });
    }
    let comp_outs = runner::run_batch("/verif/.build/batch/c01c", "/verif/.build/batch-target", &comp_cases);
    let mut n_comp = 0u64;
    for (reqs, o) in comp_reqs.iter().zip(comp_outs.iter()) {
        match o {
            Outcome::Ran { stdout, code: 0, .. } => {
                // groups: <len> v… end
                let groups: Vec<&str> = stdout.split("end\n").collect();
                for (req, g) in reqs.iter().zip(groups.iter()) {
                    let vals: Vec<&str> = g.lines().skip(1).collect();
                    let len = g.lines().next().unwrap_or("?");
                    out.case(req, &format!("{len} {}", if vals.is_empty() { "-".to_string() } else { vals.join(",") }));
                    n_comp += 1;
                }
            }
            other => { for req in reqs { out.case(req, &runner::show(other)); } }
        }
    }
    let _ = std::fs::remove_dir_all("/verif/.build/batch/c01c");
    let _ = n_comp;
    out.meta(&serde_json::json!({"comprehensions": n_comp, "programs": cases.len(), "feature_programs": feats.len(), "class_chain_programs": chain_cases.len(), "outcome_histogram": hist}));
}

// =====================================================================================================================
// C02: every program that type-checks also builds.  Same generator, plus variants that are borderline or ill-typed,
// probes for the recorded findings, and multi-file projects with nested module directories.
// =====================================================================================================================

fn check_verdict(source: &str) -> String {
    let r = crate::util::catch(|| -> String {
        let toks = match incan_syntax::lexer::lex(source) { Ok(t) => t, Err(e) => return format!("lex-error {}", e[0].message.replace(' ', "_")) };
        let ast = match incan_syntax::parser::parse(&toks) { Ok(a) => a, Err(e) => return format!("parse-error {}", e[0].message.replace(' ', "_")) };
        let mut tc = incan::frontend::typechecker::TypeChecker::new();
        match tc.check_program(&ast) { Ok(()) => "accept".to_string(), Err(_) => "reject".to_string() }
    });
    r.unwrap_or_else(|m| format!("panic {m}"))
}

const TWIN: &str = "def twin() -> int:\n    mut x_imm = 1\n    x_imm += 1\n    x_imm = x_imm + 1\n    return x_imm\n\n";

/// (name, source): constructs the checker accepts although the generated project does not build.
pub fn c02_probes() -> Vec<(&'static str, String)> {
    let p = |body: &str| format!("def main() -> None:\n{body}");
    vec![
        ("len-before-less-than", "def f(xs: List[int]) -> bool:\n    return len(xs) < 3\n\ndef main() -> None:\n    print(f([1]))\n".to_string()),
        ("string-variable-concat", p("    s: str = \"ab\"\n    t: str = \"cd\"\n    v = s + t\n    print(v)\n")),
        ("string-variable-concat-reused", "def f(s: str, t: str) -> str:\n    a = s + t\n    b = s + t\n    return a + b\n\ndef main() -> None:\n    print(f(\"x\", \"y\"))\n".to_string()),
        ("string-field-compared", "model M:\n    name: str\n\n    def is_a(self) -> bool:\n        return self.name == \"a\" or self.name < \"b\"\n\ndef main() -> None:\n    print(M(name=\"a\").is_a())\n".to_string()),
        ("string-variable-used-twice", "def f(s: str) -> bool:\n    a = s < \"m\"\n    b = s > \"c\"\n    return a and b\n\ndef main() -> None:\n    print(f(\"k\"))\n".to_string()),
        ("list-of-string-literals", p("    xs: List[str] = [\"a\", \"b\"]\n    print(len(xs))\n")),
        ("dict-literal-with-string-keys", p("    d: Dict[str, int] = {\"a\": 1}\n    print(len(d))\n")),
        ("const-floor-division", "const K: int = 7 // 2\n\ndef main() -> None:\n    print(K)\n".to_string()),
        ("const-string-index", "const C: str = \"hello\"[1]\n\ndef main() -> None:\n    print(C)\n".to_string()),
        ("int-float-comparison", "def f(n: int, x: float) -> bool:\n    return n < x\n\ndef main() -> None:\n    print(f(1, 2.5))\n".to_string()),
        ("fstring-interpolation-blanks", p("    x = 3\n    name = \"n\"\n    print(f\"{ x } and {x } and { name}\")\n")),
        ("big-integer-literal-local", p("    k: int = 9000000000000000000\n    j = 5000000000\n    n = -5000000000\n    print(j)\n    print(n)\n    print(k // 4)\n")),
        ("pow-variable-base", p("    a: int = 2\n    b = 3\n    print(a ** 2)\n    print(b ** 3)\n")),
        ("pow-literal-base", p("    v = 2 ** 3\n    print(v)\n")),
        ("tuple-unpack", p("    a, b = (1, 2)\n    print(a + b)\n")),
        ("tuple-assign-swap", p("    mut xs = [1, 2]\n    xs[0], xs[1] = (xs[1], xs[0])\n    print(xs[0])\n")),
        ("newtype-named-argument", "type Pos = newtype int\n\ndef main() -> None:\n    p = Pos(n=5)\n    print(1)\n".to_string()),
        ("derive-eq-with-float-field", "@derive(Eq)\nmodel M:\n    f: float\n\ndef main() -> None:\n    m = M(f=1.5)\n    print(1)\n".to_string()),
        ("model-key-dict-read", "@derive(Eq, Hash, Clone)\nmodel K:\n    a: int\n\ndef main() -> None:\n    k = K(a=1)\n    mut d: Dict[K, int] = {}\n    d[k] = 10\n    k2 = K(a=1)\n    v = d[k2]\n    print(v)\n".to_string()),
        ("user-method-named-pop", "class S:\n    n: int\n\n    def pop(self) -> int:\n        return self.n\n\ndef main() -> None:\n    s = S(n=3)\n    v = s.pop()\n    print(v)\n".to_string()),
        ("match-arms-string-literals", "def f(a: int) -> str:\n    label = match a:\n        0 => \"zero\"\n        _ => \"many\"\n    return label\n\ndef main() -> None:\n    print(f(0))\n".to_string()),
        ("string-literal-concat-returned", "def f() -> str:\n    return \"a\" + \"b\"\n\ndef main() -> None:\n    print(f())\n".to_string()),
        ("nested-retype-of-outer-variable", p("    mut x = 1\n    if True:\n        x = \"s\"\n    print(1)\n")),
        ("append-while-iterating", p("    mut ys = [1, 2]\n    for v in ys:\n        if v > 5:\n            ys.append(v)\n    print(len(ys))\n")),
        ("derive-partialord-alone", "@derive(PartialOrd)\nmodel M:\n    a: int\n\ndef main() -> None:\n    m = M(a=1)\n    print(1)\n".to_string()),
        ("tuple-literal-index", "def first(t: tuple[int, int]) -> int:\n    return t[0] + t[-1]\n\ndef main() -> None:\n    u = (3, 4)\n    print(first(u))\n    print(u[1])\n".to_string()),
        ("list-count-method", p("    xs = [1, 2, 1]\n    c = xs.count(1)\n    print(c)\n")),
        ("annotated-none-binding", p("    o: Option[int] = None\n    match o:\n        Some(v) => print(v)\n        None => print(0)\n")),
        ("mut-scalar-parameter", "def count(mut n: int) -> int:\n    mut steps = 0\n    while n > 0:\n        n -= 1\n        steps += 1\n    return steps\n\ndef acc(mut y: float, n: int) -> float:\n    y += n\n    return y\n\ndef flip(mut b: bool) -> bool:\n    b = not b\n    return b\n\nclass K:\n    v: int\n\n    def addn(self, mut n: int, mut f: float) -> float:\n        n += 1\n        f += n\n        return f + self.v\n\ndef main() -> None:\n    k = 5\n    print(count(k))\n    print(k)\n    print(acc(7.5, 2))\n    print(flip(true))\n    print(K(v=1).addn(k, 0.5))\n".to_string()),
        ("default-parameter-omitted", "def f(a: int, b: int = 2) -> int:\n    return a + b\n\ndef main() -> None:\n    print(f(1))\n".to_string()),
        ("mutating-builtin-on-immutable-collection", p("    xs = [1]\n    xs.append(2)\n    print(len(xs))\n")),
        ("type-name-as-value-argument", "type Pos = newtype int\n\ndef show(p: Pos) -> None:\n    print(1)\n\ndef main() -> None:\n    f = Pos\n    show(f)\n".to_string()),
    ]
}

/// Ill-typed programs: the checker must reject them (if it accepted one, the build would fail: accept ⇒ builds).
pub fn c02_negative() -> Vec<(&'static str, String)> {
    let p = |body: &str| format!("def helper_ok(v: int) -> Result[int, str]:\n    return Ok(v)\n\ndef takes_int(v: int) -> int:\n    return v\n\nmodel Pt:\n    x: int\n    y: int\n\n{body}\ndef main() -> None:\n    print(1)\n");
    vec![
        ("bare-return-in-int-function", p("def f(n: int) -> int:\n    if n > 0:\n        return\n    return 1\n")),
        ("return-value-in-none-function", p("def f(n: int) -> None:\n    return n\n")),
        ("return-str-in-int-function", p("def f(n: int) -> int:\n    return \"s\"\n")),
        ("tuple-literal-arity-return", p("def f(n: int) -> Tuple[str, int]:\n    return (\"a\", n, n)\n")),
        ("tuple-literal-arity-argument", p("def g(t: Tuple[int, int]) -> int:\n    return 1\n\ndef f() -> int:\n    return g((1, 2, 3))\n")),
        ("tuple-literal-arity-annotation", p("def f() -> int:\n    t: Tuple[int, int] = (1, 2, 3)\n    return 1\n")),
        ("tuple-literal-too-short", p("def f(n: int) -> Tuple[str, int, int]:\n    return (\"a\", n)\n")),
        ("parameter-default-wrong-type", p("def f(n: int = \"s\") -> int:\n    return n\n")),
        ("method-parameter-default-wrong-type", p("class Kd:\n    v: int\n\n    def m(self, n: int = \"s\") -> int:\n        return n\n")),
        ("append-wrong-element-type", p("def f() -> int:\n    mut xs: List[int] = []\n    xs.append(\"s\")\n    return len(xs)\n")),
        ("if-condition-not-bool", p("def f(n: int) -> int:\n    if n:\n        return 1\n    return 0\n")),
        ("while-condition-not-bool", p("def f(n: int) -> int:\n    while n:\n        return 1\n    return 0\n")),
        ("assign-str-to-int-annotation", p("def f() -> int:\n    v: int = \"s\"\n    return 1\n")),
        ("argument-wrong-type", p("def f() -> int:\n    return takes_int(\"s\")\n")),
        ("try-in-int-function", p("def f() -> int:\n    v = helper_ok(1)?\n    return v\n")),
        ("try-on-int", p("def f() -> Result[int, str]:\n    v = 5?\n    return Ok(v)\n")),
        ("missing-field", p("def f() -> int:\n    q = Pt(x=1)\n    return q.x\n")),
        ("unknown-field-access", p("def f() -> int:\n    q = Pt(x=1, y=2)\n    return q.z\n")),
        ("unknown-method", p("def f() -> int:\n    q = Pt(x=1, y=2)\n    return q.nope()\n")),
        ("reassign-immutable", p("def f() -> int:\n    v = 1\n    v = 2\n    return v\n")),
        ("reassign-immutable-in-loop", p("def f() -> int:\n    v = 1\n    for i in range(3):\n        v = v + i\n    return v\n")),
        ("add-int-and-str", p("def f() -> int:\n    return 1 + \"s\"\n")),
        ("compare-int-and-str", p("def f() -> bool:\n    return 1 < \"s\"\n")),
        ("index-with-str", p("def f(xs: List[int]) -> int:\n    return xs[\"a\"]\n")),
        ("match-missing-none", p("def f(o: Option[int]) -> int:\n    match o:\n        Some(v) => return v\n    return 0\n")),
        ("trait-parameter-gets-int", "trait Named:\n    def name(self) -> str: ...\n\nclass Dog with Named:\n    n: str\n\n    def name(self) -> str:\n        return self.n\n\ndef greet(who: Named, times: int) -> None:\n    print(who.name())\n\ndef main() -> None:\n    greet(5, 1)\n".to_string()),
        ("trait-parameter-gets-non-adopter", "trait Named:\n    def name(self) -> str: ...\n\nclass Dog with Named:\n    n: str\n\n    def name(self) -> str:\n        return self.n\n\nclass Cat:\n    n: str\n\ndef greet(who: Named, times: int) -> None:\n    print(who.name())\n\ndef main() -> None:\n    greet(Cat(n=\"c\"), 1)\n".to_string()),
        ("argument-after-trait-parameter-wrong", "trait Named:\n    def name(self) -> str: ...\n\nclass Dog with Named:\n    n: str\n\n    def name(self) -> str:\n        return self.n\n\ndef greet(who: Named, times: int) -> None:\n    print(who.name())\n\ndef main() -> None:\n    greet(Dog(n=\"d\"), \"three\")\n".to_string()),
        ("call-with-too-few-arguments", p("def f() -> int:\n    return takes_int()\n")),
        ("call-with-too-many-arguments", p("def f() -> int:\n    return takes_int(1, 2)\n")),
        ("call-with-keyword-hiding-missing-argument", "def area(width: int, height: int) -> int:\n    return width * height\n\ndef main() -> None:\n    print(area(height=7))\n".to_string()),
        ("call-with-unknown-keyword", p("def f() -> int:\n    return takes_int(v=1, zz=2)\n")),
        ("method-call-with-too-few-arguments", "class C:\n    n: int\n\n    def add(self, k: int) -> int:\n        return self.n + k\n\ndef main() -> None:\n    c = C(n=1)\n    print(c.add())\n".to_string()),
        ("bodyless-method-in-adopting-class", "trait Loggable:\n    def log(self, msg: str) -> None: ...\n\nclass Service with Loggable:\n    name: str\n\n    def log(self, msg: str) -> None\n\ndef main() -> None:\n    print(1)\n".to_string()),
        ("ellipsis-method-in-model", "model M:\n    a: int\n\n    def get(self) -> int: ...\n\ndef main() -> None:\n    print(1)\n".to_string()),
        ("mutating-method-on-immutable", "class C:\n    n: int\n\n    def bump(mut self) -> None:\n        self.n = self.n + 1\n\ndef main() -> None:\n    c = C(n=1)\n    c.bump()\n    print(c.n)\n".to_string()),
        // last: before the fix these overflowed the stack in lowering (the harness process dies with them)
        ("class-extends-itself", "class A extends A:\n    x: int\n\ndef main() -> None:\n    a = A(x=1)\n    print(a.x)\n".to_string()),
        ("cyclic-extends-chain", "class A extends B:\n    x: int\n\nclass B extends A:\n    y: int\n\ndef main() -> None:\n    a = A(x=1, y=2)\n    print(a.x)\n".to_string()),
    ]
}

/// Variants of a generated body: (tag, extra prelude / edit description applied)
fn variant(body: &[S], k: u64, r: &mut Rng) -> (&'static str, Vec<S>, bool) {
    // returns (tag, body, acc_is_mutable)
    let mut b2: Vec<S> = body.to_vec();
    match k {
        1 => ("immutable-acc", b2, false),
        2 => { let pos = r.below(b2.len() as u64 + 1) as usize; b2.insert(pos, S::If(E::Bool(true), vec![S::Assign("acc".into(), E::Str("s".into()))], vec![], None)); ("nested-retype", b2, true) }
        3 => { b2.insert(0, S::Assign("acc".into(), E::Str("s".into()))); ("same-block-retype", b2, true) }
        4 => { let pos = r.below(b2.len() as u64 + 1) as usize; b2.insert(pos, S::Let(false, "zz_new".into(), E::Arith("add", Box::new(E::Var("zz_undefined".into())), Box::new(E::Int(1))))); ("undefined-name", b2, true) }
        5 => { b2.insert(0, S::If(E::Var("flag".into()), vec![S::Let(true, "acc".into(), E::Int(5)), S::Assign("acc".into(), E::Arith("add", Box::new(E::Var("acc".into())), Box::new(E::Int(1)))), S::Print(E::Var("acc".into()))], vec![], None)); ("shadow-mut-in-block", b2, true) }
        6 => { b2.insert(0, S::Let(false, "x_imm".into(), E::Int(1))); let pos = 1 + r.below(b2.len() as u64) as usize; b2.insert(pos, S::If(E::Bool(true), vec![S::Aug("x_imm".into(), "add", E::Int(1))], vec![], None)); ("compound-on-immutable-with-twin", b2, true) }
        7 => { b2.insert(0, S::Let(false, "x_imm".into(), E::Int(1))); b2.insert(1, S::While(E::Bool(false), vec![S::Assign("x_imm".into(), E::Int(2))])); ("assign-immutable-nested-with-twin", b2, true) }
        8 => { b2.push(S::Ret(E::Bool(true))); ("return-wrong-type", b2, true) }
        _ => ("well-typed", b2, true),
    }
}

pub fn run_c02(out: &mut Out, tier: &str, seed: u64, _scratch: &str) {
    let mut rng = Rng::new(seed ^ 0x00C0_2C02);
    let n = if tier == "thorough" { 400 } else { 70 };
    let arg_sets: Vec<(i64, i64, bool, Vec<i64>)> = vec![(3, 1, true, vec![4, -2, 7])];
    let mut cases: Vec<Case> = Vec::new();
    let mut reqs: Vec<String> = Vec::new();
    for i in 0..n {
        let mut g = G { r: &mut rng, loop_depth: 0, ctr: 0, over_ys: 0 };
        let body = g.block(2);
        let k = if i % 3 == 0 { 0 } else { 1 + rng.below(8) };
        let (tag, b2, acc_mut) = variant(&body, k, &mut rng);
        let (mut inc, _py, enc) = program(&b2, &arg_sets);
        if !acc_mut { inc = inc.replacen("    mut acc = 0\n", "    acc = 0\n", 1); }
        inc = format!("{TWIN}{inc}");
        reqs.push(format!("c02 core {tag} {} {enc}", acc_mut as u8));
        cases.push(Case { name: String::new(), source: inc });
    }
    let n_core = cases.len();
    for (name, src) in c02_probes() {
        reqs.push(format!("c02 probe {name}"));
        cases.push(Case { name: String::new(), source: src });
    }
    // checker verdicts first (in-process), then one batch build of everything the checker accepts
    let verdicts: Vec<String> = cases.iter().map(|c| check_verdict(&c.source)).collect();
    let outs = runner::run_batch("/verif/.build/batch/c02", "/verif/.build/batch-target", &cases);
    let mut hist: std::collections::BTreeMap<String, u64> = std::collections::BTreeMap::new();
    for (i, req) in reqs.iter().enumerate() {
        let build = match &outs[i] {
            Outcome::Ran { .. } => "built".to_string(),
            Outcome::RustcError(m) => format!("rustc-error {}", m.replace(' ', "_").chars().take(70).collect::<String>()),
            Outcome::Rejected(stage, m) => if stage == "check" { "-".to_string() } else { format!("{stage}-error {}", m.replace(' ', "_").chars().take(70).collect::<String>()) },
            Outcome::Harness(m) => format!("harness {m}"),
        };
        let real = if verdicts[i] == "accept" { format!("accept {build}") } else { verdicts[i].clone() };
        let key = if i < n_core { format!("core:{}", real.split(' ').take(2).collect::<Vec<_>>().join("_")) } else { format!("probe:{}", real.split(' ').take(2).collect::<Vec<_>>().join("_")) };
        *hist.entry(key).or_insert(0) += 1;
        out.case(req, &real);
    }
    let _ = std::fs::remove_dir_all("/verif/.build/batch/c02");
    // ill-typed corpus + derive subsets: whatever the checker accepts must build
    let mut extra_reqs: Vec<String> = Vec::new();
    let mut extra_cases: Vec<Case> = Vec::new();
    for (name, src) in c02_negative() {
        extra_reqs.push(format!("c02 negative {name}"));
        extra_cases.push(Case { name: String::new(), source: src });
    }
    let all = ["Eq", "PartialEq", "Ord", "PartialOrd", "Hash", "Serialize", "Deserialize", "Clone", "Debug", "Default"];
    let n_sub = if tier == "thorough" { 160 } else { 28 };
    for k in 0..n_sub {
        let mask = if k < 11 { if k == 0 { 0 } else { 1u64 << (k - 1) } } else { rng.below(1 << all.len()) };
        let mut written: Vec<&str> = all.iter().enumerate().filter(|(i, _)| mask >> i & 1 == 1).map(|(_, d)| *d).collect();
        if !written.is_empty() { let rot = rng.below(written.len() as u64) as usize; written.rotate_left(rot); }
        let is_class = k % 3 == 2;
        let kw = if is_class { "class" } else { "model" };
        let deco = if written.is_empty() { String::new() } else { format!("@derive({})\n", written.join(", ")) };
        let method = if is_class { "\n    def tag(self) -> int:\n        return self.a\n" } else { "" };
        let src = format!("{deco}{kw} M:\n    a: int\n    s: str\n    xs: List[int]\n{method}\ndef main() -> None:\n    m = M(a=1, s=\"x\", xs=[1])\n    print(m.a)\n");
        extra_reqs.push(format!("c02 derive {kw} {}", if written.is_empty() { "-".to_string() } else { written.join(",") }));
        extra_cases.push(Case { name: String::new(), source: src });
    }
    // the repository's own single-file examples (no external crates, no async runtime): realistic whole programs
    {
        let mut files: Vec<String> = Vec::new();
        for dir in ["/repo/examples/simple", "/repo/examples/intermediate", "/repo/examples/advanced", "/repo/examples", "/repo/tests/fixtures/valid"] {
            if let Ok(rd) = std::fs::read_dir(dir) {
                for e in rd.filter_map(|e| e.ok()) {
                    let p = e.path();
                    if p.is_file() && p.extension().map(|x| x == "incn").unwrap_or(false) { files.push(p.to_string_lossy().to_string()); }
                }
            }
        }
        files.sort();
        for f in files {
            let Ok(src) = std::fs::read_to_string(&f) else { continue };
            // the batch project links only the runtime crates: programs that need tokio / external crates are C15's
            if src.contains("rust::") || src.contains("async ") || src.contains("await ") || src.contains("import polars") { continue; }
            extra_reqs.push(format!("c02 example {}", f.trim_start_matches("/repo/").replace('/', ":")));
            extra_cases.push(Case { name: String::new(), source: src });
        }
    }
    // the feature templates of C01 (classes, traits, enums, Option / Result, closures, slices, loops mutating their
    // elements in every branch, field defaults …): here only "accepted => builds" is asked of them
    for f in crate::c01feat::programs(&mut rng) {
        extra_reqs.push(format!("c02 example feature:{}", f.name));
        extra_cases.push(Case { name: String::new(), source: f.incan });
    }
    let ev: Vec<String> = extra_cases.iter().map(|c| check_verdict(&c.source)).collect();
    let eo = runner::run_batch("/verif/.build/batch/c02", "/verif/.build/batch-target", &extra_cases);
    for (i, req) in extra_reqs.iter().enumerate() {
        let build = match &eo[i] {
            Outcome::Ran { .. } => "built".to_string(),
            Outcome::RustcError(m) => format!("rustc-error {}", m.replace(' ', "_").chars().take(70).collect::<String>()),
            Outcome::Rejected(stage, m) => if stage == "check" { "-".to_string() } else { format!("{stage}-error {}", m.replace(' ', "_").chars().take(70).collect::<String>()) },
            Outcome::Harness(m) => format!("harness {m}"),
        };
        let real = if ev[i] == "accept" { format!("accept {build}") } else { ev[i].clone() };
        *hist.entry(format!("{}:{}", req.split(' ').nth(1).unwrap_or(""), real.split(' ').take(2).collect::<Vec<_>>().join("_"))).or_insert(0) += 1;
        out.case(req, &real);
    }
    let _ = std::fs::remove_dir_all("/verif/.build/batch/c02");
    // multi-file projects: nested module directories, several modules per directory
    let layouts: Vec<Vec<&str>> = vec![
        vec!["geo/shapes/circle", "geo/shapes/square"],
        vec!["util", "geo/area"],
        vec!["a/b/c/deep", "a/b/other", "a/top", "flat"],
        vec!["pkg/one", "pkg/two", "pkg/three"],
        vec!["x/y/m1", "x/y/m2", "x/z/m3", "x/z/m4"],
        vec!["solo"],
        // a module that is also a directory of modules (a.incn next to a/b.incn): a.rs + a/b.rs, never a/mod.rs
        vec!["a", "a/b", "a/c/d"],
    ];
    let n_proj = if tier == "thorough" { layouts.len() } else { 3 };
    // the last layout (module = directory) runs in every tier
    let picked: Vec<usize> = (0..layouts.len()).filter(|i| *i < n_proj || *i == layouts.len() - 1).collect();
    for (li, layout) in layouts.iter().enumerate().filter(|(i, _)| picked.contains(i)) {
        let root = format!("/verif/.build/batch/c02proj{li}");
        let _ = std::fs::remove_dir_all(&root);
        let mut main = String::new();
        let mut calls = Vec::new();
        let mut expected = 0i64;
        for (mi, m) in layout.iter().enumerate() {
            let path = format!("{root}/src/{m}.incn");
            if let Some(parent) = std::path::Path::new(&path).parent() { std::fs::create_dir_all(parent).expect("mkdir"); }
            let fname = format!("fn_{}", m.replace('/', "_"));
            std::fs::write(&path, format!("pub def {fname}(v: int) -> int:\n    return v * {}\n", mi + 2)).expect("write");
            main.push_str(&format!("from {} import {fname}\n", m.replace('/', "::")));
            calls.push(format!("{fname}(10)"));
            expected += 10 * (mi as i64 + 2);
        }
        main.push_str(&format!("\ndef main() -> None:\n    println({})\n", calls.join(" + ")));
        std::fs::create_dir_all(format!("{root}/src")).expect("mkdir");
        std::fs::write(format!("{root}/src/main.incn"), &main).expect("write");
        let o = runner::build_project(&format!("{root}/src/main.incn"), &format!("{root}/out"), "/verif/.build/batch-target-proj");
        let real = match &o {
            Outcome::Ran { stdout, code: 0, .. } => format!("built {}", stdout.trim()),
            other => runner::show(other),
        };
        out.case(&format!("c02 project {} {expected}", layout.join(",")), &real);
        let _ = std::fs::remove_dir_all(&root);
    }
    // a multi-file probe: a pub item of an imported module that the import does not name, used by its bare name —
    // the checker accepts it (every pub declaration of a dependency is registered), the generated `use` lines name
    // only what was imported
    {
        let root = "/verif/.build/batch/c02projx";
        let _ = std::fs::remove_dir_all(root);
        std::fs::create_dir_all(format!("{root}/src")).expect("mkdir");
        std::fs::write(format!("{root}/src/helper.incn"), "pub def named(v: int) -> int:\n    return v + 1\n\npub def unnamed(v: int) -> int:\n    return v + 2\n").expect("write");
        let main = "from helper import named\n\ndef main() -> None:\n    println(named(1) + unnamed(1))\n";
        std::fs::write(format!("{root}/src/main.incn"), main).expect("write");
        let verdict = {
            let entry = format!("{root}/src/main.incn");
            let r = crate::util::catch(|| -> String {
                let Ok(modules) = incan::cli::commands::collect_modules(&entry) else { return "reject".to_string() };
                let Some(mainm) = modules.last() else { return "reject".to_string() };
                let deps: Vec<(&str, &incan_syntax::ast::Program)> = modules[..modules.len() - 1].iter().map(|m| (m.name.as_str(), &m.ast)).collect();
                let mut tc = incan::frontend::typechecker::TypeChecker::new();
                match tc.check_with_imports(&mainm.ast, &deps) { Ok(()) => "accept".to_string(), Err(_) => "reject".to_string() }
            });
            r.unwrap_or_else(|m| format!("panic {m}"))
        };
        let real = if verdict == "accept" {
            let o = runner::build_project(&format!("{root}/src/main.incn"), &format!("{root}/out"), "/verif/.build/batch-target-proj");
            match &o {
                Outcome::Ran { stdout, code: 0, .. } => format!("accept built {}", stdout.trim()),
                other => format!("accept {}", runner::show(other)),
            }
        } else { verdict };
        out.case("c02 probe unimported-pub-name-of-imported-module", &real);
        let _ = std::fs::remove_dir_all(root);
    }
    out.meta(&serde_json::json!({"core_programs": n_core, "probes": c02_probes().len(), "projects": n_proj, "outcome_histogram": hist}));
}
