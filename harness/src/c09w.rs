//! C09: the formatter's output writer (`FormatWriter`, exposed by the `incan_verif` hook) driven with generated
//! operation sequences; the Lean model (Tool/Writer) must produce the same text.
use crate::util::{Out, Rng, catch, enc_str};
use incan::format::{FormatConfig, FormatWriter};

#[derive(Clone)]
enum Op {
    Write(String),
    Newline,
    Indent,
    Dedent,
    EndLine,
    Blank(usize),
}

fn enc_ops(ops: &[Op]) -> String {
    ops.iter()
        .map(|o| match o {
            Op::Write(s) => format!("w{}", enc_str(s)),
            Op::Newline => "n".to_string(),
            Op::Indent => "i".to_string(),
            Op::Dedent => "d".to_string(),
            Op::EndLine => "e".to_string(),
            Op::Blank(k) => format!("b{k}"),
        })
        .collect::<Vec<_>>()
        .join(";")
}

fn real(width: usize, ops: &[Op]) -> String {
    let mut w = FormatWriter::new(FormatConfig::default().with_indent_width(width));
    for o in ops {
        match o {
            Op::Write(s) => w.write(s),
            Op::Newline => w.newline(),
            Op::Indent => w.indent(),
            Op::Dedent => w.dedent(),
            Op::EndLine => w.end_line(),
            Op::Blank(k) => w.blank_lines(*k),
        }
    }
    w.finish()
}

/// Does the sequence keep the client's side (no tab / line break in a piece, no line end after a piece ending in a blank)?
fn client_ok(ops: &[Op]) -> bool {
    let mut pend = false;
    for o in ops {
        match o {
            Op::Write(s) => {
                if s.contains('\t') || s.contains('\n') {
                    return false;
                }
                if !s.is_empty() {
                    pend = s.ends_with(' ');
                }
            }
            Op::Newline | Op::EndLine => {
                if pend {
                    return false;
                }
            }
            Op::Blank(k) => {
                if *k > 0 && pend {
                    return false;
                }
                if *k > 0 {
                    pend = false;
                }
            }
            _ => {}
        }
        if matches!(o, Op::Newline | Op::EndLine) {
            pend = false;
        }
    }
    !pend
}

pub fn run(out: &mut Out, tier: &str, seed: u64) {
    let mut rng = Rng::new(seed ^ 0xc09);
    let pieces = ["def ", "f", "(", ")", ":", "return", " ", "x", "class A", "a: int", "", "  ", "é=1", "# c ", "pass", "\"s t\"", "->", ", "];
    let mut seqs: Vec<(usize, Vec<Op>)> = Vec::new();
    // the shape of a type body: fields, a blank line between methods, nested blocks
    let w = |s: &str| Op::Write(s.to_string());
    seqs.push((4, vec![w("class A:"), Op::Newline, Op::Indent, w("x: int"), Op::Newline, Op::Blank(1), w("def f(self) -> int:"), Op::Newline, Op::Indent, w("return"), Op::EndLine, Op::Dedent, Op::Blank(1), w("def g(self) -> None:"), Op::Newline, Op::Indent, w("pass"), Op::EndLine, Op::EndLine, Op::Dedent, Op::Dedent, Op::Blank(2), w("x = 1"), Op::Newline]));
    seqs.push((2, vec![Op::Indent, Op::Indent, Op::Newline, Op::Blank(2), w("deep"), Op::Newline, Op::Dedent, Op::Dedent, Op::Dedent, w("top"), Op::EndLine]));
    seqs.push((4, vec![Op::Indent, w(""), Op::Newline, w(" "), Op::Newline]));
    // deep nesting: one line per level, down to level 14 and back (any indentation width, however wide the line gets)
    for width in [2usize, 4, 8] {
        let mut ops: Vec<Op> = Vec::new();
        for lvl in 0..15 {
            ops.push(w(&format!("if a{lvl}:")));
            ops.push(Op::Newline);
            ops.push(Op::Indent);
        }
        ops.push(w("pass"));
        ops.push(Op::Newline);
        for _ in 0..15 {
            ops.push(Op::Dedent);
            ops.push(w("x = 1"));
            ops.push(Op::EndLine);
        }
        seqs.push((width, ops));
    }
    let n = if tier == "thorough" { 20_000 } else { 2_000 };
    for _ in 0..n {
        let len = 1 + rng.below(24) as usize;
        let tidy = rng.chance(2, 3); // mostly sequences that keep the client's side
        let mut ops: Vec<Op> = Vec::new();
        // a quarter of the sequences start some levels deep
        if rng.chance(1, 4) {
            for _ in 0..rng.below(16) {
                ops.push(Op::Indent);
            }
        }
        for _ in 0..len {
            let op = match rng.below(12) {
                0..=4 => {
                    let mut p = rng.pick(&pieces).to_string();
                    if !tidy && rng.chance(1, 12) {
                        p.push(*rng.pick(&['\t', '\n']));
                    }
                    Op::Write(p)
                }
                5 | 6 => Op::Newline,
                7 => Op::Indent,
                8 => Op::Dedent,
                9 => Op::EndLine,
                _ => Op::Blank(rng.below(3) as usize),
            };
            if tidy {
                // keep the sequence completable: it stays clean if a line break is allowed next or was not needed
                let mut cand = ops.clone();
                cand.push(op.clone());
                cand.push(Op::Write("x".to_string()));
                if !client_ok(&cand) {
                    continue;
                }
            }
            ops.push(op);
        }
        if tidy && !client_ok(&ops) {
            ops.push(Op::Write("end".to_string()));
        }
        seqs.push((*rng.pick(&[2usize, 4, 4, 8]), ops));
    }
    let mut tidy_n = 0;
    let mut levels_seen = 0;
    for (width, ops) in &seqs {
        let ok = client_ok(ops);
        tidy_n += ok as usize;
        if ops.iter().any(|o| matches!(o, Op::Indent)) {
            levels_seen += 1;
        }
        let text = catch(|| real(*width, ops)).map(|t| enc_str(&t)).unwrap_or_else(|m| format!("panic {m}"));
        out.case(&format!("c09 writer {width} {}", enc_ops(ops)), &format!("{} {text}", ok as u8));
    }
    out.meta(&serde_json::json!({"writer_sequences": seqs.len(), "client_ok": tidy_n, "with_indent": levels_seen}));
}
