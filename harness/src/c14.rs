//! C14: import resolution (CLI vs shared/LSP resolver) and visibility, on generated directory layouts.
use crate::util::{Out, Rng, catch};
use incan_syntax::ast::{Declaration, ImportDecl, ImportKind};
use std::path::Path;

/// A layout: relative file paths (each file gets a unique marker so that a loaded module identifies its file).
fn write_layout(root: &str, files: &[&str], entry_imports: &str, sub_imports: Option<(&str, &str)>) {
    write_layout_at(root, "p", files, entry_imports, sub_imports)
}

fn write_layout_at(root: &str, entry_dir: &str, files: &[&str], entry_imports: &str, sub_imports: Option<(&str, &str)>) {
    let _ = std::fs::remove_dir_all(root);
    std::fs::create_dir_all(format!("{root}/{entry_dir}")).expect("mkdir");
    for f in files {
        let full = format!("{root}/{f}");
        if let Some(parent) = Path::new(&full).parent() {
            std::fs::create_dir_all(parent).expect("mkdir");
        }
        if f.ends_with('/') {
            std::fs::create_dir_all(&full).expect("mkdir");
            continue;
        }
        if f.ends_with("Cargo.toml") {
            std::fs::write(&full, "[package]\n").expect("w");
            continue;
        }
        let marker = f.replace(['/', '.'], "_");
        let extra = match sub_imports {
            Some((file, imp)) if *f == file => format!("{imp}\n"),
            _ => String::new(),
        };
        std::fs::write(&full, format!("{extra}pub const MARK_{marker}: int = 1\n\npub def x() -> int:\n    return 1\n")).expect("w");
    }
    std::fs::write(format!("{root}/{entry_dir}/main.incn"), format!("{entry_imports}\n\ndef main() -> None:\n    pass\n")).expect("w");
}

fn parse_import(line: &str) -> Option<ImportDecl> {
    let toks = incan_syntax::lexer::lex(&format!("{line}\n")).ok()?;
    let prog = incan_syntax::parser::parse(&toks).ok()?;
    prog.declarations.into_iter().find_map(|d| match d.node {
        Declaration::Import(i) => Some(i),
        _ => None,
    })
}

fn enc_import(i: &ImportDecl) -> Option<String> {
    let (form, p) = match &i.kind {
        ImportKind::Module(p) => ("m", p),
        ImportKind::From { module, .. } => ("f", module),
        _ => return None,
    };
    Some(format!("{form}:{}:{}:{}", if p.segments.is_empty() { "-".to_string() } else { p.segments.join(".") }, if p.is_absolute { 1 } else { 0 }, p.parent_levels))
}

fn rel(root: &str, p: &Path) -> String {
    let canon_root = Path::new(root).canonicalize().unwrap_or_else(|_| Path::new(root).to_path_buf());
    let c = p.canonicalize().unwrap_or_else(|_| p.to_path_buf());
    c.strip_prefix(&canon_root).map(|x| x.to_string_lossy().to_string()).unwrap_or_else(|_| c.to_string_lossy().to_string())
}

/// Which file does the CLI load for the (single) import of the entry file?  Found through the marker.
fn cli_loaded(root: &str, files: &[&str]) -> Result<Vec<String>, String> {
    cli_loaded_at(root, "p", files)
}

fn cli_loaded_at(root: &str, entry_dir: &str, files: &[&str]) -> Result<Vec<String>, String> {
    let mods = incan::cli::commands::collect_modules(&format!("{root}/{entry_dir}/main.incn")).map_err(|e| format!("error:{}", e.message.lines().next().unwrap_or("")))?;
    let mut out = Vec::new();
    for m in &mods {
        for f in files {
            let marker = format!("MARK_{}", f.replace(['/', '.'], "_"));
            if m.source.contains(&format!("{marker}:")) {
                out.push(f.to_string());
            }
        }
    }
    out.sort();
    Ok(out)
}

fn fs_enc(files: &[&str]) -> String {
    fs_enc_at("p", files)
}

fn fs_enc_at(entry_dir: &str, files: &[&str]) -> String {
    let mut fs: Vec<String> = files.iter().filter(|f| !f.ends_with('/')).map(|f| f.to_string()).collect();
    fs.push(format!("{entry_dir}/main.incn"));
    let mut dirs: std::collections::BTreeSet<String> = std::collections::BTreeSet::new();
    for f in files.iter().map(|f| f.to_string()).chain(std::iter::once(format!("{entry_dir}/main.incn"))) {
        let comps: Vec<&str> = f.trim_end_matches('/').split('/').collect();
        let upto = if f.ends_with('/') { comps.len() } else { comps.len() - 1 };
        for k in 1..=upto {
            dirs.insert(comps[..k].join("/"));
        }
    }
    format!("{}|{}", fs.join(";"), dirs.into_iter().collect::<Vec<_>>().join(";"))
}

fn resolve_case(out: &mut Out, root: &str, files: &[&str], import_line: &str) {
    let Some(imp) = parse_import(import_line) else { return };
    let Some(e) = enc_import(&imp) else { return };
    write_layout(root, files, import_line, None);
    let cli = match catch(|| cli_loaded(root, files)) {
        Ok(Ok(v)) => if v.is_empty() { "none".to_string() } else { v.join(",") },
        Ok(Err(e)) => e,
        Err(m) => format!("panic {m}"),
    };
    let shared = match catch(|| incan::frontend::module::resolve_import_path(Path::new(&format!("{root}/p")), &imp)) {
        Ok(Some(p)) => rel(root, &p),
        Ok(None) => "none".to_string(),
        Err(m) => format!("panic {m}"),
    };
    out.case(&format!("c14 resolve {} p p {e}", fs_enc(files)), &format!("cli={cli} shared={shared}"));
}

/// The entry file lives deeper (`<entry_dir>/main.incn`): multi-level `super::` imports written in the entry itself.
fn resolve_case_at(out: &mut Out, root: &str, entry_dir: &str, files: &[&str], import_line: &str) {
    let Some(imp) = parse_import(import_line) else { return };
    let Some(e) = enc_import(&imp) else { return };
    write_layout_at(root, entry_dir, files, import_line, None);
    let cli = match catch(|| cli_loaded_at(root, entry_dir, files)) {
        Ok(Ok(v)) => if v.is_empty() { "none".to_string() } else { v.join(",") },
        Ok(Err(e)) => e,
        Err(m) => format!("panic {m}"),
    };
    let shared = match catch(|| incan::frontend::module::resolve_import_path(Path::new(&format!("{root}/{entry_dir}")), &imp)) {
        Ok(Some(p)) => rel(root, &p),
        Ok(None) => "none".to_string(),
        Err(m) => format!("panic {m}"),
    };
    out.case(&format!("c14 resolve {} {entry_dir} {entry_dir} {e}", fs_enc_at(entry_dir, files)), &format!("cli={cli} shared={shared}"));
}

/// Two imports in one entry file: what one import resolves to must not depend on the import written before it
/// (the files loaded for the pair are the union of what each import loads on its own).
fn resolve_pair_case_at(out: &mut Out, root: &str, entry_dir: &str, files: &[&str], first: &str, second: &str) {
    let (Some(i1), Some(i2)) = (parse_import(first), parse_import(second)) else { return };
    let (Some(e1), Some(e2)) = (enc_import(&i1), enc_import(&i2)) else { return };
    write_layout_at(root, entry_dir, files, &format!("{first}\n{second}"), None);
    let cli = match catch(|| cli_loaded_at(root, entry_dir, files)) {
        Ok(Ok(v)) => if v.is_empty() { "none".to_string() } else { v.join(",") },
        Ok(Err(e)) => e,
        Err(m) => format!("panic {m}"),
    };
    out.case(&format!("c14 resolve2 {} {entry_dir} {e1} {e2}", fs_enc_at(entry_dir, files)), &format!("cli={cli}"));
}

/// Visibility with the module's real export computation: a module `m` with the given declarations, and
/// one importing entry per (spelling, name).
fn vis_cases(out: &mut Out, root: &str, decls: &[(&str, String, bool, Vec<String>)], extra_names: &[&str]) {
    for modpath in ["m", "pkg.inner", "pkg.sub.deep"] {
        vis_cases_at(out, root, modpath, decls, extra_names);
    }
}

/// `modpath`: dotted path of the imported module below the entry's directory (`pkg.inner` = pkg/inner.incn).
fn vis_cases_at(out: &mut Out, root: &str, modpath: &str, decls: &[(&str, String, bool, Vec<String>)], extra_names: &[&str]) {
    let mut src = String::new();
    for (kind, name, is_pub, variants) in decls {
        let p = if *is_pub { "pub " } else { "" };
        match *kind {
            "fn" => src.push_str(&format!("{p}def {name}() -> int:\n    return 1\n\n")),
            "const" => src.push_str(&format!("{p}const {name}: int = 1\n\n")),
            "model" => src.push_str(&format!("{p}model {name}:\n    a: int\n\n")),
            "class" => src.push_str(&format!("{p}class {name}:\n    a: int\n\n")),
            "enum" => src.push_str(&format!("{p}enum {name}:\n{}\n", variants.iter().map(|v| format!("    {v}\n")).collect::<String>())),
            "newtype" => src.push_str(&format!("{p}type {name} = newtype int\n\n")),
            _ => src.push_str(&format!("{p}trait {name}:\n    def describe_{}(self) -> str: ...\n\n", name.to_lowercase())),
        }
    }
    let enc = decls
        .iter()
        .map(|(k, n, p, vs)| format!("{k}:{n}:{}:{}", *p as u8, if vs.is_empty() { "-".to_string() } else { vs.join("+") }))
        .collect::<Vec<_>>()
        .join(";");
    let mut names: Vec<String> = Vec::new();
    for (_, n, _, vs) in decls {
        names.push(n.clone());
        names.extend(vs.iter().cloned());
    }
    names.extend(extra_names.iter().map(|s| s.to_string()));
    // bare use: the importer names some *other* pub item in its import and then uses this declaration by its bare
    // name — known exactly when the module exports it (a private declaration must stay unknown)
    for (kind, name, _is_pub, variants) in decls {
        let Some(other) = decls.iter().find(|d| d.2 && d.1 != *name) else { continue };
        let usage = match *kind {
            "fn" => format!("{name}()"),
            "const" => name.to_string(),
            "model" | "class" => format!("{name}(a=1)"),
            "enum" => match variants.first() { Some(v) => format!("{name}.{v}"), None => continue },
            "newtype" => format!("{name}(1)"),
            _ => continue,
        };
        let _ = std::fs::remove_dir_all(root);
        let file = format!("{root}/{}.incn", modpath.replace('.', "/"));
        std::fs::create_dir_all(std::path::Path::new(&file).parent().expect("parent")).expect("mkdir");
        std::fs::write(&file, &src).expect("w");
        std::fs::write(format!("{root}/main.incn"), format!("from {modpath} import {}\n\ndef main() -> None:\n    zz_v = {usage}\n", other.1)).expect("w");
        let entry = format!("{root}/main.incn");
        let res = catch(|| -> Result<String, String> {
            let modules = incan::cli::commands::collect_modules(&entry).map_err(|e| format!("collect-error:{}", e.message.lines().next().unwrap_or("")))?;
            let main = modules.last().ok_or("no modules")?;
            let deps: Vec<(&str, &incan_syntax::ast::Program)> = modules[..modules.len() - 1].iter().map(|m| (m.name.as_str(), &m.ast)).collect();
            let mut tc = incan::frontend::typechecker::TypeChecker::new();
            match tc.check_with_imports(&main.ast, &deps) {
                Ok(()) => Ok("accept".to_string()),
                Err(errs) => Ok(if errs.iter().any(|e| e.message.contains("Unknown symbol")) { "reject".to_string() } else { format!("other-error:{}", errs[0].message.replace(' ', "_")) }),
            }
        });
        let real = match res { Ok(Ok(s)) => s, Ok(Err(e)) => e, Err(m) => format!("panic {m}") };
        out.case(&format!("c14 vis {enc} bare {name} {modpath}"), &real);
    }
    // aliases: a pub name of the module other than the imported one (the alias must not stand in for the
    // imported name in the visibility question), and a name the module does not have at all
    let pub_names: Vec<String> = decls.iter().filter(|d| d.2).map(|d| d.1.clone()).collect();
    for name in names {
        let mut forms: Vec<String> = vec!["from".into(), "module".into()];
        let mut aliases: Vec<String> = vec!["zz_alias".into()];
        if let Some(p) = pub_names.iter().find(|p| **p != name) { aliases.push(p.clone()); }
        if let Some(p) = decls.iter().find(|d| !d.2 && d.1 != name) { aliases.push(p.1.clone()); }
        for a in &aliases {
            forms.push(format!("fromas-{a}"));
            forms.push(format!("moduleas-{a}"));
        }
        for form in forms.iter().map(|s| s.as_str()) {
            let line = match form.split_once('-') {
                None if form == "from" => format!("from {modpath} import {name}"),
                None => format!("import {}::{name}", modpath.replace('.', "::")),
                Some(("fromas", a)) => format!("from {modpath} import {name} as {a}"),
                Some((_, a)) => format!("import {}::{name} as {a}", modpath.replace('.', "::")),
            };
            let _ = std::fs::remove_dir_all(root);
            let file = format!("{root}/{}.incn", modpath.replace('.', "/"));
            std::fs::create_dir_all(std::path::Path::new(&file).parent().expect("parent")).expect("mkdir");
            std::fs::write(&file, &src).expect("w");
            std::fs::write(format!("{root}/main.incn"), format!("{line}\n\ndef main() -> None:\n    pass\n")).expect("w");
            let entry = format!("{root}/main.incn");
            let res = catch(|| -> Result<String, String> {
                let modules = incan::cli::commands::collect_modules(&entry).map_err(|e| format!("collect-error:{}", e.message.lines().next().unwrap_or("")))?;
                let main = modules.last().ok_or("no modules")?;
                let deps: Vec<(&str, &incan_syntax::ast::Program)> = modules[..modules.len() - 1].iter().map(|m| (m.name.as_str(), &m.ast)).collect();
                let mut tc = incan::frontend::typechecker::TypeChecker::new();
                match tc.check_with_imports(&main.ast, &deps) {
                    Ok(()) => Ok("accept".to_string()),
                    Err(_) => Ok("reject".to_string()),
                }
            });
            let real = match res {
                Ok(Ok(s)) => s,
                Ok(Err(e)) => e,
                Err(m) => format!("panic {m}"),
            };
            out.case(&format!("c14 vis {enc} {form} {name} {modpath}"), &real);
        }
    }
}

/// An import written in a module of a sub-directory: which file does each side pick?
fn nested_case(out: &mut Out, root: &str, files: &[&str], sub_file: &str, inner_import: &str) {
    let Some(imp) = parse_import(inner_import) else { return };
    let Some(e) = enc_import(&imp) else { return };
    let sub_mod = sub_file.trim_start_matches("p/").trim_end_matches(".incn").replace('/', ".");
    write_layout(root, files, &format!("from {sub_mod} import x"), Some((sub_file, inner_import)));
    let cli = match catch(|| cli_loaded(root, files)) {
        Ok(Ok(v)) => {
            let others: Vec<String> = v.into_iter().filter(|f| f != sub_file).collect();
            if others.is_empty() { "none".to_string() } else { others.join(",") }
        }
        Ok(Err(e)) => e,
        Err(m) => format!("panic {m}"),
    };
    let importer_dir = Path::new(&format!("{root}/{sub_file}")).parent().map(|p| p.to_path_buf()).unwrap_or_default();
    let shared = match catch(|| incan::frontend::module::resolve_import_path(&importer_dir, &imp)) {
        Ok(Some(p)) => rel(root, &p),
        Ok(None) => "none".to_string(),
        Err(m) => format!("panic {m}"),
    };
    let importer_rel = Path::new(sub_file).parent().map(|p| p.to_string_lossy().to_string()).unwrap_or_default();
    out.case(&format!("c14 resolve {} p {importer_rel} {e}", fs_enc(files)), &format!("cli={cli} shared={shared}"));
}

/// Whole-project verdict: collect modules and type-check like `incan --check` / `build` do.
fn check_case(out: &mut Out, root: &str, name: &str, files: &[(&str, &str)]) {
    let _ = std::fs::remove_dir_all(root);
    for (f, src) in files {
        let full = format!("{root}/{f}");
        if let Some(parent) = Path::new(&full).parent() {
            std::fs::create_dir_all(parent).expect("mkdir");
        }
        std::fs::write(&full, src).expect("w");
    }
    let entry = format!("{root}/{}", files[0].0);
    let res = catch(|| -> Result<String, String> {
        let modules = incan::cli::commands::collect_modules(&entry).map_err(|e| format!("collect-error:{}", e.message.lines().next().unwrap_or("")))?;
        let main = modules.last().ok_or("no modules")?;
        let deps: Vec<(&str, &incan_syntax::ast::Program)> = modules[..modules.len() - 1].iter().map(|m| (m.name.as_str(), &m.ast)).collect();
        let mut tc = incan::frontend::typechecker::TypeChecker::new();
        match tc.check_with_imports(&main.ast, &deps) {
            Ok(()) => Ok(format!("accept modules={}", modules.len())),
            Err(errs) => Ok(format!("reject {}", errs[0].message.chars().take(60).collect::<String>().replace(' ', "_"))),
        }
    });
    let real = match res {
        Ok(Ok(s)) => s,
        Ok(Err(e)) => e,
        Err(m) => format!("panic {m}"),
    };
    out.case(&format!("c14 check {name}"), &real);
}

pub fn run(out: &mut Out, tier: &str, seed: u64, scratch: &str) {
    let mut rng = Rng::new(seed);
    let root = format!("{scratch}/c14ws");
    let layouts: Vec<Vec<&str>> = vec![
        vec!["p/a.incn"],
        vec!["p/a.incn", "p/a/b.incn"],
        vec!["p/a/b.incn"],
        vec!["p/a.incan"],
        vec!["p/a.incn", "p/a.incan"],
        vec!["p/pkg/mod.incn"],
        vec!["p/pkg/mod.incan", "p/pkg.incn"],
        vec!["a.incn", "p/a.incn"],
        vec!["a.incn"],
        vec!["p/src/", "p/src/a.incn", "p/a.incn"],
        vec!["Cargo.toml", "a.incn", "p/a.incn"],
        vec!["p/a/b/c.incn", "p/a/b.incn"],
        vec![],
    ];
    let imports = [
        "import a", "import a::b", "import a::b::c", "from a import x", "from a.b import x", "from a::b import x",
        "from pkg import x", "import pkg", "import pkg::x", "from ..a import x", "import super::a", "from super::a import x",
        "import crate::a", "from crate::a import x", "import a as z", "from std.io import x", "from missing import x",
    ];
    for l in &layouts {
        for i in imports {
            resolve_case(out, &root, l, i);
        }
    }
    // imports written inside a module that lives in a sub-directory
    let nested_layouts: Vec<Vec<&str>> = vec![
        vec!["p/sub/c.incn", "p/sub/d.incn", "p/d.incn"],
        vec!["p/sub/c.incn", "p/sub/d.incn"],
        vec!["p/sub/c.incn", "p/d.incn"],
        vec!["p/sub/c.incn", "p/sub/inner/d.incn", "p/inner/d.incn"],
    ];
    for l in &nested_layouts {
        for i in ["from d import x", "import d", "from ..d import x", "from inner.d import x", "from super::d import x"] {
            nested_case(out, &root, l, "p/sub/c.incn", i);
        }
    }
    // multi-level parents written in a deeper entry file (entry = p/q/main.incn, then p/q/r/main.incn)
    let deep_layouts: Vec<Vec<&str>> = vec![
        vec!["a.incn", "p/a.incn", "p/q/a.incn"],
        vec!["a.incn", "p/a.incn"],
        vec!["a.incn", "p/q/a.incn"],
        vec!["p/a.incn"],
        vec!["a.incn"],
        vec!["a/b.incn", "p/a/b.incn", "p/q/a/b.incn"],
    ];
    let deep_imports = [
        "from a import x", "from super::a import x", "from super::super::a import x", "from ..a import x",
        "from super::super::a::b import x", "from super::a.b import x", "from super::super::super::a import x",
    ];
    for l in &deep_layouts {
        for i in deep_imports {
            resolve_case_at(out, &root, "p/q", l, i);
        }
    }
    for i in deep_imports {
        resolve_case_at(out, &root, "p/q/r", &["a.incn", "p/a.incn", "p/q/a.incn", "p/q/r/a.incn"], i);
    }
    // pairs of imports in one file (a parent-relative or crate-rooted import followed by a plain one and vice versa)
    let pair_layout = ["a.incn", "b.incn", "p/a.incn", "p/b.incn", "p/q/a.incn", "p/q/b.incn", "p/src/", "p/src/b.incn"];
    let firsts = ["from a import x", "from super::a import x", "from super::super::a import x", "from ..a import x", "from crate.a import x", "import super::a"];
    let seconds = ["from b import x", "from super::b import x", "from ..b import x", "import b"];
    for f1 in firsts {
        for f2 in seconds {
            resolve_pair_case_at(out, &root, "p/q", &pair_layout, f1, f2);
            resolve_pair_case_at(out, &root, "p/q", &pair_layout, f2, f1);
        }
    }
    // random layouts × imports
    let n_rand = if tier == "thorough" { 600 } else { 80 };
    let pool = ["p/a.incn", "p/a.incan", "p/a/b.incn", "p/a/mod.incn", "p/b.incn", "a.incn", "p/a/b/mod.incn", "p/src/", "Cargo.toml", "p/pkg/mod.incn", "p/pkg.incn"];
    for _ in 0..n_rand {
        let mut l: Vec<&str> = Vec::new();
        for f in pool {
            if rng.chance(1, 3) {
                l.push(f);
            }
        }
        let i = *rng.pick(&imports);
        resolve_case(out, &root, &l, i);
    }
    // visibility / missing / cycles
    let m = "def secret() -> int:\n    return 1\n\npub def open_() -> int:\n    return 2\n\nconst HIDDEN: int = 3\npub const SHOWN: int = 4\n";
    check_case(out, &root, "from-public", &[("main.incn", "from m import open_\n\ndef main() -> None:\n    print(open_())\n"), ("m.incn", m)]);
    check_case(out, &root, "from-private", &[("main.incn", "from m import secret\n\ndef main() -> None:\n    print(secret())\n"), ("m.incn", m)]);
    check_case(out, &root, "from-private-const", &[("main.incn", "from m import HIDDEN\n\ndef main() -> None:\n    print(HIDDEN)\n"), ("m.incn", m)]);
    check_case(out, &root, "from-mixed", &[("main.incn", "from m import open_, secret\n\ndef main() -> None:\n    print(open_())\n"), ("m.incn", m)]);
    check_case(out, &root, "module-public", &[("main.incn", "import m::open_\n\ndef main() -> None:\n    print(open_())\n"), ("m.incn", m)]);
    check_case(out, &root, "module-private", &[("main.incn", "import m::secret\n\ndef main() -> None:\n    print(secret())\n"), ("m.incn", m)]);
    check_case(out, &root, "qualified-private", &[("main.incn", "import m\n\ndef main() -> None:\n    print(m.secret())\n"), ("m.incn", m)]);
    check_case(out, &root, "qualified-public", &[("main.incn", "import m\n\ndef main() -> None:\n    print(m.open_())\n"), ("m.incn", m)]);
    check_case(out, &root, "missing-module-used", &[("main.incn", "from missing import thing\n\ndef main() -> None:\n    print(thing(1))\n")]);
    check_case(out, &root, "missing-module-unused", &[("main.incn", "import nothere\n\ndef main() -> None:\n    pass\n")]);
    check_case(out, &root, "cycle-2", &[("main.incn", "from a2 import g\n\ndef main() -> None:\n    print(g())\n"), ("a2.incn", "from b2 import f\n\npub def g() -> int:\n    return 1\n"), ("b2.incn", "from a2 import g\n\npub def f() -> int:\n    return g()\n")]);
    check_case(out, &root, "cycle-self", &[("main.incn", "from main import main\n\ndef main() -> None:\n    pass\n")]);
    check_case(out, &root, "cycle-3", &[("main.incn", "from c1 import f1\n\ndef main() -> None:\n    print(f1())\n"), ("c1.incn", "from c2 import f2\n\npub def f1() -> int:\n    return f2()\n"), ("c2.incn", "from c3 import f3\n\npub def f2() -> int:\n    return f3()\n"), ("c3.incn", "from c1 import f1\n\npub def f3() -> int:\n    return 3\n")]);
    // exports computed from the module's declarations (every declaration kind, pub and private, enum variants)
    let d = |k: &'static str, n: &str, p: bool, vs: &[&str]| (k, n.to_string(), p, vs.iter().map(|s| s.to_string()).collect::<Vec<_>>());
    vis_cases(
        out,
        &root,
        &[d("enum", "Hidden", false, &["Circle", "Square"]), d("enum", "Color", true, &["Red", "Green"]), d("fn", "describe", true, &[]), d("fn", "helper", false, &[])],
        &["Nowhere"],
    );
    vis_cases(
        out,
        &root,
        &[
            d("const", "LIMIT", true, &[]), d("const", "SECRET", false, &[]), d("model", "User", true, &[]), d("model", "Row", false, &[]),
            d("class", "Svc", true, &[]), d("class", "Impl", false, &[]), d("newtype", "UserId", true, &[]), d("newtype", "RawId", false, &[]),
            d("trait", "Shown", true, &[]), d("trait", "Inner", false, &[]),
        ],
        &[],
    );
    let kinds = ["fn", "const", "model", "class", "enum", "newtype", "trait"];
    for r in 0..(if tier == "thorough" { 12 } else { 3 }) {
        let mut ds = Vec::new();
        let n = 2 + rng.below(4) as usize;
        for i in 0..n {
            let k = *rng.pick(&kinds);
            let base = format!("{}{}x{r}", if k == "fn" { "f" } else if k == "const" { "K" } else { "T" }, i);
            let vs: Vec<String> = if k == "enum" { (0..1 + rng.below(3)).map(|j| format!("V{i}x{j}")).collect() } else { vec![] };
            ds.push((k, if k == "const" { base.to_uppercase() } else { base }, rng.chance(1, 2), vs));
        }
        vis_cases(out, &root, &ds, &[]);
    }
    let _ = std::fs::remove_dir_all(&root);
    out.meta(&serde_json::json!({"layouts": layouts.len(), "imports": imports.len(), "nested_layouts": nested_layouts.len(), "random": n_rand}));
}
