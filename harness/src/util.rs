//! Shared helpers: deterministic PRNG, panic capture, request/response writer.
use std::io::Write;
use std::panic::{self, AssertUnwindSafe};

/// SplitMix64: every random choice in the harness derives from one state.
pub struct Rng(pub u64);
impl Rng {
    pub fn new(seed: u64) -> Self {
        Rng(seed ^ 0x9E37_79B9_7F4A_7C15)
    }
    pub fn next(&mut self) -> u64 {
        self.0 = self.0.wrapping_add(0x9E37_79B9_7F4A_7C15);
        let mut z = self.0;
        z = (z ^ (z >> 30)).wrapping_mul(0xBF58_476D_1CE4_E5B9);
        z = (z ^ (z >> 27)).wrapping_mul(0x94D0_49BB_1331_11EB);
        z ^ (z >> 31)
    }
    pub fn below(&mut self, n: u64) -> u64 {
        if n == 0 { 0 } else { self.next() % n }
    }
    pub fn range(&mut self, lo: i64, hi: i64) -> i64 {
        // inclusive
        let span = (hi as i128 - lo as i128 + 1) as u128;
        (lo as i128 + (self.next() as u128 % span) as i128) as i64
    }
    pub fn pick<'a, T>(&mut self, xs: &'a [T]) -> &'a T {
        &xs[self.below(xs.len() as u64) as usize]
    }
    pub fn chance(&mut self, num: u64, den: u64) -> bool {
        self.below(den) < num
    }
}

pub fn silence_panics() {
    panic::set_hook(Box::new(|_| {}));
}

/// Run `f`, mapping a panic to `Err(message)`.
pub fn catch<T>(f: impl FnOnce() -> T) -> Result<T, String> {
    match panic::catch_unwind(AssertUnwindSafe(f)) {
        Ok(v) => Ok(v),
        Err(p) => {
            if let Some(s) = p.downcast_ref::<&str>() {
                Err((*s).to_string())
            } else if let Some(s) = p.downcast_ref::<String>() {
                Err(s.clone())
            } else {
                Err("<non-string panic>".to_string())
            }
        }
    }
}

/// One line per case: `<request>\t<real output>`; lines starting with `#` are metadata (JSON).
pub struct Out {
    w: std::io::BufWriter<std::fs::File>,
    pub n: u64,
}
impl Out {
    pub fn create(path: &str) -> Self {
        Out { w: std::io::BufWriter::new(std::fs::File::create(path).expect("create out")), n: 0 }
    }
    pub fn case(&mut self, req: &str, real: &str) {
        debug_assert!(!req.contains('\t') && !req.contains('\n'));
        // one case per physical line: no raw line-break character may survive (a lone '\r' is a line break to
        // readers in universal-newline mode)
        let real = real.replace('\n', "\\n").replace('\t', "\\t").replace('\r', "\\r");
        let req = req.replace('\r', "\\r");
        writeln!(self.w, "{req}\t{real}").expect("write");
        self.n += 1;
    }
    pub fn meta(&mut self, json: &serde_json::Value) {
        writeln!(self.w, "#{json}").expect("write");
    }
    pub fn finish(mut self) {
        self.w.flush().expect("flush");
    }
}

/// Encode a string as comma-separated hex scalar values ("-" for empty).
pub fn enc_str(s: &str) -> String {
    if s.is_empty() {
        return "-".to_string();
    }
    s.chars().map(|c| format!("{:x}", c as u32)).collect::<Vec<_>>().join(",")
}
