//! C06: compile-time evaluation of const initializers vs run-time evaluation of the same expression.
//!  A. `const K = E` through the real checker: verdict, type, TypeCheckInfo.const_values
//!  B. `v = E` in a function body, compiled with rustc and run
//!  C. `const K: T = E` compiled and printed at run time (emittable fragment, concat! chains)
//!  D. const dependency graphs (cycles) through the real checker, under a watchdog
use crate::runner::{self, Case, Outcome};
use crate::util::{Out, Rng, catch, enc_str};

#[derive(Clone, Debug)]
pub enum E {
    Int(i64), // non-negative literal
    Float(f64),
    Bool(bool),
    Str(String),
    Ref(&'static str),
    Neg(Box<E>),
    Not(Box<E>),
    Bin(&'static str, Box<E>, Box<E>),
    Index(Box<E>, Box<E>),
    Slice(Box<E>, Option<Box<E>>, Option<Box<E>>, Option<Box<E>>),
    Other(&'static str), // source text of a construct outside the const fragment
}

fn op_src(op: &str) -> &'static str {
    match op {
        "add" => "+", "sub" => "-", "mul" => "*", "div" => "/", "floorDiv" => "//", "mod" => "%", "pow" => "**",
        "eq" => "==", "ne" => "!=", "lt" => "<", "gt" => ">", "le" => "<=", "ge" => ">=",
        "and" => "and", "or" => "or", "in" => "in", "notIn" => "not in", _ => "is",
    }
}

fn str_lit(s: &str) -> String {
    let mut o = String::from("\"");
    for c in s.chars() {
        match c {
            '"' => o.push_str("\\\""),
            '\\' => o.push_str("\\\\"),
            '\n' => o.push_str("\\n"),
            '\t' => o.push_str("\\t"),
            c => o.push(c),
        }
    }
    o.push('"');
    o
}

/// Source text. Operands of binary operators are never parenthesised (parentheses are not const-evaluable), so the
/// generator only nests where precedence already groups the same way (see `gen_*`).
pub fn src(e: &E) -> String {
    match e {
        E::Int(n) => n.to_string(),
        E::Float(f) => format!("{f:?}"),
        E::Bool(b) => if *b { "True".into() } else { "False".into() },
        E::Str(s) => str_lit(s),
        E::Ref(n) => n.to_string(),
        E::Neg(x) => format!("-{}", src(x)),
        E::Not(x) => format!("not {}", src(x)),
        E::Bin(op, l, r) => format!("{} {} {}", src(l), op_src(op), src(r)),
        E::Index(b, i) => format!("{}[{}]", src(b), src(i)),
        E::Slice(b, s, e2, st) => {
            let f = |x: &Option<Box<E>>| x.as_ref().map(|v| src(v)).unwrap_or_default();
            if st.is_some() { format!("{}[{}:{}:{}]", src(b), f(s), f(e2), f(st)) } else { format!("{}[{}:{}]", src(b), f(s), f(e2)) }
        }
        E::Other(t) => t.to_string(),
    }
}

/// Protocol encoding (prefix, `;`-separated).
pub fn enc(e: &E, out: &mut Vec<String>) {
    match e {
        E::Int(n) => out.push(format!("i{n}")),
        E::Float(f) => out.push(format!("f{:016x}", f.to_bits())),
        E::Bool(b) => out.push(if *b { "bT".into() } else { "bF".into() }),
        E::Str(s) => out.push(format!("s{}", enc_str(s))),
        E::Ref(n) => out.push(format!("r{n}")),
        E::Neg(x) => { out.push("N".into()); enc(x, out) }
        E::Not(x) => { out.push("!".into()); enc(x, out) }
        E::Bin(op, l, r) => { out.push(format!("B{op}")); enc(l, out); enc(r, out) }
        E::Index(b, i) => { out.push("X".into()); enc(b, out); enc(i, out) }
        E::Slice(b, s, e2, st) => {
            out.push("S".into());
            enc(b, out);
            for x in [s, e2, st] {
                match x { Some(v) => enc(v, out), None => out.push("A".into()) }
            }
        }
        E::Other(_) => out.push("O".into()),
    }
}
pub fn enc_s(e: &E) -> String {
    let mut v = Vec::new();
    enc(e, &mut v);
    v.join(";")
}

/// Base consts every generated expression may refer to: (name, annotated type, initializer).
pub fn base_consts() -> Vec<(&'static str, &'static str, E)> {
    vec![
        ("S", "str", E::Str("héllo wörld".into())),
        ("T", "str", E::Str("a\tb\"c\\d".into())),
        ("U", "str", E::Str(String::new())),
        ("N", "int", E::Int(3)),
        ("M", "int", E::Neg(Box::new(E::Int(2)))),
        ("Z", "int", E::Int(0)),
        ("B", "bool", E::Bool(true)),
        ("F", "float", E::Float(2.5)),
    ]
}

fn b(e: E) -> Box<E> { Box::new(e) }

fn gen_int_atom(r: &mut Rng) -> E {
    match r.below(6) {
        0 => E::Ref("N"), 1 => E::Ref("M"), 2 => E::Ref("Z"),
        3 => E::Neg(b(E::Int(r.range(0, 12)))),
        _ => E::Int(r.range(0, 12)),
    }
}
/// int expression; `known` = only shapes whose value the const evaluator knows (literals, refs, negation)
fn gen_int(r: &mut Rng, depth: u32, known: bool) -> E {
    if depth == 0 || known || r.chance(1, 3) {
        return gen_int_atom(r);
    }
    // multiplicative chains on the left of additive ones: source text groups as written
    match r.below(5) {
        0 => E::Bin("add", b(gen_int(r, depth - 1, false)), b(gen_term(r))),
        1 => E::Bin("sub", b(gen_int(r, depth - 1, false)), b(gen_term(r))),
        _ => gen_term(r),
    }
}
fn gen_term(r: &mut Rng) -> E {
    match r.below(6) {
        0 => E::Bin("mul", b(gen_int_atom(r)), b(gen_int_atom(r))),
        1 => E::Bin("floorDiv", b(gen_int_atom(r)), b(gen_int_atom(r))),
        2 => E::Bin("mod", b(gen_int_atom(r)), b(gen_int_atom(r))),
        // exponents of every syntactic kind: literal, negated literal, const name (whatever its value), negated const
        3 => {
            let base = if r.chance(1, 2) { E::Ref("N") } else { E::Int(r.range(0, 4)) };
            let exp = match r.below(7) {
                0 => E::Ref("N"), 1 => E::Ref("M"), 2 => E::Ref("Z"), 3 => E::Neg(b(E::Ref("M"))),
                4 => E::Neg(b(E::Int(r.range(0, 3)))),
                _ => E::Int(r.range(0, 4)),
            };
            E::Bin("pow", b(base), b(exp))
        }
        _ => gen_int_atom(r),
    }
}
fn gen_str_atom(r: &mut Rng) -> E {
    match r.below(6) {
        0 => E::Ref("S"), 1 => E::Ref("T"), 2 => E::Ref("U"),
        3 => E::Str(["", "x", "añb", "q\"r", "line\nbreak", "tab\there", "\\"][r.below(7) as usize].to_string()),
        _ => E::Str(["abc", "hello", "ωμέγα"][r.below(3) as usize].to_string()),
    }
}
fn gen_bound(r: &mut Rng) -> Option<Box<E>> {
    match r.below(5) {
        0 => None,
        1 => Some(b(gen_int(r, 1, false))),
        _ => Some(b(gen_int_atom(r))),
    }
}
fn gen_str(r: &mut Rng, depth: u32) -> E {
    if depth == 0 || r.chance(1, 3) {
        return gen_str_atom(r);
    }
    match r.below(5) {
        0 | 1 => E::Bin("add", b(gen_str(r, depth - 1)), b(gen_str_postfix(r, depth - 1))),
        _ => gen_str_postfix(r, depth),
    }
}
/// postfix chain on an atom: indexing / slicing bind tighter than `+`
fn gen_str_postfix(r: &mut Rng, depth: u32) -> E {
    let base = gen_str_atom(r);
    if depth == 0 { return base; }
    match r.below(4) {
        0 => {
            let known = r.chance(2, 3);
            E::Index(b(base), b(gen_int(r, 1, known)))
        }
        1 => E::Slice(b(base), gen_bound(r), gen_bound(r), if r.chance(1, 2) { gen_bound(r) } else { None }),
        2 => E::Slice(b(E::Slice(b(base), gen_bound(r), gen_bound(r), None)), gen_bound(r), None, gen_bound(r)),
        _ => base,
    }
}
fn gen_bool(r: &mut Rng, depth: u32) -> E {
    if depth == 0 || r.chance(1, 4) {
        return match r.below(3) { 0 => E::Ref("B"), 1 => E::Bool(true), _ => E::Bool(false) };
    }
    match r.below(10) {
        // comparisons that mix int and float operands (either side), and float with float
        8 => {
            let fl = |r: &mut Rng| match r.below(3) { 0 => E::Ref("F"), 1 => E::Float(3.5), _ => E::Float(2.0) };
            let op = ["eq", "ne", "lt", "gt", "le", "ge"][r.below(6) as usize];
            match r.below(3) {
                0 => E::Bin(op, b(gen_int_atom(r)), b(fl(r))),
                1 => E::Bin(op, b(fl(r)), b(gen_int_atom(r))),
                _ => E::Bin(op, b(fl(r)), b(fl(r))),
            }
        }
        9 => {
            let op = ["eq", "ne", "lt", "gt", "le", "ge"][r.below(6) as usize];
            E::Bin("and", b(E::Bin(op, b(gen_int_atom(r)), b(E::Ref("F")))), b(gen_bool_atom(r)))
        }
        0 => E::Bin("or", b(gen_bool(r, depth - 1)), b(gen_and(r, depth - 1))),
        1 => gen_and(r, depth),
        2 => E::Not(b(gen_bool_atom(r))),
        3 => E::Bin(["eq", "ne", "lt", "gt", "le", "ge"][r.below(6) as usize], b(gen_int(r, 1, false)), b(gen_int(r, 1, false))),
        4 => E::Bin(["eq", "ne", "lt", "gt", "le", "ge"][r.below(6) as usize], b(gen_str_postfix(r, 1)), b(gen_str_postfix(r, 1))),
        5 => E::Bin("in", b(gen_str_atom(r)), b(gen_str_atom(r))),
        6 => E::Bin("notIn", b(gen_str_atom(r)), b(gen_str_atom(r))),
        _ => gen_bool_atom(r),
    }
}
fn gen_and(r: &mut Rng, depth: u32) -> E {
    if depth == 0 { return gen_bool_atom(r); }
    E::Bin("and", b(gen_and(r, depth - 1)), b(gen_bool_atom(r)))
}
fn gen_bool_atom(r: &mut Rng) -> E {
    match r.below(3) { 0 => E::Ref("B"), 1 => E::Bool(true), _ => E::Bool(false) }
}
fn gen_float(r: &mut Rng) -> E {
    let atom = |r: &mut Rng| match r.below(4) { 0 => E::Ref("F"), 1 => E::Float(0.5), 2 => E::Neg(b(E::Float(1.25))), _ => gen_int_atom(r) };
    match r.below(5) {
        0 => E::Bin("div", b(gen_int_atom(r)), b(gen_int_atom(r))),
        1 => E::Bin("add", b(E::Ref("F")), b(atom(r))),
        2 => E::Bin("mul", b(atom(r)), b(E::Float(2.0))),
        3 => E::Neg(b(E::Ref("F"))),
        _ => E::Ref("F"),
    }
}
/// ill-typed or non-const shapes (the checker must reject them; the model must say which way)
fn gen_bad(r: &mut Rng) -> E {
    match r.below(10) {
        0 => E::Neg(b(gen_str_atom(r))),
        1 => E::Not(b(gen_int_atom(r))),
        2 => E::Index(b(gen_int_atom(r)), b(gen_int_atom(r))),
        3 => E::Index(b(gen_str_atom(r)), b(gen_str_atom(r))),
        4 => E::Slice(b(gen_str_atom(r)), Some(b(gen_str_atom(r))), None, None),
        5 => E::Bin("add", b(gen_str_atom(r)), b(gen_int_atom(r))),
        6 => E::Bin("and", b(gen_int_atom(r)), b(E::Bool(true))),
        7 => E::Bin("lt", b(gen_str_atom(r)), b(gen_int_atom(r))),
        8 => if r.chance(1, 5) { E::Ref("undefined_name") } else { E::Other(["len(S)", "(1 + 2)", "S.upper()", "f\"{N}\""][r.below(4) as usize]) },
        _ => E::Bin("in", b(gen_int_atom(r)), b(gen_str_atom(r))),
    }
}

pub fn gen_expr(r: &mut Rng) -> (E, &'static str) {
    match r.below(12) {
        0..=3 => (gen_str(r, 3), "str"),
        4..=5 => (gen_int(r, 3, false), "int"),
        6 => (gen_int(r, 0, true), "int"),
        7..=8 => (gen_bool(r, 3), "bool"),
        9 => (gen_float(r), "float"),
        _ => (gen_bad(r), "bad"),
    }
}

fn header_consts() -> String {
    base_consts().iter().map(|(n, t, e)| format!("const {n}: {t} = {}\n", src(e))).collect()
}
fn defs_enc() -> String {
    base_consts().iter().map(|(n, _, e)| format!("{n}={}", enc_s(e))).collect::<Vec<_>>().join("|")
}

fn err_class(msg: &str) -> String {
    let m = msg;
    let c = if m.contains("Non-const name") || m.contains("Unknown symbol") { "nonConst" }
    else if m.contains("not allowed inside const initializers (phase 1)") && m.starts_with("Operator") { "operatorNotAllowed" }
    else if m.contains("is not allowed inside const initializers") { "notAllowed" }
    else if m.contains("Unary '-'") { "unaryNeg" }
    else if m.contains("Unary 'not'") { "unaryNot" }
    else if m.contains("Binary operator") { "binaryUnsupported" }
    else if m.contains("Cannot compare") { "cannotCompare" }
    else if m.contains("requires bool operands") { "logicalNeedsBool" }
    else if m.contains("Indexing is only supported") { "indexOnlyStrings" }
    else if m.contains("String index must be int") { "indexMustBeInt" }
    else if m.contains("Slicing is only supported") { "sliceOnlyStrings" }
    else if m.contains("must be int (got") { "sliceBoundMustBeInt" }
    else if m.contains("string index out of range") { "stringIndexOutOfRange" }
    else if m.contains("slice step cannot be zero") { "sliceStepZero" }
    else if m.contains("cycle") { "cycle" }
    else { return format!("other:{}", m.chars().take(60).collect::<String>().replace(' ', "_")) };
    c.to_string()
}

fn show_cv(v: &incan::frontend::typechecker::ConstValue) -> String {
    use incan::frontend::typechecker::ConstValue as V;
    match v {
        V::Int(n) => format!("int:{n}"),
        V::Float(f) => format!("float:{:016x}", f.to_bits()),
        V::Bool(b) => format!("bool:{b}"),
        V::FrozenStr(s) => format!("str:{}", enc_str(s)),
        V::FrozenBytes(_) => "bytes".to_string(),
    }
}

/// The checker's type for the same expression written in a function body (oracle side of the type agreement).
fn body_type(e: &E) -> String {
    let source = format!("{}def body() -> None:\n    v = {}\n", header_consts(), src(e));
    let toks = match incan_syntax::lexer::lex(&source) { Ok(t) => t, Err(_) => return "lex-error".into() };
    let ast = match incan_syntax::parser::parse(&toks) { Ok(a) => a, Err(_) => return "parse-error".into() };
    let mut tc = incan::frontend::typechecker::TypeChecker::new();
    if tc.check_program(&ast).is_err() {
        return "rejected".into();
    }
    let info = tc.type_info();
    for d in &ast.declarations {
        if let incan_syntax::ast::Declaration::Function(f) = &d.node {
            if let Some(st) = f.body.first() {
                if let incan_syntax::ast::Statement::Assignment(a) = &st.node {
                    return info.expr_type(a.value.span).map(|t| t.to_string().replace(' ', "")).unwrap_or_else(|| "?".into());
                }
            }
        }
    }
    "?".into()
}

/// A: the real checker on `const K = E` (no annotation), after the base consts.
fn check_const(e: &E) -> String {
    let source = format!("{}const K = {}\n\ndef main() -> None:\n    pass\n", header_consts(), src(e));
    let r = catch(|| -> String {
        let toks = match incan_syntax::lexer::lex(&source) { Ok(t) => t, Err(e) => return format!("lex-error {}", e[0].message.replace(' ', "_")) };
        let ast = match incan_syntax::parser::parse(&toks) { Ok(a) => a, Err(e) => return format!("parse-error {}", e[0].message.replace(' ', "_")) };
        let mut tc = incan::frontend::typechecker::TypeChecker::new();
        match tc.check_program(&ast) {
            Err(errs) => format!("err {}", err_class(&errs[0].message)),
            Ok(()) => {
                let info = tc.type_info();
                let ty = ast.declarations.iter().find_map(|d| match &d.node {
                    incan_syntax::ast::Declaration::Const(c) if c.name == "K" => info.expr_type(c.value.span).map(|t| t.to_string()),
                    _ => None,
                }).unwrap_or_else(|| "?".to_string());
                let val = info.const_value("K").map(show_cv).unwrap_or_else(|| "none".to_string());
                format!("ok {} {val} body={}", ty.replace(' ', ""), body_type(e))
            }
        }
    });
    r.unwrap_or_else(|m| format!("panic {m}"))
}

/// String consts inlined as literals (run-time concatenation of String *variables* does not build: C02).
fn inline_strs(e: &E) -> E {
    let bx = |x: &E| Box::new(inline_strs(x));
    match e {
        E::Ref(n) => match base_consts().into_iter().find(|(m, t, _)| m == n && *t == "str") {
            Some((_, _, init)) => init,
            None => e.clone(),
        },
        E::Neg(x) => E::Neg(bx(x)),
        E::Not(x) => E::Not(bx(x)),
        E::Bin(op, l, r) => E::Bin(op, bx(l), bx(r)),
        E::Index(b2, i) => E::Index(bx(b2), bx(i)),
        E::Slice(b2, s, e2, st) => E::Slice(bx(b2), s.as_ref().map(|x| bx(x)), e2.as_ref().map(|x| bx(x)), st.as_ref().map(|x| bx(x))),
        other => other.clone(),
    }
}

/// B: the expression in a function body; numeric/bool consts arrive as typed parameters of the same names.
fn run_program(e: &E, ty: &str) -> String {
    format!(
        "def f(N: int, M: int, Z: int, B: bool, F: float) -> {ty}:\n    return {}\n\ndef main() -> None:\n    v = f(3, -2, 0, True, 2.5)\n    println(f\"{{v}}\")\n",
        src(&inline_strs(e))
    )
}
/// C: the expression as a const initializer, printed at run time.
fn const_program(e: &E, ty: &str) -> String {
    format!("{}const K: {ty} = {}\n\ndef main() -> None:\n    println(f\"{{K}}\")\n", header_consts(), src(e))
}

fn canon_run(o: &Outcome, ty: &str) -> String {
    match o {
        Outcome::Ran { stdout, code: 0, panic: None } => {
            let t = stdout.strip_suffix('\n').unwrap_or(stdout);
            match ty {
                "str" => format!("ok str:{}", enc_str(t)),
                "float" => t.trim().parse::<f64>().map(|f| format!("ok float:{:016x}", f.to_bits())).unwrap_or_else(|_| format!("ok float?{t}")),
                "bool" => format!("ok bool:{t}"),
                _ => format!("ok int:{t}"),
            }
        }
        Outcome::Ran { panic: Some(p), .. } => {
            if p.contains("ZeroDivisionError") { "err zeroDivision".to_string() }
            else if p.contains("string index out of range") { "err stringIndexOutOfRange".to_string() }
            else if p.contains("slice step cannot be zero") { "err sliceStepZero".to_string() }
            else { format!("panic {}", p.replace(' ', "_")) }
        }
        other => runner::show(other),
    }
}

/// D: a const dependency graph through the real checker, in a thread with a watchdog (a loop must be reported).
fn check_graph(edges: &[(String, Vec<String>)]) -> String {
    let mut source = String::new();
    for (n, ds) in edges {
        let init = if ds.is_empty() { "1".to_string() } else { ds.join(" + ") };
        source.push_str(&format!("const {n}: int = {init}\n"));
    }
    source.push_str("\ndef main() -> None:\n    pass\n");
    let (tx, rx) = std::sync::mpsc::channel();
    std::thread::spawn(move || {
        let r = catch(|| -> String {
            let toks = match incan_syntax::lexer::lex(&source) { Ok(t) => t, Err(_) => return "lex-error".into() };
            let ast = match incan_syntax::parser::parse(&toks) { Ok(a) => a, Err(_) => return "parse-error".into() };
            let mut tc = incan::frontend::typechecker::TypeChecker::new();
            match tc.check_program(&ast) {
                Ok(()) => "ok".to_string(),
                Err(errs) => {
                    let m = &errs[0].message;
                    if let Some(p) = m.strip_prefix("Const dependency cycle detected: ") { format!("cycle {}", p.replace(" -> ", ">")) }
                    else { format!("err {}", err_class(m)) }
                }
            }
        });
        let _ = tx.send(r.unwrap_or_else(|m| format!("panic {m}")));
    });
    rx.recv_timeout(std::time::Duration::from_secs(10)).unwrap_or_else(|_| "TIMEOUT (no verdict within 10 s)".to_string())
}

pub fn run(out: &mut Out, tier: &str, seed: u64, _scratch: &str) {
    let mut rng = Rng::new(seed);
    let defs = defs_enc();
    let n_a = if tier == "thorough" { 12000 } else { 1500 };
    let n_b = if tier == "thorough" { 900 } else { 140 };
    let n_c = if tier == "thorough" { 300 } else { 50 };
    let n_d = if tier == "thorough" { 2000 } else { 250 };
    let mut kinds: std::collections::BTreeMap<String, u64> = std::collections::BTreeMap::new();
    // corpus of past failures first
    let corpus: Vec<(E, &'static str)> = vec![
        (E::Slice(b(E::Ref("S")), Some(b(E::Int(0))), Some(b(E::Bin("add", b(E::Int(1)), b(E::Int(1))))), None), "str"),
        (E::Slice(b(E::Str("hello".into())), None, None, Some(b(E::Int(0)))), "str"),
        (E::Index(b(E::Str("hello".into())), b(E::Int(9))), "str"),
        (E::Index(b(E::Ref("U")), b(E::Int(0))), "str"),
        (E::Slice(b(E::Ref("S")), None, None, Some(b(E::Neg(b(E::Int(1)))))), "str"),
        (E::Bin("add", b(E::Ref("T")), b(E::Str("\t".into()))), "str"),
    ];
    let mut exprs: Vec<(E, &'static str)> = corpus;
    for _ in 0..n_a {
        exprs.push(gen_expr(&mut rng));
    }
    for (e, ty) in &exprs {
        *kinds.entry(ty.to_string()).or_insert(0) += 1;
        out.case(&format!("c06 const {defs} {}", enc_s(e)), &check_const(e));
    }
    // B: runnable subset (well-typed, in the fragment the model gives a run-time meaning)
    let runnable: Vec<(E, &'static str)> = exprs.iter().filter(|(_, t)| *t != "bad").take(6 + n_b).cloned().collect();
    let cases: Vec<Case> = runnable.iter().map(|(e, t)| Case { name: String::new(), source: run_program(e, t) }).collect();
    let outs = runner::run_batch("/verif/.build/batch/c06", "/verif/.build/batch-target", &cases);
    for ((e, t), o) in runnable.iter().zip(outs.iter()) {
        out.case(&format!("c06 run {defs} {}", enc_s(e)), &canon_run(o, t));
    }
    // C: emittable const fragment
    let mut cexprs: Vec<(E, &'static str)> = vec![
        (E::Bin("add", b(E::Ref("T")), b(E::Str("\tq\"\\é".into()))), "str"),
        (E::Bin("add", b(E::Bin("add", b(E::Ref("S")), b(E::Ref("T")))), b(E::Ref("U"))), "str"),
    ];
    for _ in 0..n_c {
        let pick = rng.below(4);
        let e = match pick {
            0 => (E::Bin(["add", "sub", "mul"][rng.below(3) as usize], b(gen_int_atom(&mut rng)), b(gen_int_atom(&mut rng))), "int"),
            1 => {
                let mut e = gen_str_atom(&mut rng);
                for _ in 0..rng.below(4) { e = E::Bin("add", b(e), b(gen_str_atom(&mut rng))); }
                (e, "str")
            }
            2 => (E::Bin(["and", "or"][rng.below(2) as usize], b(gen_bool_atom(&mut rng)), b(E::Not(b(gen_bool_atom(&mut rng))))), "bool"),
            _ => (E::Bin(["eq", "lt", "ge"][rng.below(3) as usize], b(gen_int_atom(&mut rng)), b(gen_int_atom(&mut rng))), "bool"),
        };
        cexprs.push(e);
    }
    let ccases: Vec<Case> = cexprs.iter().map(|(e, t)| Case { name: String::new(), source: const_program(e, t) }).collect();
    let couts = runner::run_batch("/verif/.build/batch/c06", "/verif/.build/batch-target", &ccases);
    for ((e, t), o) in cexprs.iter().zip(couts.iter()) {
        out.case(&format!("c06 construn {defs} {}", enc_s(e)), &canon_run(o, t));
    }
    // E: frozen (const) sets and lists against what the same literal means at run time: membership of every element
    // and of absent values, and the length; elements are written in a shuffled order
    let n_e = if tier == "thorough" { 60 } else { 12 };
    let mut fz_cases: Vec<Case> = Vec::new();
    let mut fz_expect: Vec<String> = Vec::new();
    let mut fz_sets: Vec<(Vec<i64>, Vec<i64>)> = Vec::new();
    for _ in 0..n_e {
        let k = 3 + rng.below(5) as usize;
        let mut ints: Vec<i64> = Vec::new();
        while ints.len() < k {
            let v = rng.range(-9, 30);
            if !ints.contains(&v) { ints.push(v); }
        }
        let words = ["pear", "fig", "apple", "kiwi", "date", "plum", "lime"];
        let mut strs: Vec<&str> = words.to_vec();
        for i in (1..strs.len()).rev() { let j = rng.below(i as u64 + 1) as usize; strs.swap(i, j); }
        strs.truncate(2 + rng.below(4) as usize);
        let probes_i: Vec<i64> = ints.iter().copied().chain([-10, 31, ints[0] + 100]).collect();
        let probes_s: Vec<&str> = strs.iter().copied().chain(["zzz", ""]).collect();
        let mut src = format!("const NUMS: Set[int] = {{{}}}\nconst WORDS: Set[str] = {{{}}}\nconst SEQ: List[int] = [{}]\n\ndef main() -> None:\n",
            ints.iter().map(|v| v.to_string()).collect::<Vec<_>>().join(", "),
            strs.iter().map(|w| format!("\"{w}\"")).collect::<Vec<_>>().join(", "),
            ints.iter().map(|v| v.to_string()).collect::<Vec<_>>().join(", "));
        let mut exp: Vec<String> = Vec::new();
        for p in &probes_i {
            src.push_str(&format!("    print(NUMS.contains({p}))\n"));
            exp.push(ints.contains(p).to_string());
        }
        for p in &probes_s {
            src.push_str(&format!("    print(WORDS.contains(\"{p}\"))\n"));
            exp.push(strs.contains(p).to_string());
        }
        src.push_str("    print(NUMS.len())\n    print(WORDS.len())\n    print(SEQ.len())\n");
        exp.push(ints.len().to_string());
        exp.push(strs.len().to_string());
        exp.push(ints.len().to_string());
        fz_cases.push(Case { name: String::new(), source: src });
        fz_expect.push(exp.join("|"));
        fz_sets.push((ints.clone(), probes_i.clone()));
    }
    let fz_outs = runner::run_batch("/verif/.build/batch/c06", "/verif/.build/batch-target", &fz_cases);
    for (i, (o, exp)) in fz_outs.iter().zip(fz_expect.iter()).enumerate() {
        let real = match o {
            Outcome::Ran { stdout, code: 0, .. } => stdout.trim().replace('\n', "|"),
            other => runner::show(other),
        };
        out.case(&format!("c06 frozen {i} {exp}"), &real);
        // the integer set alone, with its elements and probes, for the model (Sem/Comprehension `contains`)
        let (ints, probes) = &fz_sets[i];
        let n = probes.len();
        let got: Vec<&str> = real.split('|').take(n).collect();
        out.case(
            &format!("c06 frozenset {} {}", ints.iter().map(|v| v.to_string()).collect::<Vec<_>>().join(","), probes.iter().map(|v| v.to_string()).collect::<Vec<_>>().join(",")),
            &got.join(","),
        );
    }
    let _ = std::fs::remove_dir_all("/verif/.build/batch/c06");
    // D: dependency graphs
    for g in 0..n_d {
        let n = 1 + rng.below(6) as usize;
        let names: Vec<String> = (0..n).map(|i| format!("C{i}")).collect();
        let mut edges = Vec::new();
        for i in 0..n {
            let mut ds = Vec::new();
            for j in 0..n {
                // mostly forward edges (acyclic), sometimes any direction
                let p = if g % 3 == 0 { j > i } else { true };
                if p && rng.chance(1, 4) {
                    ds.push(names[j].clone());
                }
            }
            edges.push((names[i].clone(), ds));
        }
        let genc = edges.iter().map(|(n, ds)| format!("{n}:{}", if ds.is_empty() { "-".to_string() } else { ds.join("+") })).collect::<Vec<_>>().join(",");
        out.case(&format!("c06 cycle {genc}"), &check_graph(&edges));
    }
    out.meta(&serde_json::json!({"const_exprs": exprs.len(), "run_programs": runnable.len(), "const_programs": cexprs.len(), "graphs": n_d, "expr_kinds": kinds}));
}
