//! C15 / C12: the generated Cargo project.  Stream A drives ProjectGenerator directly over flag × crate
//! combinations (each repeated with fresh hash maps); stream B runs the real `build_file` with a stub
//! `cargo` first in PATH on small programs and inspects Cargo.toml and the generated sources.
use crate::util::{Out, Rng, catch, enc_str};
use incan::backend::project::ProjectGenerator;

const KNOWN: [&str; 19] = [
    "serde", "serde_json", "tokio", "time", "chrono", "reqwest", "uuid", "rand", "regex", "anyhow", "thiserror",
    "tracing", "clap", "log", "env_logger", "sqlx", "futures", "bytes", "itertools",
];
const UNKNOWN: [&str; 4] = ["notacrate", "my_lib", "zzz", "axum_extra"];
/// Well-known crate names: whichever of them the known-good table does not list must be refused, never wildcarded.
const POPULAR: [&str; 40] = ["once_cell", "lazy_static", "itertools", "rayon", "anyhow", "thiserror", "clap", "log", "env_logger", "bytes",
    "futures", "hyper", "tracing", "bitflags", "libc", "num", "num_traits", "crossbeam", "parking_lot", "smallvec", "indexmap", "hashbrown",
    "url", "base64", "hex", "sha2", "md5", "flate2", "tempfile", "walkdir", "glob", "toml", "serde_yaml", "csv", "image", "nom", "syn", "quote",
    "proc_macro2", "time"];

/// `[dependencies]` section as `name=spec` entries in file order, plus package / bin names.
pub fn read_manifest(path: &str) -> Result<String, String> {
    let text = std::fs::read_to_string(path).map_err(|e| format!("no Cargo.toml: {e}"))?;
    let mut section = String::new();
    let mut deps: Vec<String> = Vec::new();
    let (mut pkg, mut bin) = (String::new(), String::new());
    for line in text.lines() {
        let l = line.trim();
        if l.starts_with('[') {
            section = l.to_string();
            continue;
        }
        if l.is_empty() || l.starts_with('#') {
            continue;
        }
        if let Some((k, v)) = l.split_once('=') {
            let (k, v) = (k.trim(), v.trim());
            match section.as_str() {
                "[dependencies]" => {
                    // paths depend on where the compiler lives: keep only the last two components
                    let v = if let Some(p) = v.find("path = \"") {
                        let rest = &v[p + 8..];
                        let end = rest.find('"').unwrap_or(rest.len());
                        let full = &rest[..end];
                        let short: Vec<&str> = full.rsplit('/').take(2).collect();
                        v.replace(full, &format!("<repo>/{}/{}", short[1], short[0]))
                    } else {
                        v.to_string()
                    };
                    deps.push(format!("{k}={}", v.replace(' ', "")));
                }
                "[package]" if k == "name" => pkg = v.trim_matches('"').to_string(),
                "[[bin]]" if k == "name" => bin = v.trim_matches('"').to_string(),
                _ => {}
            }
        }
    }
    Ok(format!("pkg={pkg} bin={bin} deps={}", if deps.is_empty() { "-".to_string() } else { deps.join(";") }))
}

fn manifest_case(out: &mut Out, scratch: &str, name: &str, flags: (bool, bool, bool), crates: &[&str], rep: usize) {
    let dir = format!("{scratch}/c15a");
    let _ = std::fs::remove_dir_all(&dir);
    let real = match catch(|| -> Result<String, String> {
        let mut g = ProjectGenerator::new(&dir, name, true);
        g.set_needs_serde(flags.0);
        g.set_needs_tokio(flags.1);
        g.set_needs_axum(flags.2);
        for c in crates {
            add_crate(&mut g, c)?;
        }
        g.generate("fn main() {}\n").map_err(|e| format!("io:{e}"))?;
        read_manifest(&format!("{dir}/Cargo.toml"))
    }) {
        Ok(Ok(s)) => s,
        Ok(Err(e)) => format!("error:{}", e.lines().next().unwrap_or("")),
        Err(m) => format!("panic {m}"),
    };
    let f = |b: bool| if b { '1' } else { '0' };
    out.case(
        &format!("c15 manifest {name} {}{}{} {} {rep}", f(flags.0), f(flags.1), f(flags.2), if crates.is_empty() { "-".to_string() } else { crates.join(",") }),
        &real,
    );
}

/// `add_rust_crate` returned `()` before the fix and `Result<(), UnknownCrateError>` after it; this
/// shim accepts both signatures.
trait AddResult {
    fn into_result(self) -> Result<(), String>;
}
impl AddResult for () {
    fn into_result(self) -> Result<(), String> {
        Ok(())
    }
}
impl<E: std::fmt::Display> AddResult for Result<(), E> {
    fn into_result(self) -> Result<(), String> {
        self.map_err(|e| e.to_string())
    }
}
/// Every crate name `add_rust_crate` has a match arm for, read from the source as it is now (so that an arm added
/// later is exercised without touching this file).
fn source_arm_names() -> Vec<String> {
    let Ok(text) = std::fs::read_to_string("/repo/src/backend/project.rs") else { return vec![] };
    let Some(start) = text.find("pub fn add_rust_crate(") else { return vec![] };
    let body = &text[start..];
    let end = body.find("\n    }\n").unwrap_or(body.len());
    let mut names = Vec::new();
    for line in body[..end].lines() {
        let t = line.trim_start();
        if !t.starts_with('"') { continue; }
        let Some(arrow) = t.find("=>") else { continue };
        for part in t[..arrow].split('|') {
            let n = part.trim().trim_matches('"');
            if !n.is_empty() && n.chars().all(|c| c.is_ascii_alphanumeric() || c == '_' || c == '-') { names.push(n.to_string()); }
        }
    }
    names
}

fn add_crate(g: &mut ProjectGenerator, c: &str) -> Result<(), String> {
    g.add_rust_crate(c).into_result()
}

fn program(serde: bool, tokio: bool, web: bool, crates: &[&str], in_dep: bool) -> (String, Option<String>) {
    let mut main = String::new();
    let mut dep = String::new();
    // alternate the two import spellings; the `from` form leaves a `use <crate>::…` line in the generated code
    let imports: String = crates
        .iter()
        .enumerate()
        .map(|(i, c)| if i % 2 == 0 { format!("from rust::{c} import Item{i}\n") } else { format!("import rust::{c}\n") })
        .collect();
    if in_dep {
        dep.push_str(&imports);
        dep.push_str("\npub def helper() -> int:\n    return 1\n");
        main.push_str("from helper_mod import helper\n");
    } else {
        main.push_str(&imports);
    }
    if web {
        main.push_str("from web import App, route, Response, GET\n");
    }
    main.push('\n');
    // with a dependency module, the serde / async triggers live there and nowhere else: every module's code ends
    // up in the generated crate
    if serde && in_dep {
        dep.push_str("\n@derive(Serialize)\npub model Item:\n    name: str\n");
    } else if serde {
        main.push_str("@derive(Serialize)\nmodel Item:\n    name: str\n\n");
    }
    if web {
        main.push_str("@route(\"/\", methods=[GET])\ndef index() -> Response:\n    return Response.html(\"hi\")\n\n");
    }
    if tokio && in_dep {
        dep.push_str("\npub async def work() -> int:\n    return 1\n");
    } else if tokio {
        main.push_str("async def work() -> int:\n    return 1\n\n");
    }
    main.push_str("def main() -> None:\n");
    if in_dep {
        main.push_str("    print(helper())\n");
    } else {
        main.push_str("    print(1)\n");
    }
    (main, if in_dep { Some(dep) } else { None })
}

/// Features spread over the entry file and two dependency modules (`m` = entry, `a` / `b` = first / second module the
/// entry imports): every placement must give the same manifest as having them all in one file.
fn program_split(place: &str) -> (String, String, String) {
    let at = |i: usize| place.as_bytes().get(i).copied().unwrap_or(b'-') as char;
    let (sp, tp, wp) = (at(0), at(1), at(2));
    let piece = |who: char| -> String {
        let mut t = String::new();
        if wp == who {
            t.push_str("from web import Response\n\n");
        }
        if sp == who {
            t.push_str(&format!("@derive(Serialize)\npub model Item{who}:\n    name: str\n\n"));
        }
        if tp == who {
            t.push_str(&format!("pub async def work{who}() -> int:\n    return 1\n\n"));
        }
        if wp == who {
            t.push_str(&format!("pub def page{who}(p: Response) -> Response:\n    return p\n\n"));
        }
        t
    };
    let a = format!("{}pub def helper_a() -> int:\n    return 1\n", piece('a'));
    let b = format!("{}pub def helper_b() -> int:\n    return 2\n", piece('b'));
    let main = format!("from mod_a import helper_a\nfrom mod_b import helper_b\n{}\ndef main() -> None:\n    print(helper_a() + helper_b())\n", {
        let p = piece('m');
        if p.is_empty() { String::new() } else { format!("\n{p}") }
    });
    (main, a, b)
}

fn split_case(out: &mut Out, scratch: &str, place: &str) {
    let ws = format!("{scratch}/c15b/ws");
    let outdir = format!("{scratch}/c15b/out");
    let _ = std::fs::remove_dir_all(format!("{scratch}/c15b"));
    std::fs::create_dir_all(&ws).expect("mkdir");
    let (main, a, b) = program_split(place);
    let main_path = format!("{ws}/app.incn");
    // the import lines of a module must come first: the web import of the entry file is moved up
    let main = if main.contains("from web import Response") {
        format!("from web import Response\n{}", main.replacen("from web import Response\n\n", "", 1))
    } else { main };
    std::fs::write(&main_path, &main).expect("write main");
    std::fs::write(format!("{ws}/mod_a.incn"), a).expect("write a");
    std::fs::write(format!("{ws}/mod_b.incn"), b).expect("write b");
    let res = catch(|| incan::cli::commands::build_file(&main_path, Some(&outdir)));
    let status = match &res {
        Ok(Ok(_)) => "built".to_string(),
        Ok(Err(e)) => format!("refused:{}", e.message.lines().next().unwrap_or("").chars().take(80).collect::<String>()),
        Err(m) => format!("panic {m}"),
    };
    let manifest = read_manifest(&format!("{outdir}/Cargo.toml")).unwrap_or_else(|e| e);
    let cands: Vec<String> = vec!["serde".into(), "serde_json".into(), "tokio".into(), "axum".into(), "incan_stdlib".into(), "incan_derive".into()];
    let refs = referenced_crates(&outdir, &cands);
    let has = |i: usize| if place.as_bytes()[i] != b'-' { '1' } else { '0' };
    out.case(
        &format!("c15 build app {}{}{} - split:{place} 0", has(0), has(1), has(2)),
        &format!("{status} | {manifest} | refs={}", if refs.is_empty() { "-".to_string() } else { refs.join(",") }),
    );
}

/// External crate roots referred to by `use x::…` / `x::…` in generated sources.
fn referenced_crates(dir: &str, candidates: &[String]) -> Vec<String> {
    let mut found = std::collections::BTreeSet::new();
    fn walk(d: &std::path::Path, acc: &mut Vec<std::path::PathBuf>) {
        if let Ok(rd) = std::fs::read_dir(d) {
            for e in rd.flatten() {
                let p = e.path();
                if p.is_dir() {
                    walk(&p, acc);
                } else if p.extension().is_some_and(|x| x == "rs") {
                    acc.push(p);
                }
            }
        }
    }
    let mut files = Vec::new();
    walk(std::path::Path::new(&format!("{dir}/src")), &mut files);
    for f in files {
        let text = std::fs::read_to_string(&f).unwrap_or_default();
        for c in candidates {
            let pat = format!("{c}::");
            let mut from = 0;
            while let Some(i) = text[from..].find(&pat) {
                let at = from + i;
                let before = text[..at].chars().last().unwrap_or(' ');
                if !(before.is_alphanumeric() || before == '_' || before == ':') {
                    found.insert(c.clone());
                    break;
                }
                from = at + pat.len();
            }
        }
    }
    found.into_iter().collect()
}

fn build_case(out: &mut Out, scratch: &str, name: &str, serde: bool, tokio: bool, web: bool, crates: &[&str], in_dep: bool, rep: usize) {
    let ws = format!("{scratch}/c15b/ws");
    let outdir = format!("{scratch}/c15b/out");
    let _ = std::fs::remove_dir_all(format!("{scratch}/c15b"));
    std::fs::create_dir_all(&ws).expect("mkdir");
    let (main, dep) = program(serde, tokio, web, crates, in_dep);
    let main_path = format!("{ws}/{name}.incn");
    std::fs::write(&main_path, &main).expect("write main");
    if let Some(d) = dep {
        std::fs::write(format!("{ws}/helper_mod.incn"), d).expect("write dep");
    }
    let res = catch(|| incan::cli::commands::build_file(&main_path, Some(&outdir)));
    let status = match &res {
        Ok(Ok(_)) => "built".to_string(),
        Ok(Err(e)) => format!("refused:{}", e.message.lines().next().unwrap_or("").chars().take(80).collect::<String>()),
        Err(m) => format!("panic {m}"),
    };
    let manifest = read_manifest(&format!("{outdir}/Cargo.toml")).unwrap_or_else(|e| e);
    let mut cands: Vec<String> = vec!["serde".into(), "serde_json".into(), "tokio".into(), "axum".into(), "incan_stdlib".into(), "incan_derive".into()];
    cands.extend(crates.iter().map(|c| c.to_string()));
    let refs = referenced_crates(&outdir, &cands);
    let f = |b: bool| if b { '1' } else { '0' };
    out.case(
        &format!("c15 build {name} {}{}{} {} {} {rep}", f(serde), f(tokio), f(web), if crates.is_empty() { "-".to_string() } else { crates.join(",") }, if in_dep { "dep" } else { "main" }),
        &format!("{status} | {manifest} | refs={}", if refs.is_empty() { "-".to_string() } else { refs.join(",") }),
    );
    let _ = enc_str;
}

/// Programs whose only trigger of a feature sits at one particular syntactic position.
fn trigger_programs() -> Vec<(String, String)> {
    let mut v = Vec::new();
    let js = "json_stringify(d)";
    let wrap = |body: &str| format!("def main() -> None:\n    d = {{\"k\": 1}}\n    a = 1\n{body}");
    let positions: Vec<(&str, String)> = vec![
        ("stmt", wrap(&format!("    print({js})\n"))),
        ("assign", wrap(&format!("    s = {js}\n    print(s)\n"))),
        ("return", format!("def f(d: Dict[str, int]) -> str:\n    return {js}\n\ndef main() -> None:\n    print(f({{\"k\": 1}}))\n")),
        ("if-then", wrap(&format!("    if a > 0:\n        print({js})\n"))),
        ("else", wrap(&format!("    if a > 0:\n        print(1)\n    else:\n        print({js})\n"))),
        ("elif", wrap(&format!("    if a > 1:\n        print(1)\n    elif a > 0:\n        print({js})\n    else:\n        print(2)\n"))),
        ("if-cond", wrap(&format!("    if {js} == \"x\":\n        print(1)\n"))),
        ("while-body", wrap(&format!("    mut n = 0\n    while n < 2:\n        print({js})\n        n += 1\n"))),
        ("while-cond", wrap(&format!("    mut n = 0\n    while len({js}) > 100 and n < 2:\n        n += 1\n"))),
        ("for-iter", wrap(&format!("    for ch in [{js}]:\n        print(ch)\n"))),
        ("elif-cond", wrap(&format!("    if a > 1:\n        print(1)\n    elif {js} == \"x\":\n        print(2)\n"))),
        ("for-body", wrap(&format!("    for i in range(2):\n        print({js})\n"))),
        ("match-arm", wrap(&format!("    match a:\n        1 => print({js})\n        _ => print(0)\n"))),
        ("call-arg", wrap(&format!("    print(len({js}))\n"))),
        ("binary", wrap(&format!("    print(\"x\" + {js})\n"))),
        ("method", format!("class K:\n    v: int\n\n    def dump(self, d: Dict[str, int]) -> str:\n        return {js}\n\ndef main() -> None:\n    print(K(v=1).dump({{\"k\": 1}}))\n")),
        ("nested-if", wrap(&format!("    if a > 0:\n        if a > 1:\n            print(0)\n        else:\n            print({js})\n"))),
        ("list-elem", wrap(&format!("    xs = [{js}]\n    print(xs[0])\n"))),
    ];
    for (pos, src) in positions {
        v.push((format!("serde:{pos}"), src));
    }
    // the same trigger in the remaining owners of code and in expression forms with sub-expressions
    let more: Vec<(&str, String)> = vec![
        ("newtype-method", format!("type Id = newtype int:\n    def dump(self, d: Dict[str, int]) -> str:\n        return {js}\n\ndef main() -> None:\n    print(Id(1).dump({{\"k\": 1}}))\n")),
        ("trait-default-method", format!("trait Dumper:\n    def dump(self, d: Dict[str, int]) -> str:\n        return {js}\n\nclass K with Dumper:\n    v: int\n\ndef main() -> None:\n    print(K(v=1).dump({{\"k\": 1}}))\n")),
        ("model-method", format!("model M:\n    v: int\n\n    def dump(self, d: Dict[str, int]) -> str:\n        return {js}\n\ndef main() -> None:\n    print(M(v=1).dump({{\"k\": 1}}))\n")),
        ("fstring", wrap(&format!("    print(f\"v={{{js}}}\")\n"))),
        ("closure-body", wrap(&format!("    f = (x) => len({js}) + x\n    print(f(1))\n"))),
        ("comprehension-expr", wrap(&format!("    xs = [len({js}) + i for i in range(2)]\n    print(xs[0])\n"))),
        ("comprehension-filter", wrap(&format!("    xs = [i for i in range(3) if len({js}) > i]\n    print(len(xs))\n"))),
        ("dict-value", wrap(&format!("    m = {{\"a\": {js}}}\n    print(len(m))\n"))),
        ("index", wrap(&format!("    print({js}[0])\n"))),
        ("slice-bound", wrap(&format!("    s = \"abcdef\"\n    print(s[0:len({js})])\n"))),
        ("match-scrutinee", wrap(&format!("    match len({js}):\n        0 => print(0)\n        _ => print(1)\n"))),
        ("method-receiver", wrap(&format!("    print({js}.upper())\n"))),
        ("unary", wrap(&format!("    print(-len({js}))\n"))),
        ("compound-assign", wrap(&format!("    mut n = 0\n    n += len({js})\n    print(n)\n"))),
        ("field-assign", format!("class K:\n    s: str\n\ndef main() -> None:\n    d = {{\"k\": 1}}\n    mut k = K(s=\"\")\n    k.s = {js}\n    print(k.s)\n")),
        ("index-assign", wrap(&format!("    mut xs = [\"\"]\n    xs[0] = {js}\n    print(xs[0])\n"))),
        ("constructor-arg", format!("model M:\n    s: str\n\ndef main() -> None:\n    d = {{\"k\": 1}}\n    m = M(s={js})\n    print(m.s)\n")),
        ("tuple-elem", wrap(&format!("    t = (1, {js})\n    print(t.0)\n"))),
        ("chained-assign", wrap(&format!("    s1 = s2 = {js}\n    print(s1)\n    print(s2)\n"))),
        ("index-assign-index", wrap(&format!("    mut xs = [0, 0, 0, 0, 0, 0, 0, 0, 0, 0]\n    xs[len({js})] = 1\n    print(xs[0])\n"))),
        ("ifexpr-cond", wrap(&format!("    v = if len({js}) > 0:\n        1\n    else:\n        2\n    print(v)\n"))),
    ];
    for (pos, src) in more {
        v.push((format!("serde:{pos}"), src));
    }
    // serde requested through derives only, at every place a derive can stand
    let m = |decos: &str, kind: &str| format!("{decos}{kind} Item:\n    name: str\n\ndef main() -> None:\n    pass\n");
    v.push(("serde:derive-model".into(), m("@derive(Serialize)\n", "model")));
    v.push(("serde:derive-class".into(), m("@derive(Deserialize)\n", "class")));
    v.push(("serde:derive-last-in-list".into(), m("@derive(Debug, Eq, Deserialize)\n", "model")));
    v.push(("serde:derive-second-decorator".into(), m("@derive(Eq)\n@derive(Serialize)\n", "model")));
    v.push(("serde:derive-third-decorator".into(), m("@derive(Eq)\n@derive(Hash)\n@derive(Serialize, Deserialize)\n", "class")));
    v.push(("serde:derive-on-second-declaration".into(), format!("@derive(Eq)\nmodel First:\n    a: int\n\n{}", m("@derive(Serialize)\n", "model"))));
    v.push(("serde:derive-on-class-after-model".into(), format!("model First:\n    a: int\n\n{}", m("@derive(Eq)\n@derive(Deserialize)\n", "class"))));
    v.push(("async:fn".into(), "async def w() -> int:\n    return 1\n\ndef main() -> None:\n    pass\n".into()));
    v.push(("async:class-method".into(), "class K:\n    v: int\n\n    async def w(self) -> int:\n        return 1\n\ndef main() -> None:\n    pass\n".into()));
    v.push(("async:newtype-method".into(), "type Id = newtype int:\n    async def w(self) -> int:\n        return 1\n\ndef main() -> None:\n    pass\n".into()));
    v.push(("async:trait-default-method".into(), "trait W:\n    async def w(self) -> int:\n        return 1\n\nclass K with W:\n    v: int\n\ndef main() -> None:\n    pass\n".into()));
    v.push(("async:model-method".into(), "model M:\n    v: int\n\n    async def w(self) -> int:\n        return 1\n\ndef main() -> None:\n    pass\n".into()));
    v.push(("web:route-only".into(), "@route(\"/\")\ndef index() -> str:\n    return \"hi\"\n\ndef main() -> None:\n    pass\n".into()));
    // the web import is not the first from-import of the file
    v.push(("web:import-after-other-from-import".into(), "from testing import assert_eq\nfrom web import App\n\ndef main() -> None:\n    pass\n".into()));
    v.push(("web:import-after-local-from-import".into(), "from helper_mod import helper\nfrom web import App\n\ndef main() -> None:\n    print(helper())\n".into()));
    v.push(("web:import-only".into(), "from web import App\n\ndef main() -> None:\n    pass\n".into()));
    v.push(("web+tokio-import".into(), "from web import App\nimport rust::tokio\nfrom rust::serde_json import Value\n\ndef main() -> None:\n    pass\n".into()));
    v.push(("serde+serde-import".into(), "from rust::serde import Serialize\nimport rust::serde_json\n\n@derive(Serialize)\nmodel Item:\n    name: str\n\ndef main() -> None:\n    pass\n".into()));
    v.push(("async+tokio-import".into(), "from rust::tokio import spawn\n\nasync def w() -> int:\n    return 1\n\ndef main() -> None:\n    pass\n".into()));
    v
}

fn trigger_case(out: &mut Out, scratch: &str, name: &str, src: &str) {
    let ws = format!("{scratch}/c15b/ws");
    let outdir = format!("{scratch}/c15b/out");
    let _ = std::fs::remove_dir_all(format!("{scratch}/c15b"));
    std::fs::create_dir_all(&ws).expect("mkdir");
    let main_path = format!("{ws}/app.incn");
    std::fs::write(&main_path, src).expect("write");
    if src.contains("from helper_mod import") {
        std::fs::write(format!("{ws}/helper_mod.incn"), "pub def helper() -> int:\n    return 1\n").expect("write");
    }
    let res = catch(|| incan::cli::commands::build_file(&main_path, Some(&outdir)));
    let status = match &res {
        Ok(Ok(_)) => "built".to_string(),
        Ok(Err(e)) => format!("refused:{}", e.message.lines().next().unwrap_or("").chars().take(80).collect::<String>()),
        Err(m) => format!("panic {m}"),
    };
    let manifest = read_manifest(&format!("{outdir}/Cargo.toml")).unwrap_or_else(|e| e);
    let cands: Vec<String> = ["serde", "serde_json", "tokio", "axum", "incan_stdlib", "incan_derive"].iter().map(|s| s.to_string()).collect();
    let refs = referenced_crates(&outdir, &cands);
    // what the program uses, derived from the scenario name: flags = (serde, async, web), crates = explicit rust:: imports
    let (flags, crates) = match name {
        n if n.starts_with("serde:") => ("100", "-"),
        n if n.starts_with("async:") => ("010", "-"),
        "web:route-only" | "web:import-only" | "web:import-after-other-from-import" | "web:import-after-local-from-import" => ("001", "-"),
        "web+tokio-import" => ("001", "tokio,serde_json"),
        "serde+serde-import" => ("100", "serde,serde_json"),
        "async+tokio-import" => ("010", "tokio"),
        _ => ("000", "-"),
    };
    out.case(&format!("c15 trigger app {flags} {crates} {name} 0"), &format!("{status} | {manifest} | refs={}", if refs.is_empty() { "-".to_string() } else { refs.join(",") }));
}

/// Sweep of the feature scanners: at every expression position of the corpus and repository programs the expression
/// is replaced by a trigger (`json_stringify(..)` / an `await`), the text is re-parsed and the real scanner is asked.
fn scanner_sweep(out: &mut Out, tier: &str) {
    let mut files: Vec<String> = Vec::new();
    for dir in ["/verif/corpus/c03", "/verif/corpus/fmt", "/repo/examples", "/repo/tests/fixtures/valid", "/repo/tests/codegen_snapshots"] {
        let mut stack = vec![std::path::PathBuf::from(dir)];
        while let Some(d) = stack.pop() {
            if let Ok(rd) = std::fs::read_dir(&d) {
                for e in rd.filter_map(|e| e.ok()) {
                    let p = e.path();
                    if p.is_dir() { stack.push(p); } else if p.extension().map(|x| x == "incn").unwrap_or(false) { files.push(p.to_string_lossy().to_string()); }
                }
            }
        }
    }
    files.sort();
    let per_path = if tier == "thorough" { 6 } else { 2 };
    let parse = |src: &str| incan_syntax::lexer::lex(src).ok().and_then(|t| incan_syntax::parser::parse(&t).ok());
    for (feature, trigger) in [("serde", "json_stringify(zz_d)"), ("async", "(await zz_f())")] {
        let mut seen: std::collections::BTreeMap<String, u32> = std::collections::BTreeMap::new();
        let (mut n, mut unparsable, mut skipped_files) = (0u32, 0u32, 0u32);
        for f in &files {
            let Ok(src) = std::fs::read_to_string(f) else { continue };
            let Some(base) = parse(&src) else { continue };
            let base_hit = if feature == "serde" { incan::backend::ir::detect_serde_usage(&base) } else { incan::backend::ir::detect_async_usage(&base) };
            if base_hit { skipped_files += 1; continue; }
            let Some(positions) = crate::c03::expr_positions(&src) else { continue };
            for (path, a, b) in positions {
                let c = seen.entry(path.clone()).or_insert(0);
                if *c >= per_path { continue; }
                let text = src[a..b].trim_end();
                let edited = format!("{}{}{}", &src[..a], trigger, &src[a + text.len()..]);
                let Some(ast) = parse(&edited) else { unparsable += 1; continue };
                *c += 1;
                n += 1;
                let hit = if feature == "serde" { incan::backend::ir::detect_serde_usage(&ast) } else { incan::backend::ir::detect_async_usage(&ast) };
                out.case(&format!("c15 scan {feature} {path}"), if hit { "detected" } else { "missed" });
            }
        }
        out.meta(&serde_json::json!({"scanner_sweep": feature, "positions": n, "distinct_paths": seen.len(), "edits_unparsable": unparsable, "files_skipped_already_triggering": skipped_files}));
    }
}

pub fn run(out: &mut Out, tier: &str, seed: u64, scratch: &str) {
    scanner_sweep(out, tier);
    let mut rng = Rng::new(seed);
    let thorough = tier == "thorough";
    // stub cargo so that build_file's `cargo build --release` succeeds instantly and offline
    let stub = format!("{scratch}/c15stub");
    std::fs::create_dir_all(&stub).expect("stub dir");
    std::fs::write(format!("{stub}/cargo"), "#!/bin/sh\nexit 0\n").expect("stub");
    #[cfg(unix)]
    {
        use std::os::unix::fs::PermissionsExt;
        let _ = std::fs::set_permissions(format!("{stub}/cargo"), std::fs::Permissions::from_mode(0o755));
    }
    let path = std::env::var("PATH").unwrap_or_default();
    // SAFETY: single-threaded at this point
    unsafe { std::env::set_var("PATH", format!("{stub}:{path}")) };

    let reps = if thorough { 12 } else { 5 };
    // A: whole known table one by one, all flag combinations with fixed crate sets, random subsets
    for c in KNOWN.iter().chain(UNKNOWN.iter()).chain(POPULAR.iter().filter(|p| !KNOWN.contains(p))) {
        manifest_case(out, scratch, "proj", (false, false, false), &[c], 0);
    }
    let arms = source_arm_names();
    for c in arms.iter().filter(|c| !KNOWN.contains(&c.as_str()) && !POPULAR.contains(&c.as_str())) {
        manifest_case(out, scratch, "proj", (false, false, false), &[c.as_str()], 0);
    }
    for s in [false, true] {
        for t in [false, true] {
            for a in [false, true] {
                for rep in 0..reps {
                    manifest_case(out, scratch, "proj", (s, t, a), &["uuid", "rand", "serde", "tokio", "anyhow", "regex", "serde_json"], rep);
                }
                manifest_case(out, scratch, "proj", (s, t, a), &[], 0);
            }
        }
    }
    let n_rand = if thorough { 400 } else { 60 };
    for _ in 0..n_rand {
        let k = rng.below(7) as usize;
        let mut cs: Vec<&str> = Vec::new();
        for _ in 0..k {
            let c = if rng.chance(1, 8) { *rng.pick(&UNKNOWN) } else { *rng.pick(&KNOWN) };
            cs.push(c); // duplicates allowed: the second insert replaces the first
        }
        let flags = (rng.chance(1, 2), rng.chance(1, 2), rng.chance(1, 3));
        let name = *rng.pick(&["proj", "my-prog", "my_prog", "a1", "x"]);
        for rep in 0..2 {
            manifest_case(out, scratch, name, flags, &cs, rep);
        }
    }
    // B: end to end
    for s in [false, true] {
        for t in [false, true] {
            for w in [false, true] {
                build_case(out, scratch, "app", s, t, w, &[], false, 0);
                for rep in 0..reps {
                    build_case(out, scratch, "app", s, t, w, &["uuid", "rand", "regex", "anyhow", "log"], false, rep);
                }
            }
        }
    }
    build_case(out, scratch, "app", false, false, false, &["notacrate"], false, 0);
    build_case(out, scratch, "app", true, false, false, &["rand", "notacrate", "uuid"], false, 0);
    build_case(out, scratch, "app", false, false, false, &["rand", "uuid"], true, 0);
    // features used only in the dependency module
    for (sd, tk) in [(true, false), (false, true), (true, true)] {
        build_case(out, scratch, "app", sd, tk, false, &[], true, 0);
        build_case(out, scratch, "app", sd, tk, false, &["rand"], true, 0);
    }
    build_case(out, scratch, "app", false, true, false, &["serde_json", "tokio"], false, 0);
    // every placement of the three features over the entry file and two dependency modules (27 + absent ones)
    for sp in ['m', 'a', 'b', '-'] {
        for tp in ['m', 'a', 'b', '-'] {
            for wp in ['m', 'a', 'b', '-'] {
                if [sp, tp, wp].iter().all(|c| *c == 'm' || *c == '-') { continue; } // single-file cases are above
                split_case(out, scratch, &format!("{sp}{tp}{wp}"));
            }
        }
    }
    for name in ["my-prog", "my_prog", "a1", "prog2", "x"] {
        build_case(out, scratch, name, true, false, false, &["rand"], false, 0);
    }
    for (name, src) in trigger_programs() {
        trigger_case(out, scratch, &name, &src);
    }
    unsafe { std::env::set_var("PATH", path) };
    let _ = std::fs::remove_dir_all(format!("{scratch}/c15a"));
    let _ = std::fs::remove_dir_all(format!("{scratch}/c15b"));
    let _ = std::fs::remove_dir_all(&stub);
    out.meta(&serde_json::json!({"known_table": KNOWN.len(), "unknown_names": UNKNOWN.len(), "random_manifests": n_rand, "repetitions_per_case": reps}));
}
