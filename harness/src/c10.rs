//! C10: layout edits never change the parse.  The source is cut at the real lexer's own token spans:
//! tokens are atomic, everything between them (gaps) is layout text that the Lean layout model reads
//! character by character.
use crate::corpus;
use crate::util::{Out, Rng, catch};
use incan_core::lang::punctuation::PunctuationId as P;
use incan_syntax::lexer::{Token, TokenKind};

fn is_layout(k: &TokenKind) -> bool {
    matches!(k, TokenKind::Newline | TokenKind::Indent | TokenKind::Dedent | TokenKind::Eof)
}

fn kind_id(k: &TokenKind) -> u32 {
    // stable small id of the token kind *including its payload* (identifier name, literal value)
    let s = format!("{k:?}");
    let mut h: u32 = 2166136261;
    for b in s.bytes() {
        h = (h ^ b as u32).wrapping_mul(16777619);
    }
    h & 0xff_ffff
}

#[derive(Clone)]
pub struct Piece {
    pub gap: String,   // layout text before the token
    pub text: String,  // token text ("" for the final pseudo piece)
    pub opens: bool,
    pub closes: bool,
    pub id: u32,
    pub depth_before: usize,
}

/// Cut a source into (gap, token) pieces using the real lexer's spans. The last piece has an empty
/// token and carries the trailing gap.
pub fn pieces(src: &str, toks: &[Token]) -> Vec<Piece> {
    let mut out = Vec::new();
    let mut pos = 0usize;
    let mut depth = 0usize;
    for t in toks {
        if is_layout(&t.kind) {
            continue;
        }
        let opens = matches!(&t.kind, TokenKind::Punctuation(P::LParen | P::LBracket | P::LBrace));
        let closes = matches!(&t.kind, TokenKind::Punctuation(P::RParen | P::RBracket | P::RBrace));
        out.push(Piece {
            gap: src[pos..t.span.start].to_string(),
            text: src[t.span.start..t.span.end].to_string(),
            opens,
            closes,
            id: kind_id(&t.kind),
            depth_before: depth,
        });
        if opens {
            depth += 1;
        } else if closes {
            depth = depth.saturating_sub(1);
        }
        pos = t.span.end;
    }
    out.push(Piece { gap: src[pos..].to_string(), text: String::new(), opens: false, closes: false, id: 0, depth_before: depth });
    out
}

pub fn render(ps: &[Piece]) -> String {
    let mut s = String::new();
    for p in ps {
        s.push_str(&p.gap);
        s.push_str(&p.text);
    }
    s
}

fn encode_items(ps: &[Piece]) -> String {
    let mut parts: Vec<String> = Vec::new();
    for p in ps {
        for c in p.gap.chars() {
            parts.push(format!("c{:x}", c as u32));
        }
        if !p.text.is_empty() {
            let tag = if p.opens { 'o' } else if p.closes { 'x' } else { 't' };
            parts.push(format!("{tag}{:x}", p.id));
        }
    }
    if parts.is_empty() { "-".to_string() } else { parts.join(",") }
}

fn real_kinds(toks: &[Token]) -> String {
    toks.iter()
        .map(|t| match &t.kind {
            TokenKind::Newline => "N".to_string(),
            TokenKind::Indent => "I".to_string(),
            TokenKind::Dedent => "D".to_string(),
            TokenKind::Eof => "E".to_string(),
            k => format!("T{:x}", kind_id(k)),
        })
        .collect::<Vec<_>>()
        .join(",")
}

/// One lex correspondence case for a source that lexes.
fn lex_case(out: &mut Out, src: &str) -> bool {
    match catch(|| incan_syntax::lexer::lex(src)) {
        Ok(Ok(toks)) => {
            let ps = pieces(src, &toks);
            out.case(&format!("c10 lex {}", encode_items(&ps)), &real_kinds(&toks));
            true
        }
        _ => false,
    }
}

const EDITS: [&str; 11] = [
    "trailing_comment", "trailing_space", "blank_line", "comment_line", "crlf_gaps", "break_in_brackets",
    "final_newline_toggle", "reindent_2", "reindent_tab", "crlf_whole_file", "eof_blank_tail",
];

fn apply_edit(ps: &[Piece], kind: &str, rng: &mut Rng) -> Option<String> {
    let mut q: Vec<Piece> = ps.to_vec();
    let n = q.len();
    // positions of gaps that contain a newline (line ends)
    let nl_gaps: Vec<usize> = (0..n).filter(|&i| q[i].gap.contains('\n')).collect();
    match kind {
        "trailing_comment" | "trailing_space" | "blank_line" | "comment_line" => {
            if nl_gaps.is_empty() {
                return None;
            }
            let k = 1 + rng.below(4) as usize;
            for _ in 0..k {
                let i = *rng.pick(&nl_gaps);
                let g = q[i].gap.clone();
                let pos = g.find('\n')?;
                // is the text before the first newline of this gap a comment already?
                let before = &g[..pos];
                let ins = match kind {
                    "trailing_comment" => {
                        if before.contains('#') { continue; }
                        // half of the comments carry multi-byte text (a comment's length in bytes is not its length in characters)
                        if rng.chance(1, 2) { format!("{before}  # note: x = (1\n{}", &g[pos + 1..]) } else { format!("{before}  # n\u{e9}gatif \u{2192} z\u{e9}ro \u{4e2d}\u{6587} (1\n{}", &g[pos + 1..]) }
                    }
                    "trailing_space" => {
                        if before.contains('#') { continue; }
                        format!("{before} \t \n{}", &g[pos + 1..])
                    }
                    "blank_line" => format!("{before}\n{}\n{}", ["", "   ", "\t", "        "][rng.below(4) as usize], &g[pos + 1..]),
                    _ => format!(
                        "{before}\n{}# comment ) ] : \"\"\"\n{}",
                        " ".repeat(rng.below(9) as usize),
                        &g[pos + 1..]
                    ),
                };
                q[i].gap = ins;
            }
        }
        "crlf_gaps" => {
            for p in q.iter_mut() {
                p.gap = p.gap.replace('\n', "\r\n");
            }
        }
        "eof_blank_tail" => {
            // blanks after the last line break and no line break after them (any width: narrower, equal to or wider
            // than the innermost open block)
            let mut t = render(&q);
            if !t.ends_with('\n') {
                t.push('\n');
            }
            t.push_str(["", " ", "  ", "    ", "      ", "        ", "            ", "\t", "\t\t", " \t"][rng.below(10) as usize]);
            return Some(t);
        }
        "crlf_whole_file" => {
            return Some(render(&q).replace('\n', "\r\n"));
        }
        "break_in_brackets" => {
            let inside: Vec<usize> = (0..n).filter(|&i| q[i].depth_before > 0 && !q[i].text.is_empty()).collect();
            if inside.is_empty() {
                return None;
            }
            let k = 1 + rng.below(5) as usize;
            for _ in 0..k {
                let i = *rng.pick(&inside);
                if q[i].gap.contains('#') {
                    continue;
                }
                let ind = " ".repeat(rng.below(13) as usize);
                q[i].gap = match rng.below(3) {
                    0 => format!("{}\n{ind}", q[i].gap),
                    1 => if rng.chance(1, 2) { format!("{} # c\n{ind}", q[i].gap) } else { format!("{} # \u{4e2d}\u{6587}\u{6ce8}\u{91ca} \u{e9}\u{e8}\n{ind}", q[i].gap) },
                    _ => format!("{}\n\n{ind}", q[i].gap),
                };
            }
        }
        "final_newline_toggle" => {
            let last = n - 1;
            let g = q[last].gap.clone();
            if g.contains('#') {
                return None;
            }
            q[last].gap = if g.contains('\n') { String::new() } else { format!("{g}\n") };
        }
        "reindent_2" | "reindent_tab" => {
            // re-indent every logical line start at bracket depth 0 (first piece included)
            for i in 0..n {
                if q[i].depth_before > 0 || q[i].text.is_empty() {
                    continue;
                }
                let g = q[i].gap.clone();
                let (head, ind) = if i == 0 && !g.contains('\n') {
                    ("".to_string(), g.clone())
                } else if let Some(p) = g.rfind('\n') {
                    (g[..=p].to_string(), g[p + 1..].to_string())
                } else {
                    continue;
                };
                if !ind.chars().all(|c| c == ' ') || ind.len() % 4 != 0 {
                    return None; // file is not uniformly 4-space indented
                }
                let lvl = ind.len() / 4;
                let new_ind = if kind == "reindent_2" { "  ".repeat(lvl) } else { "\t".repeat(lvl) };
                q[i].gap = format!("{head}{new_ind}");
            }
        }
        _ => return None,
    }
    Some(render(&q))
}

fn synthetic(rng: &mut Rng) -> String {
    // small nested programs with brackets, strings and comments
    let mut s = String::new();
    let nf = 1 + rng.below(3);
    for f in 0..nf {
        s.push_str(&format!("def f{f}(a: int, b: List[int]) -> int:\n"));
        let mut depth = 1;
        let lines = 2 + rng.below(7);
        for _ in 0..lines {
            let ind = "    ".repeat(depth);
            match rng.below(7) {
                0 if depth < 4 => {
                    s.push_str(&format!("{ind}if a > {}:\n", rng.below(9)));
                    depth += 1;
                    s.push_str(&format!("{}x = [1, 2, (3 + a)]\n", "    ".repeat(depth)));
                }
                1 if depth < 4 => {
                    s.push_str(&format!("{ind}for i in range({}):\n", rng.below(9)));
                    depth += 1;
                    s.push_str(&format!("{}print(f\"v {{i}}\")\n", "    ".repeat(depth)));
                }
                2 if depth > 1 => {
                    depth -= 1;
                    s.push_str(&format!("{}y = {{\"k\": [a, b[0]], \"m\": (1, 2)}}\n", "    ".repeat(depth)));
                }
                3 => s.push_str(&format!("{ind}z = g(a, b[1:2], \"s # not a comment\")\n")),
                4 => s.push_str(&format!("{ind}w = \"\"\"multi\n  line\n\"\"\"\n")),
                _ => s.push_str(&format!("{ind}a = a + {}\n", rng.below(50))),
            }
        }
        s.push_str("    return a\n\n");
    }
    s
}

pub fn run(out: &mut Out, tier: &str, seed: u64) {
    let mut rng = Rng::new(seed);
    let thorough = tier == "thorough";
    let per_edit = if thorough { 6 } else { 2 };
    let mut sources: Vec<(String, String)> = corpus::files();
    let n_syn = if thorough { 300 } else { 60 };
    for i in 0..n_syn {
        sources.push((format!("<synthetic {i}>"), synthetic(&mut rng)));
    }
    let (mut used, mut skipped) = (0u32, 0u32);
    for (fi, (name, src)) in sources.iter().enumerate() {
        let toks = match catch(|| incan_syntax::lexer::lex(src)) {
            Ok(Ok(t)) => t,
            _ => {
                skipped += 1;
                continue;
            }
        };
        let base_ast = match catch(|| corpus::ast_string(src)) {
            Ok(Ok(a)) => a,
            _ => {
                skipped += 1;
                continue;
            }
        };
        used += 1;
        lex_case(out, src);
        let ps = pieces(src, &toks);
        debug_assert_eq!(render(&ps), *src);
        for ek in EDITS {
            for rep in 0..per_edit {
                let Some(edited) = apply_edit(&ps, ek, &mut rng) else { continue };
                if edited == *src {
                    continue;
                }
                let verdict = match catch(|| corpus::ast_string(&edited)) {
                    Ok(Ok(a)) => {
                        if a == base_ast { "same".to_string() } else { "differs".to_string() }
                    }
                    Ok(Err(e)) => e,
                    Err(m) => format!("panic {m}"),
                };
                let dump = if verdict != "same" && edited.len() < 1500 { crate::util::enc_str(&edited) } else { "-".to_string() };
                out.case(&format!("c10 edit {fi} {ek} {rep} {} {dump}", name.replace(' ', "_")), &verdict);
                if ek != "crlf_whole_file" {
                    lex_case(out, &edited);
                }
            }
        }
    }
    // cut points: the text up to the end of any logical line must parse the same with and without its final newline
    // (whatever the last statement is: a bare `return`, a bodyless trait method, `pass`, a closing bracket …)
    let per_file = if thorough { 40 } else { 8 };
    let mut n_cut = 0u32;
    for (fi, (name, src)) in sources.iter().enumerate() {
        let Ok(Ok(toks)) = catch(|| incan_syntax::lexer::lex(src)) else { continue };
        let ps = pieces(src, &toks);
        // a piece whose gap starts a new line at bracket depth 0: the text before that gap ends a logical line
        let ends: Vec<usize> = (1..ps.len()).filter(|&i| ps[i].depth_before == 0 && ps[i].gap.contains('\n') && !ps[i - 1].text.is_empty()).collect();
        if ends.is_empty() { continue; }
        let mut chosen: Vec<usize> = Vec::new();
        if ends.len() <= per_file { chosen = ends.clone(); } else { while chosen.len() < per_file { let e = *rng.pick(&ends); if !chosen.contains(&e) { chosen.push(e); } } }
        // lines that end in a word which may or may not be followed by something (`return`, `pass`, `break`, `continue`,
        // `...`, `:`) are always cut, whatever the seed draws
        for &e in ends.iter().filter(|&&e| matches!(ps[e - 1].text.as_str(), "return" | "pass" | "break" | "continue" | "..." | "yield")).take(40) {
            if !chosen.contains(&e) { chosen.push(e); }
        }
        for i in chosen {
            let mut prefix = render(&ps[..i]);
            // keep a trailing comment of the cut line with it
            let g = &ps[i].gap;
            let line_rest = &g[..g.find('\n').unwrap_or(0)];
            prefix.push_str(line_rest);
            let with_nl = format!("{prefix}\n");
            let a = catch(|| corpus::ast_string(&with_nl));
            let b = catch(|| corpus::ast_string(&prefix));
            let verdict = match (a, b) {
                (Ok(Ok(x)), Ok(Ok(y))) => if x == y { "same".to_string() } else { "differs".to_string() },
                (Ok(Err(_)), Ok(Err(_))) => "both-reject".to_string(),
                (Ok(Ok(_)), Ok(Err(e))) => format!("only-without-newline-rejected:{}", e.replace(' ', "_")),
                (Ok(Err(e)), Ok(Ok(_))) => format!("only-with-newline-rejected:{}", e.replace(' ', "_")),
                _ => "panic".to_string(),
            };
            let dump = if verdict != "same" && verdict != "both-reject" && prefix.len() < 1500 { crate::util::enc_str(&prefix) } else { "-".to_string() };
            out.case(&format!("c10 cut {fi} {i} {} {dump}", name.replace(' ', "_")), &verdict);
            lex_case(out, &prefix);
            n_cut += 1;
        }
    }
    out.meta(&serde_json::json!({"cut_points": n_cut}));
    out.meta(&serde_json::json!({"sources_used": used, "sources_skipped_not_parsing": skipped, "synthetic": n_syn, "edits": EDITS}));
}
