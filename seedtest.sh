#!/bin/sh
# usage: seedtest.sh <patch> <Cxx> [tier]   — apply a seeded change to /repo, run the check, undo it.
set -u
PATCH="$1"; PROP="$2"; TIER="${3:-quick}"
cd /repo || exit 2
if ! git diff --quiet; then echo "repo has uncommitted changes"; exit 2; fi
git apply "$PATCH" || { echo "patch does not apply"; exit 2; }
cd /verif && ./check "$PROP" --tier "$TIER" | grep -E "VIOLATION|KNOWN|^\[" ; rc=$?
git -C /repo checkout -- .
echo "seedtest rc(check)=$rc"
