#!/bin/sh
# Re-run every claimed check on the current tree (quick tier) so that the committed evidence files come from
# clean runs against /repo itself.  usage: ./runall.sh [tier]
cd /verif || exit 2
TIER="${1:-quick}"
rc=0
for id in $(python3 -c "import json;print(' '.join(c['property_id'] if 'property_id' in c else c['id'] for c in json.load(open('MANIFEST.json'))['checks']))"); do
  ./check "$id" --tier "$TIER" | grep -E "VIOLATION|^\[" || rc=1
done
exit $rc
