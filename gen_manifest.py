#!/usr/bin/env python3
"""Regenerates MANIFEST.json from the per-property table below (keeps the file valid by construction)."""
import json
import os

HERE = os.path.dirname(os.path.abspath(__file__))
BASE = json.load(open("/root/.vp/BASELINE.json")) if os.path.exists("/root/.vp/BASELINE.json") else {}

CHECKS = {
 "C01": dict(
  text="Lean 4 theorems over an interpreter for a core fragment (ints, bools, strings, List[int]; all arithmetic incl. // and %, comparisons, short-circuit and/or, not, len, indexing, concatenation, calls; let/mut/assignment/compound assignment, if-elif-else, while, for over range and lists, break/continue/return, append, print): `desugarS_sound` / `desugarB_sound` / `desugarElse_sound` (mutual structural induction, any shape and depth, every call oracle and fuel) — the compiler's restructuring (elif chains into nested if/else, `x op= e` into `x = x op e`, parenthesis nodes removed) preserves output, final variables, control flow and the way a run stops; `program_desugar_sound` lifts it to whole programs at every call depth; `desugarB_core` — the result uses only the core constructs; `elif_order`; `method_call_runs_most_derived_body` / `redeclared_method_is_own` (along an `extends` chain a call runs the body of the most derived class declaring the method: the model of collect_inherited_methods, tied to compiled class chains); the string comparison helpers are a total order with `<=`/`>=` holding on equal strings (`strRel_le`, `strRel_ge`, `strRel_refl`, `strRel_flip`, `strCmp_swap`); `compile_preserves_meaning_partial` — for programs whose emitted text rustc groups as the source does (`Safe`, computed per program) the compiled program means what the source means; the full statement is false: `grouping_lost_witness` (kernel-checked re-readings) and `only_not_regroups` / `not_regroups` on the precedence tables.",
  note="Partial: Safe programs of the core fragment. The recorded finding (grouping lost in infix emission, pinned by the `operators` snapshot) is reproduced exactly by the re-reading model on every unsafe program; a wrong result that the model does not explain, or on a Safe program, is a violation. Rust's meaning of the core constructs is trusted and validated by running. One fix: commit recorded under C13 (user methods named like builtins were silently not called).",
  technique="Lean 4 proof (mutual structural induction over statements/blocks/else-chains; order lemmas; finite precedence tables) + compiled-program correspondence with a re-reading model + CPython oracle",
  ref="C01"),
 "C02": dict(
  text="Lean 4 theorem `accepted_body_builds_partial` with its simulation lemmas (`bind_sim`, `stmt_sim`, `block_sim`, `else_sim`, `tyE_sim`, mutual structural induction over statements, blocks and else-chains of any depth): for function bodies of the core fragment, whatever the checker accepts (model chkS/chkB: check_assignment's same-block / enclosing-block / fresh-binding decision, mutability, condition and return types, helper operand types) is turned by lowering into Rust that meets rustc's requirements (model rustS/rustB: assignment only to a `let mut` of the same type, `let` for fresh names, block scoping incl. the extra block an `elif` becomes) — under a simulation relating the checker's scopes (with its shadow entries) to rustc's. The checker is taken with the comparison of the assigned type against an outer variable's type, which the implementation omits: `nested_retype_accepted` is the kernel-checked witness that the full statement fails, and a recorded finding.",
  note="Partial by fragment: 19 further constructs that type-check but do not build are recorded findings, each with a probe program that runs on every check (a probe that starts to build simply stops printing). Multi-file layout is oracle-only.",
  technique="Lean 4 proof (simulation between checker scopes and rustc scopes, mutual structural induction) + checker/build correspondence on generated variants + build oracle with per-construct probes",
  ref="C02"),
 "C03": dict(
  text="Lean 4 theorems: `every_position_checked` — over function bodies of any shape and depth (mutual induction on expressions, statements and blocks) every expression position and every statement of every block is handed to the checker, given the role table that the correspondence validates role by role (kernel-checked witness `elif_was_skipped` for the table before the fix); `reassign_immutable_rejected` / `reassign_mutable_accepted` / `fresh_name_accepted` — a plain `x = value` is rejected exactly when the nearest `x` bound in this or any enclosing block of the function is immutable, at any nesting depth (witness `old_checker_missed_nested`); `omitted_variant_reported` / `complete_match_accepted` — a variant no arm names, in a match without catch-all, is reported missing, and a complete match is not; `wrong_argument_reported` / `wrong_named_argument_reported` / `surplus_argument_reported` / `unknown_keyword_reported` / `missing_argument_reported` / `fitting_arguments_accepted` over the model of validate_method_call_args + check_required_arguments (any number of parameters, positional and keyword arguments, defaults); `missing_required_method_reported` / `wrong_signature_reported` / `missing_required_field_reported` / `wrong_field_type_reported` / `conforming_adopter_accepted` over the model of trait adoption. Which diagnostics the remaining rules produce, and that they are located on the edited lines, is decided by editing real programs at every position and running the real checker.",
  note="Six fix: commits repaired gaps found by this check (elif branches, nested re-assignment, `?` outside Result functions, plain call arguments, match guards; plus the .clone() fix found under C20). Open finding: diagnostics inside compound f-string interpolations are located relative to the interpolation. Trait adoption is exercised through generated trait / adopter pairs (class, model, class inheriting members).",
  technique="Lean 4 proof (mutual structural induction over the traversal; scope-chain lemmas; list reasoning for match coverage) + single-edit correspondence on real programs + rule oracle",
  ref="C03"),
 "C04": dict(
  text="Lean 4 theorems over all Int64 pairs: both copies of the // and % kernels compute Int.fdiv / Int.fmod (floor, sign of divisor, |r|<|b|, a = q*b + r without wrap), are equal as functions (incl. panicking pairs), zero divisor gives exactly the documented error, no other failure except MIN // -1. Float kernels: executable Lean model tied bit-for-bit to the real f64 kernels; Python itself is the oracle. The operators as programs use them (binary and compound forms on int / float / mixed variables) are compiled and run and tied to the same model.",
  note="Kernel-checked for the integer kernels; float rounding is outside any theorem (tie + oracle only). Model tied to /repo by differential correspondence on grids + seeded pairs (coverage in evidence).",
  technique="Lean 4 proof (Int64 -> Int refinement, omega) + model/implementation correspondence + Python oracle",
  ref="C04"),
 "C05": dict(
  text="Lean 4 theorems for all Int64 start/end/step/index values and all lists/strings shorter than 2^63: list_slice and str_slice (two copies, proved identical) return exactly CPython's slice (PySlice_AdjustIndices + stepping in unbounded integers), every selected index is in range, step 0 is exactly the documented ValueError; list_get/str_index equal Python indexing with the documented IndexError; range(a,b,c) yields exactly Python's range and its iterator terminates after at most |b-a| items for every i64 triple (no overflow hypothesis, after the saturating-step fix). Slice *syntax* ([a:b:c] in all 8 shapes, incl. `::`) is decided by the oracle on the real parser only.",
  note="Kernel-checked for the runtime helpers; `len as i64` assumes < 2^63 elements. Tie: exhaustive small grids + extremes in every position + random, against the real stdlib/core functions; oracle: CPython itself. dict_get KeyError text: tie + oracle only.",
  technique="Lean 4 proof (Int64 loops refine unbounded-integer reference, simulation relation under saturation) + correspondence + CPython oracle",
  ref="C05"),
 "C06": dict(
  text="Lean 4 theorems over the model of the const evaluator (eval_const_expr: literals, const references, unary/binary operators, string concatenation, membership, indexing, slicing with all bound combinations; eval_const_by_name's in-progress stack) and a run-time semantics of the same expressions built from the C04/C05 kernels: `const_value_sound` — by structural induction over initializers of any shape and depth, whenever the compiler records a value for an initializer, evaluating the same expression in a function body yields exactly that value (incl. short-circuit and/or, unknown slice bounds); `index_error_agrees` / `runtime_index_error_reported` / `slice_step_zero_agrees` — compile-time IndexError / zero-step ValueError coincide with the run-time ones; `const_type_sound` — the type decided at compile time (incl. the syntactic `**` rule) is the type of the run-time value; `static_fold_sound` — concat! folding of &'static str chains denotes the run-time concatenation; `ok_implies_no_repeat`, `cycle_is_rejected`, `never_out_of_fuel`, `resolution_terminates` — for every dependency graph the resolution ends with a verdict and a reachable cycle is never accepted.",
  note="Float arithmetic is executed, not reasoned about. Error classes are tied, not proved. Emission of consts as Rust const expressions is covered by the compiled-const stream only; most operators in const context do not build at all (C02). Two fix: commits (unknown slice bound treated as omitted; nested static string addition not folded).",
  technique="Lean 4 proof (structural induction over initializer expressions; invariants of the dependency DFS with a decreasing measure) + checker / compiled-program correspondence + value-agreement oracle",
  ref="C06"),
 "C07": dict(
  text="Lean 4 theorems by structural induction over numeric expression trees of any depth (int/float literals, typed variables, unary minus, parentheses, all 13 arithmetic/comparison operators): the checker's type, the IR type assigned by lowering, and the Rust type of the shape the emitter produces (helper call / method / infix with the planned conversions) all equal the documented table; the emitter's IR-based exponent classification equals the checker's AST-based one; `x: int = a / b` is always rejected; an accepted annotated binding never changes numeric kind. The finite policy table is proved entry by entry and also compared exhaustively with the real functions.",
  note="Rust typing of emitted shapes is a model (helper signatures, i64::pow, f64::powf); rustc is not run here. Tie: real parser -> TypeChecker expr_types, AstLowering IR types, determine_binop_plan, on exhaustive depth<=2 grids + random depth<=6; binding positions let/return/compound proved+tied; `argument` is tied since the fix: commit that made the checker compare call arguments with parameter types.",
  technique="Lean 4 proof (structural induction over expression trees; finite table by cases) + correspondence with checker/lowering/emit-plan + documented-table oracle",
  ref="C07"),
 "C08": dict(
  text="Lean 4 theorem `roundtrip` over the whole expression ladder (or/and/not/9 comparison forms incl. two-token `not in`/range/additive/multiplicative/right-assoc power over unary/prefix -, await/postfix ?, indexing/primary, explicit Paren), for trees of any shape and depth the parser can produce: parse(fmt e) = e with nothing left over, for every sufficiently large fuel; corollary: the formatter is injective on producible trees. The model parser is one table-driven recursive descent mirroring the eleven parser functions; the model printer mirrors format_expr (never adds parentheses). String and bytes literals have their own model (Syntax/Literals): `string_literal_roundtrip`, `string_literal_lexes`, `bytes_literal_roundtrip` — for every value, what format_literal / escape_string writes is read back by scan_string / scan_byte_string as exactly that value (any length, every byte value; apostrophes stay bare: `apostrophe_must_stay_bare`). Statements, declarations, patterns and types have no model: for them AST preservation is decided by the oracle (real format_source + real parser, AST compared with spans erased).",
  note="Token-level theorem; text->token lexing of printed output and everything outside the expression ladder are oracle-only. Tie: model parse = real parser (trees and rejections) and model fmt = real formatter output re-lexed, on seeded random expressions; oracle corpus: all repository .incn files + /verif/corpus/fmt construct files + random expressions.",
  technique="Lean 4 proof (induction over producibility derivations, fuel-convergence calculus) + parser/formatter correspondence + AST-equality oracle",
  ref="C08"),
 "C09": dict(
  text="Lean 4: idempotence of the formatter on the expression ladder (corollary of the C08 round trip, any depth); the general lemma that a round-tripping printer/parser pair is idempotent; the CLI decision logic of `incan fmt` stated outright and proved: --check/--diff never modify a file, after a rewriting run --check exits 0 iff the formatter is idempotent on that file, unparseable files are reported and untouched, check_formatted agrees with the CLI. Whole-file idempotence and text hygiene (one final newline, no tabs/trailing blanks outside literals) are decided by the oracle on the real formatter.",
  note="CLI logic tied to the real format_files on real temp files (3 file kinds × 4 flag combinations, exhaustive). Hygiene/idempotence oracle over the same corpus as C08.",
  technique="Lean 4 proof (corollary of round trip; decision-table theorems) + CLI correspondence + idempotence/hygiene oracle",
  ref="C09"),
 "C10": dict(
  text="Lean 4 theorems about the lexer's layout machine (indent stack, pending dedents, at_line_start, bracket depth, comment/CR/blank-line branches), each quantified over every lexer state and every continuation, hence over every position of every file: trailing comments, trailing/interior blanks, blank lines, comment lines with any indentation, CR (CRLF), line breaks with any continuation indentation inside brackets leave the token stream unchanged; a final newline only adds the closing NEWLINE; re-indenting by any strictly increasing width map (2/4 spaces, tabs as 4 columns) yields the same INDENT/DEDENT structure. That the parser then builds the same tree (incl. the final-newline case) is decided by the oracle on the real parser.",
  note="Token scanning is atomic in the model (sources are cut at the real lexer's token spans); parser not modelled for this property. Tie: model token-kind stream = real lexer's on every repository .incn file, synthetic programs and all their edited variants; oracle: AST (spans erased) equal before/after 10 kinds of layout edit.",
  technique="Lean 4 proof (state-machine simulation lemmas, stack refinement under monotone maps) + lexer correspondence + AST-equality oracle",
  ref="C10"),
 "C11": dict(
  text="Lean 4 theorems cover the part of the front end that has a model: terminal rendering (get_line_info/format_error: for every document and every raw offset the byte offsets at which the Rust code slices the source are character boundaries, col_num-1 never underflows, the rendered line has no newline), editor rendering (C19: every range ordered and inside the document), and the lexer's layout layer (total, always ends in EOF). Token scanners, parser, type checker, formatter and emitter have no model: for them the property is decided by the oracle stream (every input through the real lex→parse→check→format→emit-rust pipeline under catch_unwind in a watchdog-supervised child process, every diagnostic's span checked and rendered both ways). That part is exploration, reported inside the same evidence file.",
  note="Proof level applies to rendering + layout layer only; the rest of the quantifier (all UTF-8 inputs through all stages) is sampled: corpus files, truncations at every boundary of short files, 12 mutation kinds, nesting generators to depth 200, random syntax-heavy strings.",
  technique="Lean 4 proof (loop invariants over documents) for rendering/layout + fuzzing oracle with panic/abort/timeout detection for unmodelled stages",
  ref="C11"),
 "C12": dict(
  text="Lean 4 theorem `manifest_order_independent`: the Cargo.toml dependency section does not depend on the iteration order of the dependency table (any two permutations of a table with distinct names give the same list; byte-wise string order proved total, transitive and antisymmetric), with the kernel-checked witness that the pre-fix unsorted producer did depend on it. All other outputs (generated Rust, diagnostics and their order, formatter output and diffs, multi-file project trees) have no model: they are hashed twice in-process and in three separate processes with different HOME/TZ/locale/working directory and must be identical.",
  note="Only one hash-iteration site is modelled; other sites are covered by the cross-process oracle only (it found and a fix: commit repaired the missing-field diagnostic order).",
  technique="Lean 4 proof (sorting + permutation invariance) + manifest correspondence + cross-process byte-comparison oracle",
  ref="C12"),
 "C13": dict(
  text="The model's keyword tables are REGENERATED from /repo on every run (RUST_KEYWORDS, and the real lexer's verdict on which Rust keywords are legal Incan identifiers), then Lean 4 re-checks: the table contains every Rust 2021 strict/reserved keyword and nothing else (`table_complete`, `table_sound`, against an independently transcribed reference list); every Rust keyword that is a legal Incan name can be written as a raw identifier, except `Self` (`legal_keywords_rawable`, witness `self_type_name_unemittable`); `emitted_identifier_valid_partial` — for every name and every binding position the identifier the emitter builds is one rustc accepts; emission is injective (tied by the spelling of locals / fields in the emitted Rust, by sibling names bound side by side, and by a rename sweep over every declared identifier of the corpus and repository programs), so a consistent renaming preserves the binding structure (`emit_injective`, `rename_preserves_binding`); non-keywords are left untouched. That an accepted identifier also leaves behaviour unchanged is decided by compiling and running one program per (position, name) and comparing with the plain-named program.",
  note="Partial at the token level: clashes with generated temporaries (__parts/__args) and relied-on type names (String, Vec, …) and the name `Self` are recorded findings. 11 unescaped positions (function, method, field, const, enum, variant, trait, comprehension variable, …) were repaired by a fix: commit.",
  technique="Lean 4 proof over tables regenerated from the source (translator) + finite-table decide + compiled-program correspondence + renaming oracle",
  ref="C13"),
 "C14": dict(
  text="Lean 4: models of both resolvers (command-line `collect_modules` and the language server's `resolve_import_path`), the CLI work list and the import visibility check. Proved: `resolvers_agree_partial` (the two resolve an import to the same file when it names a module by all its segments, is written in the entry directory, and the module is not a `mod.incn` directory module), with kernel-checked witnesses that each hypothesis is needed (`resolvers_do_not_agree`) — each witness is a recorded finding replayed on the real code; `private_rejected` (importing a non-exported name is rejected for both `from m import x` and `import m::x`); the work list parses every file at most once and its measure decreases (cycles cannot hang). Full agreement, diagnostics for missing modules/cycles and visibility of qualified access `m.x` do not hold in the code: recorded as known findings.",
  note="Six known findings (three resolver disagreements, qualified access, silent missing module, silent cycle). Assumes nothing relevant exists above the modelled tree for `crate::` lookups. Tie: both real resolvers on 13 layouts × 17 import spellings + nested + random layouts; real collect_modules+check_with_imports on 13 project scenarios.",
  technique="Lean 4 proof (partial agreement theorem + witnesses, invariants of the work list) + resolver correspondence on real directory trees + agreement/visibility oracle",
  ref="C14"),
 "C15": dict(
  text="The model's known-good crate table is REGENERATED on every run from the match arms of add_rust_crate (a translator that refuses unknown shapes); Lean 4 then re-checks the theorems about the model of add_rust_crate / generate_cargo_toml: every accepted dependency is pinned (version or path; the whole known-good table checked), a crate without a known-good version is always refused, the declared names are exactly the fixed runtime/feature crates plus the rust:: crates (both directions), and no name is declared twice (valid TOML keys). Feature detection: `json_trigger_found_everywhere` / `async_trigger_found_everywhere` — a trigger at any expression position (any path of walker steps: owners incl. newtype methods, trait default methods, const initializers and field defaults; every statement and expression child) is followed by the scanners' match arms (Tool/Scanners: step tables transcribed arm by arm, `decide` over the whole step vocabulary), with the kernel-checked witness `json_trigger_was_missed` for the scanners before three `fix:` commits.",
  note="Tie: model manifest = Cargo.toml written by ProjectGenerator (flags × crate sets, whole table) and by `incan build` with a stub cargo (8 feature-trigger combinations, imports in main and dependency modules, project names). Oracle: exactness, pinning, package/binary name, references found in generated sources ⊆ declared.",
  technique="Lean 4 proof (table + list reasoning) + manifest correspondence + exactness/pinning oracle",
  ref="C15"),
 "C16": dict(
  text="Lean 4 theorems about the model of run_tests: a test is PASSED only if its body was executed and completed, FAILED only if it was executed and did not (`verdict_truthful`), @skip tests are never executed, @xfail inverts, -k/--slow select exactly the documented subset, without -x every selected test gets exactly one verdict, the exit status is non-zero iff some verdict is FAILED or XPASS, the printed counts add up to the verdicts; plus the kernel-checked witness that the pre-fix runner reported a failing test as PASSED.",
  note="`bodyPasses` abstracts the exit status of the real `cargo test` on the per-test project (rustc/cargo/libtest trusted). Tie + oracle: generated test files with ground truth run by the real `incan test` (child process, real cargo test, shared target dir), quick: 5 scenarios / 17 executed tests. Fixtures, parametrize and async tests are outside the model.",
  technique="Lean 4 proof (list induction over the runner loop) + correspondence with the real runner + ground-truth oracle",
  ref="C16"),
 "C17": dict(
  text="Lean 4 theorems about the model of the newtype rewrite (select_newtype_checked_ctor, the `T(x)` call rewrite, the current_impl_type exemption) and a run-time semantics in which a hook is a partial function: `construction_validated_partial` — by structural induction over expressions of any shape and depth, every T value a lowered expression can produce outside T's own methods (inside lists, tuples, fields, Option/Result payloads, nested constructions) came out of T's hook; `rejected_argument_stops` — with a rejected argument the construction stops with the validation failure naming type and hook; failures propagate; the exemption is exactly `inside T's own methods`; the selected hook is always a declared static well-shaped method, a well-shaped from_underlying always wins, a single from_* is selected. The full statement is false (`alias_bypasses`, kernel-checked witness: a type name used as a function value) — recorded finding, replayed on the compiled program. Two fix: commits (hook over generic underlying types; call arguments are now type-checked, so mixing newtypes in an argument is rejected by `incan --check`).",
  note="Partial: sites of the shape T(x); hooks are deterministic partial functions; nominal typing of the checker is tied by the oracle only (model: name equality). Tie: 180+ generated programs per run compiled with rustc and executed; outcome (printed value or panic text) compared with the model.",
  technique="Lean 4 proof (structural induction with a value invariant; selection lemmas; counter-example witness) + compiled-program correspondence + hook-enforcement oracle",
  ref="C17"),
 "C18": dict(
  text="Lean 4 theorem `converges`: for every history of didOpen/didChange/didClose over any number of documents and every interleaving of the handlers' store steps (each handler starts in arrival order, stores at any later time), after quiescence the stored text of each document is that of the last notification sent for it, and nothing after a close — proved by an invariant over schedule prefixes for the ticket protocol the server uses after the fix. The pre-fix protocol is kept in the model with kernel-checked counter-examples (stale overwrite, close undone, broken text not stored). `open_dependency_overrides_disk`: an importer is analysed against the editor text of an open dependency (tied by comparing importer diagnostics with a dependency text in the editor vs on disk).",
  note="Assumes the framework first-polls handlers in arrival order (tower-lsp buffer_unordered). Tie: the real IncanLanguageServer is driven as a tower Service, handler futures polled by hand in seeded schedules with the client channel drained on demand; its own receive/store event order (cfg(incan_verif) hook) is replayed on the model, which must accept every real store and predict the final hover. Real threads are not exercised.",
  technique="Lean 4 proof (inductive invariant over all interleavings) + event-log replay correspondence + convergence oracle",
  ref="C18"),
 "C19": dict(
  text="Lean 4 theorems over all documents (List Char, no length bound): offset->position->offset round trip on every character boundary, strict monotonicity, agreement with counting newlines/characters, span_to_range well-formed and inside the document for every pair of raw offsets (empty, reversed, past the end, inside a character), terminal line = editor line + 1; `terminal_col_agrees` — the column of `file:line:col` is the character count + 1 on every character boundary of every document (unconditional since the fix that made get_line_info count characters; the pre-fix byte count is kept as `getLineInfoBytes` with the kernel-checked witness `old_terminal_col_counted_bytes`).",
  note="u32/usize counters modelled as Nat; model tied to the real functions (and format_error rendering) by exhaustive small documents over a 6-character alphabet plus random documents.",
  technique="Lean 4 proof (induction over documents, loop invariants) + exhaustive small-document correspondence + counting oracle",
  ref="C19"),
 "C20": dict(
  text="Lean 4 theorems over a value model of models/classes (int, bool, str, float bits, Option, List, Dict[str,·], nested structs with ordered named fields) and abstract JSON: `roundtrip` — by mutual structural induction, decode t (encode v) = v for every value of every well-formed type at any nesting depth (struct fields found by name among distinct names, Option as value-or-null over non-option payloads); `json_field_names` (exactly the declared names, in declaration order) and the type-mapping rows; `eq_iff_structural` (== holds iff the values are identical field by field, at any depth), `eq_fields`; `chain_fields_in_declaration_order` (the struct of a class in an `extends` chain lists the ancestors' fields root first, then its own: the order Ord compares in and JSON is written in), `ord_lexicographic` (the first differing field in declaration order decides), `cmpV_swap` / `lt_iff_gt` / `cmpV_refl_of_eq` (a < b iff b > a, at any depth); `hash_respects_eq` (equal values feed the hasher identical input); `derives_closed` / `derives_kept` — for every subset of the documented derives (no hypothesis since the PartialOrd fix) the emitted #[derive] list satisfies rustc's supertrait requirements and keeps what the user wrote.",
  note="serde/serde_json and rustc's derive macros are trusted to implement the contract the model states; the repo-specific part (derive list, attributes, field naming, to_json/from_json glue, json_stringify builtin) is tied by compiling and running generated programs. One fix: commit (`.clone()` rejected by the checker). Findings outside this check's streams are listed in DESIGN.md (d[model_key] read needs Display; sorted(List[Model]) rejected).",
  technique="Lean 4 proof (mutual structural induction over nested values/types; finite case analysis for derive subsets) + compiled-program correspondence + Python (json, tuple order) oracle",
  ref="C20"),
}

NOT_APPLICABLE = {
}

ALL = [f"C{i:02d}" for i in range(1, 21)]


def main():
    checks = []
    for pid in ALL:
        if pid not in CHECKS:
            continue
        c = CHECKS[pid]
        checks.append({
            "property_id": pid,
            "quick_cmd": f"./check {pid} --tier quick",
            "thorough_cmd": f"./check {pid} --tier thorough",
            "evidence_file": f"/verif/evidence/{pid}.json",
            "replay_cmd_template": f"./check {pid} --replay {{path}}",
            "engine": "lean4-model+correspondence",
            "level_claimed": {"category": "proof", "text": c["text"], "design_ref": f"DESIGN.md §5 {c['ref']}"},
            "level_note": c["note"],
            "technique": c["technique"],
        })
    na = []
    for pid in ALL:
        if pid in CHECKS:
            continue
        na.append({"property_id": pid, "reason": NOT_APPLICABLE.get(
            pid, "not claimed yet: the Lean model, theorems and correspondence harness for this property are still being built (see DESIGN.md §7); the technique does apply")})
    m = {
        "version": 1,
        "setup_cmd": "./setup.sh",
        "hooks": {
            "guard": "incan_verif",
            "enable": "harness/.cargo/config.toml sets rustflags = [\"--cfg\", \"incan_verif\"]; two hooks: the LSP event log (src/lsp/mod.rs verif_hooks + 4 log calls in src/lsp/backend.rs), used by C18, and a re-export of the formatter's output writer (src/format/mod.rs `pub use writer::FormatWriter`), used by C09",
            "baseline_off_cmd": "cd /repo && cargo test --workspace --no-fail-fast --offline",
            "source_commits": ["3c16098", "b91a239"],
            "add_only": True,
        },
        "engines": [
            {"name": "lean4-model+correspondence", "path": "/verif/lean", "serves_properties": sorted(CHECKS),
             "kind_free_text": "Lean 4 models + kernel-checked theorems (lean/IncanModel/Props), compiled line-protocol driver, Rust harness calling the real code in-process (harness/), Python orchestrator (check, checklib/)"},
        ],
        "checks": checks,
        "not_applicable": na,
        "notes": "See DESIGN.md. Every check: PROOF (lake build + #print axioms audit + grep audit) -> TIE (harness vs driver) -> ORACLE -> classification against known_findings.json.",
    }
    json.dump(m, open(os.path.join(HERE, "MANIFEST.json"), "w"), indent=1)


if __name__ == "__main__":
    main()
