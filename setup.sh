#!/bin/sh
# Build the framework from files on disk only (offline).
set -e
cd "$(dirname "$0")"
export CARGO_NET_OFFLINE=true
mkdir -p .build/scratch .build/replay evidence
(cd harness && cargo build --release --offline)
(cd lean && lake build)
