#!/usr/bin/env python3
"""Regenerates the appendices of DESIGN.md (everything from '## Appendix A' on) from the repository state:
fix: commits of /repo, known_findings.json, seeded/*/meta.json and the status table below."""
import glob
import json
import os
import subprocess

HERE = os.path.dirname(os.path.abspath(__file__))

STATUS = {
 "C01": ("desugarS/B/Else_sound, program_desugar_sound, desugarB_core, elif_order, strRel_* order lemmas, compile_preserves_meaning_partial (Safe), grouping_lost_witness, only_not_regroups; comprehensions: emitted_eq_meaning, meaning_mem, map_then_filter_differs witness (Props/C01, Sem/Core, Sem/Regroup, Sem/Comprehension)", "compiled program stdout/stop = re-reading model (restructuring + rustc's grouping of the emitted text + interpreter); lists printed by compiled comprehensions (6 conditions x 6 element expressions over lists and ranges) = model", "CPython runs the same program; wrong results are attributed to the grouping finding only if the program is not Safe AND the re-reading model reproduces them; 23 feature templates outside the modelled core (64-bit boundary arithmetic, filtered comprehensions over expressions, fields handed to functions, classes + inheritance + overriding, traits with defaults, enums + match, Option/Result/?, f-strings, string methods, dicts, comprehensions, slices, tuples, counting-down ranges, recursion) with seeded constants, CPython as the reference (oracle only)"),
 "C02": ("accepted_body_builds_partial via bind_sim / stmt_sim / block_sim / else_sim / tyE_sim; nested_retype_accepted witness (Props/C02, Sem/CoreTyping)", "checker verdict + build outcome of 9 variants of generated bodies = chkB / rustB", "accepted ⇒ builds; 27 per-construct probes; 31 ill-typed programs (one broken static rule each: if the checker lets one through it must still build); every sampled subset of the derives on a model and a class; multi-file projects through the real `incan build`"),
 "C03": ("every_position_checked (mutual), elif_was_skipped witness, reassign_immutable_rejected / reassign_mutable_accepted / fresh_name_accepted, old_checker_missed_nested, omitted_variant_reported, complete_match_accepted, wrong_argument_reported, wrong_named_argument_reported, fitting_arguments_accepted, mutation_through_immutable_rejected / mutation_through_mutable_accepted (local_lookup_misses_nested_mutation witness), surplus_argument_reported, unknown_keyword_reported, missing_argument_reported, wrong_default_reported / fitting_defaults_accepted (default values), missing_required_method_reported, wrong_signature_reported, missing_required_field_reported, wrong_field_type_reported, conforming_adopter_accepted (Props/C03, Sem/Checker)", "single edits at every expression position / statement list of corpus + repository programs; scope depth grid (7 forms incl. `mut self` calls, field and index assignments = checkMutateThrough); random matches (variant names related by affix); calls with 1-4 parameters (incl. trait-typed, defaults), positional / keyword arguments, arity edits = validateArgs / surplusArgs / missingParams; generated trait / adopter pairs = conformance", "each edit must be rejected with a diagnostic on the edited lines; documented mutability rule; coverage of match arms; every wrong / surplus / unknown argument reported at that argument, every missing one on the call, and nothing else; adoption errors name exactly the missing / mistyped members, inside the adopter"),
 "C04": ("floorDiv/mod = Int.fdiv/fmod for all Int64 pairs, core=std, identity, zero divisor, no other failure", "10 in-process streams: both integer kernels, 4 operand-type pairs of py_div/py_mod/py_floor_div, f64 wrappers; compiled streams: binary `/ // %` and compound `/= //= %=` on int / float / mixed operands, each spelled as variables or with the right / left operand a literal, random + a deterministic grid (operator x spelling x sign combination x kind), through the real pipeline + rustc (zero divisors included)", "Python `//`, `%`, `/`"),
 "C05": ("slice/index/range = CPython for all i64 (saturating step), str=list copy", "9 streams incl. both copies, range with cap, dict_get", "CPython `s[a:b:c]`, `range`; slice syntax on the real parser"),
 "C06": ("const_value_sound, const_type_sound (binConst_type), index_error_agrees, runtime_index_error_reported, slice_step_zero_agrees, static_fold_sound, ok_implies_no_repeat, cycle_is_rejected, never_out_of_fuel, resolution_terminates; frozen sets: contains_iff, contains_perm, bisect_misses_unsorted witness (Props/C06, Sem/ConstEval, Sem/Comprehension)", "checker on `const K = E` (verdict, type, const_values); same expression in a compiled function body; compiled consts; dependency graphs; membership answered by compiled const sets", "Python evaluates the expression; const type = body type; independent cycle DFS; frozen const sets / lists answer membership and length like their literal; const comparisons mixing int and float"),
 "C07": ("phases_agree by structural induction; policy table by cases", "policy table (exhaustive), checker/IR/plan types over literals, parameters and operands only the checker can type (calls, fields, method calls), let/return/argument/compound verdicts, emit plan of the desugared compound assignment on a local variable and on a `mut` parameter, the const evaluator's type of the same trees over const names", "documented table; Rust type of every emitted shape"),
 "C08": ("roundtrip over the expression ladder (WL derivations), fmt injective; literals: string_literal_roundtrip / string_literal_lexes / bytes_literal_roundtrip (formatter escaping read back by the lexer, Syntax/Literals), apostrophe_must_stay_bare witness", "parse, fmt, round trip (incl. rejections); fmtStr / fmtBytes = text written by the real formatter (every byte value); scanStr / scanBytes = real lexer on arbitrary literal texts", "AST equality on corpus + generators (generated types in every position, nested match arms, 12-level nesting)"),
 "C09": ("fmt idempotent on the ladder; CLI decision logic; runFiles read-only; writer_hygiene (Tool/Writer: indentation, line breaks and blank lines add no tab and no trailing whitespace for any operation sequence), indenting_newline_leaves_trailing_blanks witness", "CLI single file (formatted / unformatted / unparsable + near-formatted variants: no final newline, extra blank lines at the end, trailing space, leading blank line, CRLF) + directory; real FormatWriter (hook) = model on generated operation sequences", "idempotence, check consistency (--check reports what fmt would rewrite), hygiene; generated types in every position (one-element tuple types, function types), nested match arms"),
 "C10": ("8 invariance theorems over all states/continuations; reindent under monotone maps; eof_blank_tail_invisible / eof_comment_tail_invisible (blanks or a comment after the last line break, any width)", "layout model vs real lexer kinds", "AST equality under 11 edit kinds (incl. blanks after the last line break; inserted comments with multi-byte text); text cut at the end of seeded logical lines parses the same with and without its final newline"),
 "C11": ("get_line_info slices on boundaries, EOF, indents_balance + never_more_dedents (for every input the layout layer emits as many DEDENTs as INDENTs; invariant bal_step over the indentation stack, popTo_spec: the push(0) safety net is unreachable), C19 ranges (partial scope)", "format_error rendering incl. long lines", "whole pipeline fuzz with watchdog, incl. parseable programs with odd declaration graphs (generated extends cycles / self loops / unknown bases x trait adoption x uses that walk the graph) and arity inputs (built-in methods and functions with 0-4 arguments, tuple unpacking with the wrong number of names)"),
 "C12": ("manifest_order_independent; module tree (Tool/ModuleTree): children_order_independent, children_nodup, carrier_order_independent, never_file_and_modrs, old_generator_wrote_both witness", "manifest repeated with fresh hash maps; generate_nested on generated path sets (shared prefixes, module = directory), three fresh hash maps each: files written + `pub mod` lines per directory = model", "3 processes × environments, in-process twice; error-provoking programs (several unknown keywords / wrong arguments / duplicate declarations), a broken dependency checked through a relative path from different directories, `incan test -v` with seven fixtures in four processes"),
 "C13": ("table_complete / table_sound / legal_keywords_rawable over tables REGENERATED from the source on every run, emitted_identifier_valid_partial, emit_injective, rename_preserves_binding, renamed_use_resolves_to_same_binder / renamed_free_stays_free / renamed_scope_nodup / renamed_program_tokens_valid (scope chains with shadowing, any depth), self_type_name_unemittable (Props/C13, Sem/Names, Generated/Keywords)", "is_keyword on every entry + near misses; emitTok = spelling of a local and a struct field in the emitted Rust; one compiled program per (binding position, name) over 38 positions (payload variants constructed / matched / bound, keyword arguments of functions and methods, closures with one and two parameters, field chains, consts in consts …) incl. reflection (__fields__, __class_name__, JSON keys); sibling names (k, k_, _k, r_k, K) bound side by side", "renamed program behaves like the plain-named one; sibling bindings keep their own values"),
 "C14": ("resolvers_agree_partial + 3 witnesses, private_rejected, exported_iff, private_decl_rejected, work-list lemmas", "both resolvers on real trees (incl. deep entries, multi-level parents, pairs of imports in one file in both orders), visibility verdicts (plain and `as`-aliased imports: alias fresh, alias = another pub name, alias = a private name; bare use of a declaration that the import does not name), export computation on generated modules imported from the entry directory and from nested packages (pkg.inner, pkg.sub.deep)", "agreement, visibility, missing/cycle"),
 "C15": ("table_pinned over the crate table REGENERATED from add_rust_crate on every run, all_pinned, unknown_refused, deps_exact, names_nodup; json_trigger_found_everywhere / async_trigger_found_everywhere (Tool/Scanners: every walker step is one the scanner follows), json_trigger_was_missed witness", "ProjectGenerator + `incan build` (stub cargo) + trigger positions (json_stringify in 40 statement / expression / owner positions; serde derives in every decorator / list / declaration position); scanner sweep: model scans = real detect_*_usage with a trigger at every expression position of ~200 programs", "exactness, pinning, refs ⊆ declared; every placement of serde / async / web over the entry file and two dependency modules"),
 "C16": ("verdict_truthful, skip_not_run, xfail_inverts, filter_exact, all_selected_reported, exit_iff_failure, counts_match, collect_complete / collect_sound / collect_length (discovery over several files), every_test_of_every_file_reported, failing_test_in_any_file_fails_run, first_of_name_hides_a_failure witness (Props/C16, Tool/TestRunner)", "real `incan test` on generated files (every executed test through cargo test)", "ground truth of the test bodies (9 ways to fail: assert, assert_eq / ne / true / false, fail, index, division by zero, unwrap of None), -k with and without --slow over matching slow tests, -x, four @skip spellings, the same test name in two files, nested directories and a symlinked directory, test bodies printing lines that look like the harness's own verdicts, runs whose only blemish is an unexpected pass"),
 "C17": ("construction_validated_partial, rejected_argument_stops, own_methods_exempt, other_methods_checked, select_sound / select_from_underlying / select_single, nominal, alias_bypasses witness (Props/C17, Sem/Newtype)", "compiled programs: 11 fixed declaration shapes + generated ones (1-3 methods, hook-shaped or near misses, hook-like and other names) × 23 sites (incl. the payload of another newtype as the argument, list elements, f-strings) × values; 6 underlying types", "hook enforced outside own methods; mixing newtypes rejected at 26 sites (annotations, return, argument, kwarg, default, method argument, field, append / insert / extend / index / dict store, Option / Result / tuple / comprehension / match arm)"),
 "C18": ("converges for all interleavings (ticket protocol); schedule_independent + sequential_is_valid + agrees_with_sequential (every history has a valid schedule; every valid schedule ends where the sequential server ends); 3 counter-examples for the old protocol; save_with_ticket_loses_newer_version and per_document_tickets_resurrect_old_text witnesses; open_dependency_overrides_disk", "event-log replay (histories with opens, changes, closes and interleaved didSave notifications; texts that parse, fail in the parser or fail in the lexer; per history one serial schedule, schedules starving each of the first three handlers, a burst schedule (first polls in arrival order while the client reads nothing) and seeded schedules); importer diagnostics with a dependency text in the editor vs on disk", "hover = latest after quiescence; dependency scenarios must be sensitive"),
 "C19": ("roundtrip, strict_mono, boundary_injective, counting, range_wellformed, degenerate_span_range, positionToOffset_in_doc (every position, valid or not), terminal_line_agrees, terminal_col_agrees (unconditional since the character-column fix; old_terminal_col_counted_bytes keeps the pre-fix witness)", "5 streams, exhaustive small documents over a, é, €, 😀, LF, CR, TAB; rendered caret line; the whole rendering (caret padding, underline length) for every span, multi-line and past-the-end spans included", "counting in Python"),
 "C20": ("roundtrip (mutual, any depth), json_field_names, type_mapping, eq_iff_structural, eq_fields, ord_lexicographic, cmpV_swap (mutual, any depth), lt_iff_gt, cmpV_refl_of_eq, cmpV_eq_imp_eq + cmpV_lt_trans + cmpV_gt_trans + cmpV_trichotomy + le_iff_lt_or_eq + ord_eq_hash_eq (mutual, any depth: with cmpV_swap, derived Ord is a strict total order consistent with Eq on every orderable type), cmpInt_eq_iff / cmpStr_eq_iff / cmpInt_lt_trans / cmpStr_lt_trans (leaf orders are strict total orders), hash_respects_eq, derives_closed, derives_kept, chain_fields_in_declaration_order / chain_lookup (inherited fields, Props/C20, Sem/Derive)", "compiled programs: json_stringify + from_json, six comparison operators, Dict keys, clone (fields declared on one model/class or over a chain of 2-3 classes); emitted #[derive] list for subsets", "Python json / tuple order; rustc supertrait closure"),
}


def sh(*a):
    return subprocess.check_output(a, text=True)


def main():
    path = os.path.join(HERE, "DESIGN.md")
    text = open(path).read()
    cut = text.index("## Appendix A")
    head = text[:cut]
    kf = json.load(open(os.path.join(HERE, "known_findings.json")))
    out = []
    out.append("""## Appendix A — what was built (build rounds; supersedes the round-0 plan where they differ)

Layout as built: `lean/IncanModel/{Kernel,Syntax,Tool,Sem}/*.lean` (models), `Generated/Keywords.lean` (regenerated
from the source by `./check C13`), `Lemmas/*.lean`, `Props/Cxx.lean` (property theorems only), `Driver/Cxx.lean` +
`lean/Driver.lean` (compiled line-protocol driver, no Mathlib anywhere), `harness/src/cxx.rs` (Rust crate linking
`/repo` by path, built with `--cfg incan_verif`; `runner.rs` compiles many generated Incan programs through the real
pipeline into ONE cargo project — one module per program, release profile like `incan build` — and runs them),
`check` + `checklib/cxx.py` (PROOF → TIE → ORACLE → classification → evidence), `gen_manifest.py` (MANIFEST.json is
generated from one table), `known_findings.json`, `seeded/<id>/`, `seedtest.sh`, `runall.sh` (re-runs every check so
that committed evidence comes from clean runs), `corpus/{fmt,c03}/*.incn`.

Every check does, on every run: `lake build IncanModel.Props.Cxx driver` (kernel re-check of whatever changed),
`#print axioms` of every theorem in the property file (allowed: propext, Classical.choice, Quot.sound), a grep audit
for sorry/admit/axiom/native_decide/bv_decide/implemented_by/unsafe, `cargo build --release --offline` of the
harness against `/repo`'s working tree, the harness run, the driver run on the same requests, the diff (one
correspondence obligation per stream), the oracle, and the classification against `known_findings.json`. A broken
obligation without a failing input is reported as `VIOLATION … no-failing-input-found` with the obligation list as
replay. No theorem uses `native_decide`; no axioms were added; there is no `sorry`.

Deviations from the round-0 plan (errata):
* Two translators exist: the keyword tables of C13 are regenerated from `RUST_KEYWORDS` and the real lexer, and the
  known-good crate table of C15 / C12 from the match arms of `add_rust_crate` (a parser that refuses any shape it
  does not know), on every run; the theorems are re-checked against them. The other finite tables (numeric policy,
  operator ladder, scanner step lists) are hand-transcribed and tied *exhaustively* on every run.
* C10 models the lexer's layout layer over a token/character stream cut at the real lexer's own token spans; C08's
  theorem is at token level over the expression ladder; string and bytes literal atoms have their own model
  (Syntax/Literals: what the formatter writes is what the lexer reads back). Statement and declaration
  printing/parsing have no Lean model; they are decided by the oracle on the real code.
* C11: only rendering and the layout layer have theorems; the rest of the pipeline is a fuzzing oracle with
  panic/abort/watchdog detection, labelled as such in the evidence.
* C18 uses one guarded hook (event log of receive/store events); C09 a second one (the formatter's output writer is
  re-exported so that its operations can be driven directly: model = real on operation sequences, and
  `writer_hygiene`: indentation, line breaks and blank lines never add a tab or trailing whitespace).
* Python (the interpreter running `check`) is the oracle for C04/C05/C06/C01/C20: it *is* the reference semantics
  of the documented (Python-like) fragment.
* C01/C02 share one core model (`Sem/Core.lean`): the *restructuring* the compiler performs (elif chains, compound
  assignment, parenthesis nodes) is proved meaning-preserving and type-acceptance-preserving; the Rust meaning of
  the restructured core is the same interpreter's (trusted, validated by running every generated program); how
  rustc groups the flat emitted text is an executable model (`Sem/Regroup.lean`) that reproduces the recorded
  grouping defect exactly, so that a wrong result is attributed to it only when that model explains it.
* C03's traversal theorem is over a role table that the correspondence validates role by role by editing real
  programs at every position an independent AST walker finds; of the rules, match coverage, call arguments (types and
  arity, positional and keyword), trait adoption and the scope chain have models and theorems (Sem/Checker), the
  others are oracle-only. The same walker drives C15's sweep of the feature scanners (Tool/Scanners).
* C20's JSON text layer, serde's data model and rustc's derived impls are trusted; the model states their contract
  and the compiled programs check that the repo's glue (derive list, attributes, field naming, to_json/from_json,
  json_stringify) meets it.
* Float arithmetic is executed (Lean `Float`), never reasoned about.

### A.1 Status per property (all 20 claimed, level proof)

| Prop | Theorems | Tie streams | Oracle |
|---|---|---|---|""")
    for pid in sorted(STATUS):
        t, tie, orc = STATUS[pid]
        out.append(f"| {pid} | {t} | {tie} | {orc} |")
    out.append("")
    # sizes, from the property files and the evidence of the last clean quick run
    out.append("### A.2 Size (generated: property theorems per file, obligations and evaluations of the last clean quick run)\n")
    out.append("| Prop | theorems in Props/Cxx.lean | obligations discharged (theorems + axiom audits + correspondences) | evaluations per quick run | stored seeded changes |")
    out.append("|---|---|---|---|---|")
    tot_t = tot_o = tot_e = tot_s = 0
    for pid in sorted(STATUS):
        try:
            src = open(os.path.join(HERE, "lean", "IncanModel", "Props", f"{pid}.lean")).read()
            nt = sum(1 for l in src.split("\n") if l.startswith("theorem "))
        except OSError:
            nt = 0
        try:
            ev = json.load(open(os.path.join(HERE, "evidence", f"{pid}.json")))["coverage"]
            no, ne = ev.get("discharged", 0), ev.get("evaluations", 0)
        except (OSError, KeyError, ValueError):
            no, ne = 0, 0
        ns = len(glob.glob(os.path.join(HERE, "seeded", f"{pid}-*")))
        tot_t += nt; tot_o += no; tot_e += ne; tot_s += ns
        out.append(f"| {pid} | {nt} | {no} | {ne} | {ns} |")
    out.append(f"| all | {tot_t} | {tot_o} | {tot_e} | {tot_s} |")
    out.append("")
    # fixes
    log = sh("git", "-C", "/repo", "log", "--reverse", "--format=%h %s", "45ea34d..HEAD").strip().split("\n")
    out.append("## Appendix B — commits in /repo on top of the pinned commit (each `fix:` reproduced first by a check on the unfixed tree)\n")
    for l in log:
        out.append(f"* `{l}`")
    out.append("\nThe pinned suite passes unedited after every one of them (`cargo test --workspace --no-fail-fast --offline`: 491 passed, 0 failed). `fixed:` lines with the failing input are in `known_findings.json`. Fixes that a pinned snapshot forbids were NOT made (the snapshots `operators`, `classes`, `builtins`, `inferred_reassign` pin wrong or non-compiling output): those are findings.\n")
    out.append("## Appendix C — known findings (open)\n")
    for f in kf["findings"]:
        if f.get("status") == "open":
            out.append(f"* **{f['id']}** ({f['property']}): {f['what_fails']} — witness `{f['witness']}`")
    out.append("""
Why these are recorded rather than repaired: C04 float `%` — CPython behaves identically; C14 — unifying three resolvers and diagnosing missing modules / cycles
are design changes (the repository's own examples import modules that resolve to no file: `polars::prelude`,
`dataclasses`, `serde`, `incan::http`); C17 alias — a repair by lowering the bare type name to a closure over the hook
was tried and reverted (the closure emitter drops parameter types, rustc cannot infer them); C13 `Self`, generated
temporaries and relied-on type names — need hygiene in the emitter (snapshots pin the emitted text); C13/C02 `pop` and
C01 grouping — pinned by snapshots; C03 f-string locations — need the lexer's f-string token to carry offsets, which
its own unit tests pin; C02 — each entry is a backend feature gap (strings held in variables, tuple unpacking, const
operators, …), not a patch.
""")
    out.append("## Appendix D — seeded changes (sub-agents saw only the property text) and what catches them\n")
    out.append("| Seed | What it needs to manifest | Caught by |\n|---|---|---|")
    for m in sorted(glob.glob(os.path.join(HERE, "seeded", "*", "meta.json"))):
        d = json.load(open(m))
        need = str(d.get("needs_to_manifest", "")).replace("|", "/").replace("\n", " ")[:260]
        det = str(d.get("detected_by", "")).replace("|", "/").replace("\n", " ")[:330]
        out.append(f"| {d.get('seed_id')} | {need} | {det} |")
    out.append("""
Every claimed property has two stored seeds from round 1 (40). Round 2 (seeds `-3`, `-4`; the sub-agents were told
to stay away from the mechanisms of round 1) has produced __R2__ more so far, __R2MISS__ of which were MISSED at first
(__R2MISSLIST__): the generated programs had no classes / inheritance / counting-down ranges (C01), never contained
an ill-typed shape or a derive list without `Eq` (C02), named enum variants V0..V4 and called one-parameter functions
(C03), never declared fields over an `extends` chain (C20), and used eleven fixed newtype declaration shapes (C17).
Each miss was answered by widening the generator and, where the mechanism was not modelled yet, by a model + theorem
(validateArgs / wrong_argument_reported / surplus_argument_reported / missing_argument_reported; conformance /
missing_required_method_reported; classFields / chain_fields_in_declaration_order; inheritedMethods /
method_call_runs_most_derived_body; emitTok spelling tie and sibling names for C13). Widening them exposed more
genuine defects, all repaired: `mut self` method on an immutable receiver, `mut` parameters, trait-typed parameters
accepting anything, cyclic `extends` overflowing the stack, calls never checked for arity.

Round 3 (seeds `-5`, `-6`; again told to avoid everything used before) so far: __R3__ stored, __R3MISS__ MISSED at first
(__R3MISSLIST__). Several of them were caught by the check of a neighbouring property from the start (a list-slice
change by C05, a float `%` emission change by C04, an arity change by C03) but not by the property they were written
for: C01 and C02 now also run list-slice, float-arithmetic, loop-element-mutation and field-default templates, C02
builds every feature template and the repository's own examples, C03's scope grid covers method calls, field and index
assignments, and its statement rules reach into closures and comprehensions, C20 declares and omits field defaults.
Answering them exposed further genuine defects, all repaired: field / index assignment through an immutable binding,
`?` inside a closure of a non-Result function, a module that is also a directory of modules (E0761), literal tuple
indexing. One round-3 seed (C03-5) stopped being a violation once the closure defect was repaired: the refactoring it
performs became correct; it is kept with that note. Misses at first run and what was strengthened are
recorded in each `meta.json` (`detected_by`): C03-1/2, C06-1/2 (only the correspondence broke; oracles added), C08-2,
C09-2, C11-1/2, C12-2, C14-1/2, C15-2, C16-1/2. Sub-agents also reported pre-existing defects, several of which became
`fix:` commits (compound field assignment grouping, `elif` scanners, trait-method diagnostic order, newtype hook over
generic underlying types, unknown slice bound in consts) or findings.

The second half of round 3 (C04, C05, C07, C09–C12, C14, C16–C19) missed about half of its seeds at first as well, and
each miss named a hole in a generator rather than in a theorem: operands that only the checker can type (calls, fields,
method calls) and compound assignment on `mut` parameters (C07), aliased imports (C14), `.append` and 16 other
element / field / argument sites for mixing newtypes (C17), operands written as literals in compiled arithmetic (C04),
one-element tuple types (C09 / C08), blanks after the last line break (C10), parseable programs with cyclic declaration
graphs (C11), several unknown keywords in one call (C12), the same test name in two files and symlinked directories
(C16), `didSave` (C18), tabs in the position alphabets (C19). Where the mechanism had no model yet one was added
(aliases: `alias_irrelevant`; discovery: `collect_complete`; the output writer: `writer_hygiene`; the module tree:
`children_exact`, `never_file_and_modrs`) and the seeded behaviour is kept as a kernel-checked witness next to it
(`local_name_check_is_wrong`, `first_of_name_hides_a_failure`, `indenting_newline_leaves_trailing_blanks`,
`save_with_ticket_loses_newer_version`, `per_document_tickets_resurrect_old_text`). Defects the sub-agents or the
widened generators found on the unchanged tree: `mut` int / float / bool parameters (call sites passed `&mut`),
default values never type-checked, an extra line break after a `match` arm whose body is a `match` — repaired; spans of
nodes inside f-string interpolations (now also a C11 finding), omitted default arguments (pinned by the
`function_calls` snapshot) — recorded.
__R4TEXT__""")
    metas = [json.load(open(m)) for m in sorted(glob.glob(os.path.join(HERE, "seeded", "*", "meta.json")))]
    r2 = [m for m in metas if m.get("round") == 2]
    miss = [m["seed_id"] for m in r2 if str(m.get("detected_by", "")).startswith("MISSED")]
    r3 = [m for m in metas if m.get("round") == 3]
    miss3 = [m["seed_id"] for m in r3 if str(m.get("detected_by", "")).startswith("MISSED")]
    out[-1] = out[-1].replace("__R3__", str(len(r3))).replace("__R3MISSLIST__", ", ".join(miss3) or "none").replace("__R3MISS__", str(len(miss3)))
    r4 = [m for m in metas if m.get("round") == 4]
    miss4 = [m["seed_id"] for m in r4 if str(m.get("detected_by", "")).startswith("MISSED")]
    r4text = ""
    if r4:
        r4text = ("\nRound 4 (seeds `-7`, `-8`): " + str(len(r4)) + " stored, " + str(len(miss4)) + " MISSED at first ("
                  + (", ".join(miss4) or "none") + "). The pattern of round 3 repeats: the theorems and the correspondence held, the holes were in what "
                  "the generators reach — boundary integers and filtered comprehensions in compiled programs (C01), fields passed to functions and tuple "
                  "arity (C02), slice / condition / operand rules (C03), mixed comparisons, exponent kinds and frozen collections in consts (C06, C07), "
                  "nesting deeper than 8 levels (C08 / C09), multi-byte comments (C10), arity of built-ins and unpacking (C11), paths relative to the "
                  "working directory (C12), payload variants and multi-file names (C13), bare use and pairs of imports (C14), features spread over three "
                  "modules (C15), output that imitates the harness and runs whose only blemish is an XPASS (C16), argument forms of a construction (C17), "
                  "texts that do not lex (C18). Each was answered in the generator and, where a mechanism had no model, by one (Sem/Comprehension, "
                  "defaultErrors, bareKnown, the EOF-tail theorems); what was strengthened is in each `meta.json`. Widening again exposed defects of the "
                  "unchanged tree, repaired: string comparison helpers moving their operands, `and` / `or` on non-bools and `for` over a number accepted, "
                  "`run(port=…)` rewritten on user classes, `__eq__` parameter names, keyword-named imports, fixture and directory order, `**` on an "
                  "integer variable, blanks inside f-string interpolations.\n")
    r4text += ("\nAfter round 4 every stored seed was applied once more to the final checks (`git apply`, `./check`, undo): 158 of 160 are "
               "reported (C03-4 after being re-ported onto the current tree: later fixes had moved its context); C03-5 is the superseded one (above). Three "
               "seeds that had been caught earlier were missed in this sweep — C10-4, C11-4 and C18-5 had been caught by whatever the seeded "
               "random streams happened to draw, and later additions to the generators shifted those draws. The inputs they need are now "
               "produced deterministically: a cut after every line that ends in `return` / `pass` / `break` / `continue` / `...` (C10), "
               "constructor patterns with 0-3 sub-patterns on scrutinees with too few or too many type arguments (C11), and schedules that "
               "starve each of the first three handlers in turn or give every notification its first poll while the client reads nothing "
               "(C18). Lesson recorded: a catch that depends on a random draw is not a catch; each seed's needed input is now generated "
               "whatever the seed.\n")
    out[-1] = out[-1].replace("__R4TEXT__", r4text)
    out[-1] = out[-1].replace("__R2__", str(len(r2))).replace("__R2MISSLIST__", ", ".join(miss)).replace("__R2MISS__", str(len(miss)))
    out.append("""## Appendix E — hooks

Two guarded hooks. Commit `b91a239`: `src/format/mod.rs` gains `#[cfg(incan_verif)] pub use writer::FormatWriter;`
(the formatter's output writer, a private module otherwise), so that C09 can drive it operation by operation against
the model (Tool/Writer). Commit `3c16098`: `src/lsp/mod.rs` gains `#[cfg(incan_verif)] pub mod verif_hooks` (in-memory
event log) and `src/lsp/backend.rs` four `#[cfg(incan_verif)]` log calls (handler start, store, remove). The
harness is built with `rustflags = ["--cfg", "incan_verif"]` (harness/.cargo/config.toml); normal builds and
the pinned suite never see the code. `[lints.rust] unexpected_cfgs` in /repo/Cargo.toml declares the cfg name.
""")
    out.append("""## Appendix F — false alarms corrected, and what the thorough tier adds

Corrected false alarms (the machinery was wrong, the code was right; never listed as findings):
* C14 model: `super::` above the modelled tree — the model clamped at the root, the real resolvers climb out of the
  scratch tree and find nothing; the model now answers `none` there (`targetDir`).
* C17 oracle: the expected value of the `list1` site printed the second element, not the constructed one.
* C13 harness: positions `enumname` / `variant` / `classname` used match arms or an f-string that do not build under a
  plain name either (baseline broken); rewritten so that every position has a building baseline, and a broken baseline
  is itself reported.
* C03 harness: spans of block-bodied expressions include the trailing line break, and spans inside f-string
  interpolations are relative to the f-string — edits through them landed elsewhere; trimmed / routed through a
  statement rule instead (the relative locations themselves are a recorded finding).
* case files: a real output containing a lone carriage return was split into two lines by Python's universal-newline
  reader and crashed ./check C19 on a seeded tree; the harness now escapes `\r`, the reader splits on `\n` only, and
  a check that raises an exception reports `VIOLATION … no-failing-input-found` with the traceback as replay instead
  of exiting with status 2.
* runner watchdog: a compiled program that missed the 10 s limit was reported as a C17 violation while three cargo
  builds were saturating the machine; the pipes are now drained while the program runs and a program that misses
  the short limit is run once more with 90 s before a timeout is reported.
* C01 oracle (thorough tier): programs whose integers leave the i64 range have no documented meaning (Python
  continues with big integers, the compiled program wraps); they are detected through the Python run and dropped
  before the correspondence, counted in the evidence.
* C06 oracle (thorough tier): when an earlier operand has no compile-time value, the const evaluator reports the
  error of a later operand where run time stops at the earlier one; both reject the initializer, so only an error
  reported for an initializer that evaluates fine counts as a disagreement.
* C06 model: an exponent written `-0` is the literal 0 for `extract_int_literal` (it negates the value), so `1 ** -0`
  is int; the model called every negated literal negative. Found when the const generator started to produce exponents
  of every syntactic kind; the model was corrected, the code was right.
* C09 writer oracle: the first version demanded that the text never end in a blank; the theorem (and the formatter's
  use of the writer) only promises that for sequences that do not leave a piece ending in a blank pending. The client
  condition `clientOk` now includes the end of the sequence and the theorem states `endsBlank … = false`.
* C13 / C17 generators: a position giving an enum a method, and mixing sites written with an `if` expression, a typed
  closure parameter and a generic function, do not parse or build under any name — reported as `baseline-broken` /
  parse errors by the checks themselves and removed.
* C01 oracle: the Python side treated every printed integer of 18 digits or more as "outside the documented range";
  the boundary-arithmetic template prints the ends of the 64-bit range on purpose and is exempt (values are checked to
  lie inside i64).

The thorough tier (`./check Cxx --tier thorough`, 10–90 s per property) runs the same stages with 5–10× the inputs,
every (position, keyword) pair for C13, every subset of derives for C20, deeper nesting, and `leanchecker` on the
property module. It found two front-end panics on mutated repository files (non-identifier `import python "…"`,
float literal overflowing to infinity) which became `fix:` commits and regression inputs of the quick tier.
""")
    open(path, "w").write(head + "\n".join(out))


if __name__ == "__main__":
    main()
