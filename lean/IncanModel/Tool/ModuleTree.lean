import IncanModel.Tool.Cargo
/-
The module tree `ProjectGenerator::generate_nested` (src/backend/project.rs) writes for a multi-file project.

`paths` are the dependency modules' path segments (`["db", "models"]` for `db/models.incn`), the keys of a hash map:
any order.  For every directory that has children the generator lists them — sorted, without duplicates — either in
`<dir>/mod.rs`, or, when the directory is itself a module (`a.incn` next to `a/b.incn`), inside that module's own
file (`a.rs`); `main.rs` lists the top-level modules.  Names are byte strings as in the manifest model.
-/
namespace Incan.ModuleTree
open Incan.Cargo

abbrev Path := List Name

/-- `dir_submodules`: every (directory, child) pair the loop over `path_segments[..i]` records. -/
def dirChildren : List Path → List (Path × Name)
  | [] => []
  | p :: rest => ((List.range p.length).filterMap fun i => (p[i]?).map fun seg => (p.take i, seg)) ++ dirChildren rest

/-- Keep one copy of every name. -/
def dedup : List Name → List Name
  | [] => []
  | a :: as => if (dedup as).contains a then dedup as else a :: dedup as

/-- `subs.sort(); subs.dedup()` for one directory: the distinct child names in name order. -/
def childrenOf (paths : List Path) (dir : Path) : List Name :=
  (dedup (((dirChildren paths).filter (fun e => e.1 == dir)).map (·.2))).mergeSort lexLe

/-- Where the `pub mod` lines of a directory go. -/
inductive Carrier where
  | mainRs              -- the crate root lists the top-level modules
  | modRs               -- `<dir>/mod.rs`
  | ownFile             -- the directory is also a module: its own `<dir>.rs`
deriving Repr, DecidableEq

def carrier (paths : List Path) (dir : Path) : Carrier :=
  if dir = [] then .mainRs else if paths.contains dir then .ownFile else .modRs

/-- Files written below `src/` for a directory that has children: (writes `<dir>.rs`, writes `<dir>/mod.rs`). -/
def writes (paths : List Path) (dir : Path) : Bool × Bool :=
  (paths.contains dir, carrier paths dir == .modRs)

/-- The generator before the fix wrote `mod.rs` for every directory with children. -/
def writesOld (paths : List Path) (dir : Path) : Bool × Bool := (paths.contains dir, dir != [])

end Incan.ModuleTree
