/-
Model of import resolution.

Mirrors (three implementations exist in the repository):
  src/cli/commands.rs      collect_modules  — the command-line compiler ("cli"); src/frontend/resolver.rs
                           ModuleResolver::resolve is a copy of the same algorithm
  src/frontend/module.rs   resolve_import_path — used by the language server ("shared")
and the visibility check  src/frontend/typechecker/collect.rs validate_import_visibility.

A file system is the list of paths of the files that exist; a path is a list of components.
`crate::` imports walk up to the project root (a directory containing `Cargo.toml` or `src`).
-/
namespace Incan.Imports

abbrev Path := List String

structure FS where
  files : List Path          -- existing regular files
  dirs : List Path           -- existing directories
  deriving Repr

def FS.fileExists (fs : FS) (p : Path) : Bool := fs.files.contains p
def FS.dirExists (fs : FS) (p : Path) : Bool := fs.dirs.contains p

inductive Form where | module | from_
  deriving DecidableEq, Repr

structure Import where
  form : Form                -- `import a::b`  /  `from a.b import x`
  segments : List String
  isAbsolute : Bool          -- `crate::…`
  parentLevels : Nat         -- `super::` / `..`
  deriving DecidableEq, Repr

/-- Walk up from `dir` until a directory containing `Cargo.toml` or `src` is found. `none`: no marker
inside the modelled tree — the real code keeps walking up to the file-system root, above anything the
model knows about, where (by assumption) no module file exists. -/
def projectRoot (fs : FS) : Nat → Path → Option Path
  | 0, _ => none
  | fuel + 1, dir =>
    if fs.fileExists (dir ++ ["Cargo.toml"]) || fs.dirExists (dir ++ ["src"]) then some dir
    else match dir with
      | [] => none
      | _ => projectRoot fs fuel dir.dropLast

/-- The directory the segments are resolved against (`none`: outside the modelled tree). -/
def targetDir (fs : FS) (base : Path) (imp : Import) : Option Path :=
  if imp.isAbsolute then
    (projectRoot fs (base.length + 1) base).map fun root =>
      if fs.dirExists (root ++ ["src"]) then root ++ ["src"] else root
  else
    -- `super::` / `..` climb one directory per level; climbing above the modelled tree leaves it
    if imp.parentLevels ≤ base.length then some (base.take (base.length - imp.parentLevels)) else none

def withExt (p : Path) (ext : String) : Path :=
  match p.getLast? with
  | some last => p.dropLast ++ [last ++ "." ++ ext]
  | none => p

/-- `collect_modules`: always resolves against the **entry file's** directory; for the `import a::b`
form the last segment is taken to be an item, not part of the module path; only `<path>.incn` and
`<path>.incan` are tried. -/
def resolveCli (fs : FS) (entryDir : Path) (imp : Import) : Option Path :=
  if imp.segments = [] ∨ imp.segments.head? = some "std" then none else
  match targetDir fs entryDir imp with
  | none => none
  | some dir =>
  let segs := match imp.form with
    | .from_ => imp.segments
    | .module => if imp.segments.length > 1 then imp.segments.dropLast else imp.segments
  let p := dir ++ segs
  if fs.fileExists (withExt p "incn") then some (withExt p "incn")
  else if fs.fileExists (withExt p "incan") then some (withExt p "incan")
  else none

/-- `resolve_import_path`: resolves against the **importing file's** directory; all segments are the
module path; `<path>.incn`, `<path>.incan`, `<path>/mod.incn`, `<path>/mod.incan` are tried. -/
def resolveShared (fs : FS) (importerDir : Path) (imp : Import) : Option Path :=
  if imp.segments = [] ∨ imp.segments.head? = some "std" then none else
  match targetDir fs importerDir imp with
  | none => none
  | some dir =>
  let p := dir ++ imp.segments
  if fs.fileExists (withExt p "incn") then some (withExt p "incn")
  else if fs.fileExists (withExt p "incan") then some (withExt p "incan")
  else if fs.fileExists (p ++ ["mod.incn"]) then some (p ++ ["mod.incn"])
  else if fs.fileExists (p ++ ["mod.incan"]) then some (p ++ ["mod.incan"])
  else none

/-! ### The CLI's module collection (work list with a processed set) -/

/-- `importsOf file` = the import declarations of a file (what parsing it yields). -/
def collectGo (fs : FS) (entryDir : Path) (importsOf : Path → List Import) :
    Nat → List Path → List Path → List Path
  | 0, _, processed => processed
  | _, [], processed => processed
  | fuel + 1, file :: todo, processed =>
    if processed.contains file then collectGo fs entryDir importsOf fuel todo processed
    else
      let deps := (importsOf file).filterMap (resolveCli fs entryDir)
      collectGo fs entryDir importsOf fuel (deps.reverse ++ todo) (file :: processed)

/-! ### Visibility -/

structure ModuleExports where
  key : String               -- `segments.join("_")`, the key under which the dependency was pre-imported
  publicNames : List String
  deriving Repr

/-- `validate_import_visibility`: which names of an import are rejected. After the fix the
`import m::item` form is checked like `from m import item`. -/
def rejectedNames (deps : List ModuleExports) (imp : Import) (items : List String) : List String :=
  let (modSegs, names) := match imp.form with
    | .from_ => (imp.segments, items)
    | .module => if imp.segments.length > 1 then (imp.segments.dropLast, [imp.segments.getLast!]) else ([], [])
  match deps.find? (fun d => d.key == "_".intercalate modSegs) with
  | some d => names.filter (fun n => !d.publicNames.contains n)
  | none => []

/-- One item of `from m import name as alias` / `import m::name as alias`. -/
structure ImportItem where
  name : String
  alias : Option String := none
  deriving Repr, DecidableEq

/-- The name an item is bound to in the importing file. -/
def ImportItem.localName (i : ImportItem) : String := i.alias.getD i.name

/-- Visibility is asked of the imported names; the alias only names the binding. -/
def rejectedItems (deps : List ModuleExports) (imp : Import) (items : List ImportItem) : List String :=
  rejectedNames deps imp (items.map (·.name))

/-- The variant that asks the local names instead (a seeded change): for comparison only. -/
def rejectedItemsByLocalName (deps : List ModuleExports) (imp : Import) (items : List ImportItem) : List String :=
  rejectedNames deps imp (items.map (·.localName))

/-- `import_module`: a name of a dependency that the importer may use without naming it in the import — exactly the
exported ones (a private declaration is never registered in the importer's symbol table). -/
def bareKnown (deps : List ModuleExports) (name : String) : Bool :=
  deps.any fun d => d.publicNames.contains name

/-! ### What a module exports (`exported_symbols`, src/frontend/module.rs) -/

inductive DKind where
  | const | model | class_ | enum_ | newtype | trait | function
  deriving Repr, DecidableEq

structure MDecl where
  kind : DKind
  name : String
  isPub : Bool
  variants : List String      -- enum variants (empty for every other kind)
  deriving Repr

/-- Names a declaration contributes to its module's exports. -/
def declExports (d : MDecl) : List String :=
  if d.isPub then
    match d.kind with
    | .enum_ => d.name :: d.variants
    | _ => [d.name]
  else []

def exportedNames (ds : List MDecl) : List String := ds.flatMap declExports

/-- The dependency table the checker consults, built from the module's declarations. -/
def moduleExports (key : String) (ds : List MDecl) : ModuleExports := ⟨key, exportedNames ds⟩

end Incan.Imports
