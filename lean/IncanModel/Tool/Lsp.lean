/-
Model of the language server's document store under concurrent notification handlers.

Mirrors  src/lsp/backend.rs :
  did_open / did_change   begin_update (ticket := fresh; latest[uri] := ticket — synchronous, at handler start)
                          … awaits (dependency collection, client channel) …
                          store_document (under the write lock: store iff latest[uri] = my ticket)
  did_close               begin_close (latest.remove(uri) — synchronous)  … await write lock …
                          remove iff latest[uri] is absent
The ticket of notification number `i` (arrival order) is `i` itself: tickets are handed out in
arrival order because the synchronous part of each handler runs at its first poll, and the framework
(tower-lsp: buffer_unordered over the message stream) first-polls handlers in arrival order — that
ordering is an assumption about the framework, recorded in the trusted base.

A payload number stands for (version, text): what `hover` answers from.
`execOld` is the protocol as it was before the `fix:` commit (unconditional store/remove; a text with
a syntax error was not stored at all); it is kept to exhibit the counter-examples.
-/
namespace Incan.Lsp

inductive Kind where
  | update (payload : Nat) (parses : Bool)
  | close
  deriving DecidableEq, Repr

structure Note where
  uri : Nat
  kind : Kind
  deriving DecidableEq, Repr

inductive Step where
  | recv (i : Nat)      -- handler i starts (its synchronous first part)
  | store (i : Nat)     -- handler i reaches its store / remove under the write lock
  deriving DecidableEq, Repr

structure St where
  latest : Nat → Option Nat
  docs : Nat → Option Nat

def St.init : St := { latest := fun _ => none, docs := fun _ => none }

def upd (f : Nat → Option Nat) (k : Nat) (v : Option Nat) : Nat → Option Nat :=
  fun x => if x = k then v else f x

def Kind.payload : Kind → Option Nat
  | .update p _ => some p
  | .close => none

/-- The protocol after the fix. -/
def execNew (h : List Note) (s : St) : Step → St
  | .recv i =>
    match h[i]? with
    | some n =>
      match n.kind with
      | .update _ _ => { s with latest := upd s.latest n.uri (some i) }
      | .close => { s with latest := upd s.latest n.uri none }
    | none => s
  | .store i =>
    match h[i]? with
    | some n =>
      match n.kind with
      | .update p _ => if s.latest n.uri = some i then { s with docs := upd s.docs n.uri (some p) } else s
      | .close => if s.latest n.uri = none then { s with docs := upd s.docs n.uri none } else s
    | none => s

/-- The protocol before the fix. -/
def execOld (h : List Note) (s : St) : Step → St
  | .recv _ => s
  | .store i =>
    match h[i]? with
    | some n =>
      match n.kind with
      | .update p parses => if parses then { s with docs := upd s.docs n.uri (some p) } else s
      | .close => { s with docs := upd s.docs n.uri none }
    | none => s

def runNew (h : List Note) (sched : List Step) : St := sched.foldl (execNew h) St.init
def runOld (h : List Note) (sched : List Step) : St := sched.foldl (execOld h) St.init

/-- Schedules: every handler is received once, in arrival order, and stores once, any time after it
was received (any interleaving at the await points). `next` = number received, `pend` = received but
not yet stored. -/
def validGo (n : Nat) : List Step → Nat → List Nat → Bool
  | [], next, pend => next == n && pend.isEmpty
  | .recv i :: r, next, pend => i == next && decide (i < n) && validGo n r (next + 1) (i :: pend)
  | .store i :: r, next, pend => pend.contains i && validGo n r next (pend.erase i)

def Valid (h : List Note) (sched : List Step) : Prop := validGo h.length sched 0 [] = true

instance (h : List Note) (sched : List Step) : Decidable (Valid h sched) := by unfold Valid; infer_instance

/-- What the editor is entitled to: the payload of the last notification for `u` (nothing after a close
or if the document was never opened). -/
def expectedAt (h : List Note) (u : Nat) : Nat → Option Nat
  | 0 => none
  | k + 1 =>
    match h[k]? with
    | some n => if n.uri = u then n.kind.payload else expectedAt h u k
    | none => expectedAt h u k

def expected (h : List Note) (u : Nat) : Option Nat := expectedAt h u h.length

/-- The text of an imported module that the analysis of its importer reads (`collect_dependency_modules`,
src/lsp/backend.rs): the editor's, when the module is open there — whether or not it parses —, else the file's. -/
def effectiveText (openText : Option String) (diskText : String) : String := openText.getD diskText

end Incan.Lsp
