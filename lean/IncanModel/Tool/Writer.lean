/-
The formatter's output writer (`FormatWriter`, src/format/writer.rs): a buffer, an indentation level and the
"at line start" flag.  Indentation is written lazily, immediately before the first non-empty piece of a line, so
a line break at line start produces an empty line, never a line of blanks.

Text is a list of characters; a piece is what one `write` call appends.
-/
namespace Incan.Writer

structure W where
  out : List Char := []
  level : Nat := 0
  width : Nat := 4
  atStart : Bool := true
deriving Repr

inductive Op where
  | write (s : List Char)
  | newline
  | indent
  | dedent
  | endLine
  | blankLines (n : Nat)
deriving Repr

def writeIndent (w : W) : W :=
  if w.atStart then { w with out := w.out ++ List.replicate (w.level * w.width) ' ', atStart := false } else w

def write (w : W) (s : List Char) : W :=
  if s.isEmpty then w else
    let w' := writeIndent w
    { w' with out := w'.out ++ s }

def newline (w : W) : W := { w with out := w.out ++ ['\n'], atStart := true }

def blank : Nat → W → W
  | 0, w => w
  | n + 1, w => blank n (newline w)

def step (w : W) : Op → W
  | .write s => write w s
  | .newline => newline w
  | .indent => { w with level := w.level + 1 }
  | .dedent => { w with level := w.level - 1 }
  | .endLine => if w.atStart then w else newline w
  | .blankLines n => blank n w

def run (w : W) (ops : List Op) : W := ops.foldl step w

def isBlankChar (c : Char) : Bool := c == ' ' || c == '\t'
def isNl (c : Char) : Bool := c == '\n'
def isTab (c : Char) : Bool := c == '\t'

/-- The text ends in a blank that is not yet followed by anything (trailing whitespace if a line break comes next). -/
def endsBlank : List Char → Bool
  | [] => false
  | [c] => isBlankChar c
  | _ :: b :: rest => endsBlank (b :: rest)

/-- No line of the text ends in a blank: no blank is directly followed by a line break. -/
def noTrailing : List Char → Bool
  | [] => true
  | [_] => true
  | a :: b :: rest => !(isBlankChar a && isNl b) && noTrailing (b :: rest)

/-- What the formatter owes the writer: a piece contains no tab and no line break, and the line is not ended while the
last piece written ends in a blank (nor is the text left ending in one).  `pend` = "the text so far ends in a blank written by the client". -/
def clientOk : Bool → List Op → Bool
  | pend, [] => !pend
  | pend, .write s :: rest =>
    s.all (fun c => !isTab c && !isNl c) && clientOk (if s.isEmpty then pend else endsBlank s) rest
  | pend, .newline :: rest => !pend && clientOk false rest
  | pend, .endLine :: rest => !pend && clientOk false rest
  | pend, .blankLines n :: rest => (n == 0 || !pend) && clientOk (if n == 0 then pend else false) rest
  | pend, _ :: rest => clientOk pend rest

end Incan.Writer
