/-
Feature scanners (C15): which parts of a program `detect_serde_usage` / `detect_async_usage`
(src/backend/ir/scanners.rs) look into.

A position of an expression is described by the path of steps from the declaration that owns it down to the
expression: `Function.body > If.else > Assignment.value > Binary.arith.right > Call.arg`.  `allSteps` is the step
vocabulary of the independent AST walker of the harness (harness/src/c03.rs: one label per (constructor, child));
`jsonSteps` / `asyncSteps` are the steps the scanners' match arms descend through, transcribed arm by arm.
A trigger at a position is found iff every step of its path is one the scanner follows.
-/
namespace Incan.Scanners

/-- Every (constructor, child) step the walker knows. -/
def allSteps : List String :=
  [ -- owners
    "Function.body", "Model.method", "Class.method", "Trait.method", "Newtype.method",
    "Model.fielddefault", "Class.fielddefault", "Const.value",
    -- statements
    "ExprStmt", "Assignment.value", "CompoundAssignment.value", "ChainedAssignment.value",
    "FieldAssignment.object", "FieldAssignment.value",
    "IndexAssignment.object", "IndexAssignment.index", "IndexAssignment.value",
    "TupleUnpack.value", "TupleAssign.target", "TupleAssign.value", "Return.value",
    "If.cond", "If.then", "If.elifcond", "If.elif", "If.else", "While.cond", "While.body", "For.iter", "For.body",
    -- expressions
    "Binary.logic.left", "Binary.logic.right", "Binary.member.left", "Binary.member.right",
    "Binary.cmp.left", "Binary.cmp.right", "Binary.arith.left", "Binary.arith.right", "Unary.operand",
    "Call.callee", "Call.arg", "Call.namedarg", "MethodCall.receiver", "MethodCall.arg", "MethodCall.namedarg",
    "Constructor.arg", "Constructor.namedarg",
    "Index.base", "Index.index", "Slice.base", "Slice.start", "Slice.end", "Slice.step", "Field.base",
    "Range.start", "Range.end", "Await.inner", "Try.inner", "Paren.inner", "Yield.inner",
    "Match.subject", "Match.guard", "Match.armexpr", "Match.armblock",
    "IfExpr.cond", "IfExpr.then", "IfExpr.else",
    "ListComp.expr", "ListComp.iter", "ListComp.filter",
    "DictComp.key", "DictComp.value", "DictComp.iter", "DictComp.filter",
    "Closure.body", "Tuple.elem", "List.elem", "Set.elem", "Dict.key", "Dict.value" ]

/-- `program_uses_json_stringify` / `stmt_uses_json_stringify` / `expr_uses_json_stringify`, arm by arm. -/
def jsonSteps : List String :=
  [ -- program_uses_json_stringify: functions, methods_of (model / class / newtype / trait), initializers_of
    "Function.body", "Model.method", "Class.method", "Trait.method", "Newtype.method",
    "Model.fielddefault", "Class.fielddefault", "Const.value",
    -- stmt_uses_json_stringify
    "ExprStmt", "Assignment.value", "CompoundAssignment.value", "ChainedAssignment.value",
    "FieldAssignment.object", "FieldAssignment.value",
    "IndexAssignment.object", "IndexAssignment.index", "IndexAssignment.value",
    "TupleUnpack.value", "TupleAssign.target", "TupleAssign.value", "Return.value",
    "If.cond", "If.then", "If.elifcond", "If.elif", "If.else", "While.cond", "While.body", "For.iter", "For.body",
    -- expr_uses_json_stringify
    "Call.callee", "Call.arg", "Call.namedarg",
    "Binary.logic.left", "Binary.logic.right", "Binary.member.left", "Binary.member.right",
    "Binary.cmp.left", "Binary.cmp.right", "Binary.arith.left", "Binary.arith.right", "Unary.operand",
    "List.elem", "Tuple.elem", "Set.elem", "Dict.key", "Dict.value",
    "IfExpr.cond", "IfExpr.then", "IfExpr.else",
    "Match.subject", "Match.guard", "Match.armexpr", "Match.armblock",
    "MethodCall.receiver", "MethodCall.arg", "MethodCall.namedarg",
    "Index.base", "Index.index", "Slice.base", "Slice.start", "Slice.end", "Slice.step", "Field.base",
    "Range.start", "Range.end", "Await.inner", "Try.inner", "Paren.inner",
    "Constructor.arg", "Constructor.namedarg",
    "ListComp.expr", "ListComp.iter", "ListComp.filter",
    "DictComp.key", "DictComp.value", "DictComp.iter", "DictComp.filter",
    "Closure.body", "Yield.inner" ]

/-- `detect_async_usage` / `stmt_uses_async` / `expr_uses_async` (an `await` is itself a trigger, so everything
below `Await.inner` is below a trigger). -/
def asyncSteps : List String :=
  [ "Function.body", "Model.method", "Class.method", "Trait.method", "Newtype.method",
    "Model.fielddefault", "Class.fielddefault", "Const.value",
    "ExprStmt", "Assignment.value", "CompoundAssignment.value", "ChainedAssignment.value",
    "FieldAssignment.object", "FieldAssignment.value",
    "IndexAssignment.object", "IndexAssignment.index", "IndexAssignment.value",
    "TupleUnpack.value", "TupleAssign.target", "TupleAssign.value", "Return.value",
    "If.cond", "If.then", "If.elifcond", "If.elif", "If.else", "While.cond", "While.body", "For.iter", "For.body",
    "Await.inner", "Call.callee", "Call.arg", "Call.namedarg",
    "Binary.logic.left", "Binary.logic.right", "Binary.member.left", "Binary.member.right",
    "Binary.cmp.left", "Binary.cmp.right", "Binary.arith.left", "Binary.arith.right", "Unary.operand",
    "MethodCall.receiver", "MethodCall.arg", "MethodCall.namedarg", "Field.base", "Index.base", "Index.index",
    "Slice.base", "Slice.start", "Slice.end", "Slice.step", "Range.start", "Range.end", "Yield.inner",
    "IfExpr.cond", "IfExpr.then", "IfExpr.else",
    "Match.subject", "Match.guard", "Match.armexpr", "Match.armblock",
    "Closure.body", "List.elem", "Tuple.elem", "Set.elem", "Dict.key", "Dict.value",
    "ListComp.expr", "ListComp.iter", "ListComp.filter",
    "DictComp.key", "DictComp.value", "DictComp.iter", "DictComp.filter",
    "Constructor.arg", "Constructor.namedarg", "Try.inner", "Paren.inner" ]

/-- The steps the scanners skipped before the `fix:` commits (what the sweep found). -/
def jsonStepsBefore : List String :=
  jsonSteps.filter fun s => !["Trait.method", "Newtype.method", "Model.fielddefault", "Class.fielddefault",
    "Const.value", "ChainedAssignment.value", "FieldAssignment.object", "IndexAssignment.object",
    "IndexAssignment.index", "TupleAssign.target", "IfExpr.cond"].contains s

/-- A trigger below this path is found iff the scanner descends through every step. -/
def scans (followed : List String) (path : List String) : Bool := path.all followed.contains

end Incan.Scanners
