import IncanModel.Generated.CrateTable
/-
Model of the dependency section of the generated Cargo.toml.

Mirrors  src/backend/project.rs :  add_rust_crate (known-good table, UnknownCrateError),
                                   generate_cargo_toml (fixed runtime/feature dependencies, then the
                                   `rust::` crates in name order, skipping the ones already added)
         src/cli/commands.rs    :  prepare_project (crates of every module are added one by one)
The dependency table is a HashMap in the code: a set of (name, spec) entries with distinct names whose
iteration order is arbitrary — modelled as a list given in *any* order.
Names are byte strings (`List Nat`) so that Rust's `String` ordering is the lexicographic order below.
-/
namespace Incan.Cargo

abbrev Name := List Nat

def nm (s : String) : Name := s.toUTF8.toList.map UInt8.toNat


/-- Byte-wise lexicographic `≤` (what `String::cmp` implements). -/
def lexLe : Name → Name → Bool
  | [], _ => true
  | _ :: _, [] => false
  | a :: as, b :: bs => if a < b then true else if a = b then lexLe as bs else false

/-- The known-good table of `add_rust_crate`: REGENERATED from src/backend/project.rs on every run of `./check C15`
(Generated/CrateTable.lean: one entry per match arm, `.wildcard` for an arm that yields no version). -/
def knownTable : List (String × Spec) := Generated.crateTable

def known (name : String) : Option Spec := (knownTable.find? (fun e => e.1 == name)).map (·.2)

/-- `add_rust_crate` for each imported crate, in order; the table keeps one entry per name. -/
def addCrates : List String → List (String × Spec) → Except String (List (String × Spec))
  | [], acc => .ok acc
  | c :: cs, acc =>
    match known c with
    | some spec => addCrates cs ((c, spec) :: acc.filter (fun e => e.1 != c))
    | none => .error c

structure Flags where
  serde : Bool
  tokio : Bool
  axum : Bool
  deriving DecidableEq, Repr

def stdlibFeatures (f : Flags) : List String :=
  (if f.axum then ["web"] else []) ++ (if f.serde then ["json"] else [])

/-! Names of the fixed dependencies as explicit byte lists (string literals do not reduce in the kernel). -/
def n_incan_stdlib : Name := [105, 110, 99, 97, 110, 95, 115, 116, 100, 108, 105, 98]   -- "incan_stdlib"
def n_incan_derive : Name := [105, 110, 99, 97, 110, 95, 100, 101, 114, 105, 118, 101]   -- "incan_derive"
def n_serde : Name := [115, 101, 114, 100, 101]   -- "serde"
def n_serde_json : Name := [115, 101, 114, 100, 101, 95, 106, 115, 111, 110]   -- "serde_json"
def n_axum : Name := [97, 120, 117, 109]   -- "axum"
def n_tokio : Name := [116, 111, 107, 105, 111]   -- "tokio"

/-- The dependencies `generate_cargo_toml` always writes first, in this order. -/
def fixedDeps (f : Flags) : List (Name × Spec) :=
  [(n_incan_stdlib, .path "crates/incan_stdlib" (stdlibFeatures f)),
   (n_incan_derive, .path "crates/incan_derive" [])] ++
  (if f.serde then [(n_serde, .version "1.0" ["derive"]), (n_serde_json, .version "1.0" [])] else []) ++
  (if f.axum then
      [(n_axum, .version "0.8" []),
       (n_tokio, .version "1" ["rt-multi-thread", "macros", "time", "sync", "net"])]
   else if f.tokio then [(n_tokio, .version "1" ["rt-multi-thread", "macros", "time", "sync"])]
   else [])

/-- `IrCodegen::scan_for_serde / scan_for_async / scan_for_web`: which features a program's constructs
switch on (web implies the async runtime and serde). -/
def featureFlags (usesSerde usesAsync usesWeb : Bool) : Flags :=
  { serde := usesSerde || usesWeb, tokio := usesAsync || usesWeb, axum := usesWeb }

/-- The `rust::` crates: sorted by name, minus the ones already written. -/
def rustDeps (fixed : List Name) (table : List (Name × Spec)) : List (Name × Spec) :=
  (table.mergeSort (fun a b => lexLe a.1 b.1)).filter (fun e => !fixed.contains e.1)

def manifestDeps (f : Flags) (table : List (Name × Spec)) : List (Name × Spec) :=
  fixedDeps f ++ rustDeps ((fixedDeps f).map (·.1)) table

end Incan.Cargo
