/-
What a dependency entry of the generated Cargo.toml says about a crate (shared by the generated crate table and
the manifest model).
-/
namespace Incan.Cargo

inductive Spec where
  | version (v : String) (features : List String)
  | path (p : String) (features : List String)
  | wildcard                                        -- `name = "*"`
  deriving DecidableEq, Repr

end Incan.Cargo
