/-
Model of `incan test`.

Mirrors  src/cli/test_runner.rs :
  discover_tests_and_fixtures   functions named `test_*` (fixtures excluded), markers from decorators
  run_tests                     `-k` keyword filter (substring of the function name), `--slow`, skip / xfail
                                handling, counters, summary, exit status, `-x` (stop on first failure)
  run_single_test               per-test project whose `#[test]` harness calls the selected function;
                                the verdict is the exit status of `cargo test`
`bodyPasses t` abstracts "cargo test exits 0 on the project generated for t", which — with the harness
of the `fix:` commit — is "the body of t ran to completion without a failed assertion or panic"
(an assumption about rustc/cargo/libtest, recorded in the trusted base).
-/
namespace Incan.TestRunner

structure Test where
  name : String
  skip : Bool
  xfail : Bool
  slow : Bool
  bodyPasses : Bool
  deriving DecidableEq, Repr

inductive Verdict where
  | passed | failed | skipped | xfailed | xpassed
  deriving DecidableEq, Repr

/-- Does `kw` occur in `s` (as `str::contains`)? Over character lists. -/
def isPrefix : List Char → List Char → Bool
  | [], _ => true
  | _ :: _, [] => false
  | a :: as, b :: bs => a == b && isPrefix as bs

def containsSub (s kw : List Char) : Bool :=
  match s with
  | [] => kw.isEmpty
  | c :: cs => isPrefix kw (c :: cs) || containsSub cs kw

/-- The `.filter(|t| …)` of `run_tests`. -/
def selected (filter : Option String) (includeSlow : Bool) (t : Test) : Bool :=
  (match filter with
   | some kw => containsSub t.name.toList kw.toList
   | none => true) && (includeSlow || !t.slow)

/-- One iteration of the main loop: the verdict and whether the test's body was executed. -/
def runOne (t : Test) : Verdict × Bool :=
  if t.skip then (.skipped, false)
  else if t.xfail then (if t.bodyPasses then .xpassed else .xfailed, true)
  else (if t.bodyPasses then .passed else .failed, true)

/-- The loop with `-x` (stop after the first FAILED verdict). -/
def runLoop (stopOnFail : Bool) : List Test → List (Test × Verdict × Bool)
  | [] => []
  | t :: ts =>
    let r := runOne t
    if stopOnFail && r.1 == .failed then [(t, r)]
    else (t, r) :: runLoop stopOnFail ts

structure Summary where
  passed : Nat
  failed : Nat
  skipped : Nat
  xfailed : Nat
  xpassed : Nat
  exitOk : Bool
  deriving DecidableEq, Repr

def count (v : Verdict) (rs : List (Test × Verdict × Bool)) : Nat := (rs.filter (fun r => r.2.1 == v)).length

def summarize (rs : List (Test × Verdict × Bool)) : Summary :=
  let f := count .failed rs
  let xp := count .xpassed rs
  { passed := count .passed rs, failed := f, skipped := count .skipped rs, xfailed := count .xfailed rs,
    xpassed := xp, exitOk := !(f > 0 || xp > 0) }

/-- Discovery over several files: the per-file results are concatenated in file order; a test is identified by its
file *and* its name. -/
def collect (files : List (String × List Test)) : List (String × Test) :=
  files.flatMap fun f => f.2.map fun t => (f.1, t)

/-- The seeded variant (C16-5) that keeps only the first test of each function name. -/
def firstOfNameGo : List (String × Test) → List String → List (String × Test)
  | [], _ => []
  | x :: rest, seen => if seen.contains x.2.name then firstOfNameGo rest seen else x :: firstOfNameGo rest (x.2.name :: seen)

def collectFirstOfName (l : List (String × Test)) : List (String × Test) := firstOfNameGo l []

def runTests (filter : Option String) (includeSlow stopOnFail : Bool) (tests : List Test) :
    List (Test × Verdict × Bool) × Summary :=
  let rs := runLoop stopOnFail (tests.filter (selected filter includeSlow))
  (rs, summarize rs)

/-- Before the fix the generated project contained no `#[test]`: cargo's status did not depend on the body. -/
def runOneOld (t : Test) (compiles : Bool) : Verdict :=
  if t.skip then .skipped
  else if t.xfail then (if compiles then .xpassed else .xfailed)
  else (if compiles then .passed else .failed)

end Incan.TestRunner
