/-
Model of the decision logic of `incan fmt` for one file.

Mirrors  src/cli/commands.rs  format_files  (the per-file branch and the final exit status) and
         src/format/mod.rs    check_formatted.
The formatter itself is a parameter `fmt : String → Option String` (`none` = the file does not parse).
-/
namespace Incan.FmtCli

structure Outcome where
  contents : String        -- file contents after the command
  needsFormatting : Bool   -- "Would reformat" / diff reported
  formatted : Bool         -- the file was rewritten
  error : Bool             -- format error reported for this file
  deriving DecidableEq, Repr

/-- One iteration of the `for file_path in &files` loop. -/
def perFile (fmt : String → Option String) (checkMode diffMode : Bool) (source : String) : Outcome :=
  match fmt source with
  | some formatted =>
    let changed := source != formatted
    if checkMode then
      { contents := source, needsFormatting := changed, formatted := false, error := false }
    else if diffMode then
      { contents := source, needsFormatting := changed, formatted := false, error := false }
    else if changed then
      { contents := formatted, needsFormatting := false, formatted := true, error := false }
    else
      { contents := source, needsFormatting := false, formatted := false, error := false }
  | none => { contents := source, needsFormatting := false, formatted := false, error := true }

/-- Exit status of the command for a single file: failure iff something needs formatting (in
check/diff mode) or an error occurred. -/
def exitOk (checkMode diffMode : Bool) (o : Outcome) : Bool :=
  if (checkMode || diffMode) && o.needsFormatting then false
  else !o.error

/-- `check_formatted`. -/
def checkFormatted (fmt : String → Option String) (source : String) : Option Bool :=
  (fmt source).map (fun f => source == f)

/-- The whole command over the list of files it collected: the loop handles every file independently of
the ones before it; the exit status fails if any file needs formatting (check/diff) or any errored. -/
def runFiles (fmt : String → Option String) (checkMode diffMode : Bool) (files : List String) :
    List Outcome × Bool :=
  let outs := files.map (perFile fmt checkMode diffMode)
  let needs := outs.any (·.needsFormatting)
  let errs := outs.any (·.error)
  let ok := if (checkMode || diffMode) && needs then false else !errs
  (outs, ok)

end Incan.FmtCli
