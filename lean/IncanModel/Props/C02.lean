import IncanModel.Sem.CoreTyping
import IncanModel.Props.C03
/-
C02 — every program that type-checks also builds (core fragment: checker acceptance implies what lowering and
rustc require).
-/
namespace Incan.Core

/-- The checker's scopes and rustc's scopes describe the same variables: every name resolves to the same
type and mutability, and whatever is bound in rustc's innermost block is bound in the checker's. -/
def Sim (c r : Scopes) : Prop :=
  (∀ x, lookupVar c x = lookupVar r x) ∧ (∀ x v, lookupLocal r x = some v → lookupLocal c x = some v)

theorem lookupVar_nil_cons (s : Scopes) (x : String) : lookupVar ([] :: s) x = lookupVar s x := by
  simp [lookupVar]

theorem Sim.push_same {c r : Scopes} (f : List (String × VarInfo)) (h : Sim c r) : Sim (f :: c) (f :: r) := by
  refine ⟨?_, ?_⟩
  · intro x
    simp only [lookupVar]
    cases f.find? (·.1 == x) with
    | some p => rfl
    | none => exact h.1 x
  · intro x v hv
    simpa [lookupLocal] using hv

theorem Sim.push_right {c r : Scopes} (h : Sim c r) : Sim c ([] :: r) := by
  refine ⟨?_, ?_⟩
  · intro x; rw [lookupVar_nil_cons]; exact h.1 x
  · intro x v hv; simp [lookupLocal] at hv

theorem tyE_sim (sigs : String → Option Sig) {c r : Scopes} (h : Sim c r) (e : E) : tyE sigs c e = tyE sigs r e := by
  induction e with
  | int _ | bool _ | str _ | list _ => rfl
  | var x => simp [tyE, h.1 x]
  | neg e ih => simp [tyE, ih]
  | not_ e ih => simp [tyE, ih]
  | arith op l r ihl ihr => simp [tyE, ihl, ihr]
  | cmp op l r ihl ihr => simp [tyE, ihl, ihr]
  | and_ l r ihl ihr => simp [tyE, ihl, ihr]
  | or_ l r ihl ihr => simp [tyE, ihl, ihr]
  | concat l r ihl ihr => simp [tyE, ihl, ihr]
  | len e ih => simp [tyE, ih]
  | index xs i ihx ihi => simp [tyE, ihx, ihi]
  | call1 f a ih => simp [tyE, ih]
  | call2 f a b iha ihb => simp [tyE, iha, ihb]
  | paren e ih => simp [tyE, ih]

theorem lookupVar_declare_self (s : Scopes) (x : String) (v : VarInfo) : lookupVar (declare s x v) x = some v := by
  cases s with
  | nil => simp [declare, lookupVar]
  | cons f rest => simp [declare, lookupVar]

theorem lookupVar_declare_other (s : Scopes) (x y : String) (v : VarInfo) (h : x ≠ y) :
    lookupVar (declare s x v) y = lookupVar s y := by
  cases s with
  | nil => simp [declare, lookupVar, h]
  | cons f rest => simp [declare, lookupVar, List.find?_cons, h]

theorem lookupLocal_declare_self (s : Scopes) (x : String) (v : VarInfo) : lookupLocal (declare s x v) x = some v := by
  cases s with
  | nil => simp [declare, lookupLocal]
  | cons f rest => simp [declare, lookupLocal]

theorem lookupLocal_declare_other (s : Scopes) (x y : String) (v : VarInfo) (h : x ≠ y) (hs : s ≠ []) :
    lookupLocal (declare s x v) y = lookupLocal s y := by
  cases s with
  | nil => exact absurd rfl hs
  | cons f rest => simp [declare, lookupLocal, List.find?_cons, h]

theorem lookupLocal_some_lookupVar {s : Scopes} {x : String} {v : VarInfo} (h : lookupLocal s x = some v) :
    lookupVar s x = some v := by
  cases s with
  | nil => simp [lookupLocal] at h
  | cons f rest =>
    simp only [lookupLocal, Option.map_eq_some_iff] at h
    obtain ⟨p, hp, hv⟩ := h
    simp [lookupVar, hp, hv]

/-- Declaring the same binding on both sides keeps the scopes related. -/
theorem Sim.declare_both {c r : Scopes} (h : Sim c r) (hc : c ≠ []) (hr : r ≠ []) (x : String) (v : VarInfo) :
    Sim (declare c x v) (declare r x v) := by
  refine ⟨?_, ?_⟩
  · intro y
    by_cases hxy : x = y
    · subst hxy; rw [lookupVar_declare_self, lookupVar_declare_self]
    · rw [lookupVar_declare_other _ _ _ _ hxy, lookupVar_declare_other _ _ _ _ hxy]; exact h.1 y
  · intro y w hw
    by_cases hxy : x = y
    · subst hxy
      rw [lookupLocal_declare_self] at hw
      rw [lookupLocal_declare_self]; exact hw
    · rw [lookupLocal_declare_other _ _ _ _ hxy hr] at hw
      rw [lookupLocal_declare_other _ _ _ _ hxy hc]
      exact h.2 y w hw

/-- A shadow entry that repeats what the name already resolves to changes nothing for rustc's side. -/
theorem Sim.declare_left_same {c r : Scopes} (h : Sim c r) (hc : c ≠ []) (x : String) (v : VarInfo)
    (hv : lookupVar c x = some v) : Sim (declare c x v) r := by
  refine ⟨?_, ?_⟩
  · intro y
    by_cases hxy : x = y
    · subst hxy; rw [lookupVar_declare_self, ← h.1 x, hv]
    · rw [lookupVar_declare_other _ _ _ _ hxy]; exact h.1 y
  · intro y w hw
    by_cases hxy : x = y
    · subst hxy
      have := h.2 x w hw
      rw [lookupLocal_declare_self]
      have h1 := lookupLocal_some_lookupVar this
      rw [hv] at h1; exact h1
    · rw [lookupLocal_declare_other _ _ _ _ hxy hc]; exact h.2 y w hw

theorem declare_ne_nil (s : Scopes) (x : String) (v : VarInfo) : declare s x v ≠ [] := by
  cases s <;> simp [declare]

/-- The binding statement: checker acceptance (with the outer-type comparison) implies lowering + rustc acceptance. -/
theorem bind_sim (sigs : String → Option Sig) {c r c' : Scopes} (h : Sim c r) (hc : c ≠ []) (hr : r ≠ [])
    (m : Bool) (x : String) (e : E) (hchk : chkBind true sigs c m x e = some c') :
    ∃ r', rustBind sigs r m x e = some r' ∧ Sim c' r' ∧ c' ≠ [] ∧ r' ≠ [] := by
  unfold chkBind at hchk
  unfold rustBind
  rw [← tyE_sim sigs h e]
  cases ht : tyE sigs c e with
  | none => simp [ht] at hchk
  | some t =>
    simp only [ht] at hchk ⊢
    cases hl : lookupLocal c x with
    | some v =>
      simp only [hl] at hchk
      split at hchk
      · rename_i hv
        injection hchk with hchk; subst hchk
        have hvar : lookupVar r x = some v := by rw [← h.1 x]; exact lookupLocal_some_lookupVar hl
        have hveq : v = ⟨t, true⟩ := by
          cases v; simp_all
        cases m with
        | false => exact ⟨r, by simp [hvar, hv], h, hc, hr⟩
        | true =>
          simp only [if_true]
          cases hlr : lookupLocal r x with
          | some v' =>
            have := h.2 x v' hlr
            rw [hl] at this; injection this with this; subst this
            exact ⟨r, by simp [hv], h, hc, hr⟩
          | none =>
            refine ⟨declare r x ⟨t, true⟩, rfl, ?_, hc, declare_ne_nil _ _ _⟩
            -- rustc's new `let mut` repeats what the checker's block already has
            refine ⟨?_, ?_⟩
            · intro y
              by_cases hxy : x = y
              · subst hxy; rw [lookupVar_declare_self, lookupLocal_some_lookupVar hl, hveq]
              · rw [lookupVar_declare_other _ _ _ _ hxy]; exact h.1 y
            · intro y w hw
              by_cases hxy : x = y
              · subst hxy
                rw [lookupLocal_declare_self] at hw
                rw [hl, hveq]; exact hw
              · rw [lookupLocal_declare_other _ _ _ _ hxy hr] at hw; exact h.2 y w hw
      · cases hchk
    | none =>
      simp only [hl] at hchk
      have hlr : lookupLocal r x = none := by
        cases hlr : lookupLocal r x with
        | none => rfl
        | some v' => have := h.2 x v' hlr; rw [hl] at this; cases this
      cases m with
      | true =>
        simp only [if_true] at hchk ⊢
        injection hchk with hchk; subst hchk
        exact ⟨declare r x ⟨t, true⟩, by simp [hlr], h.declare_both hc hr x _, declare_ne_nil _ _ _, declare_ne_nil _ _ _⟩
      | false =>
        simp only [Bool.false_eq_true, if_false] at hchk ⊢
        rw [← h.1 x]
        cases hv : lookupVar c x with
        | some v =>
          simp only [hv] at hchk ⊢
          split at hchk
          · rename_i hcond
            injection hchk with hchk; subst hchk
            have hveq : v = ⟨t, true⟩ := by
              cases v; simp_all
            refine ⟨r, by simp [hveq], ?_, declare_ne_nil _ _ _, hr⟩
            rw [← hveq]
            exact h.declare_left_same hc x v hv
          · cases hchk
        | none =>
          simp only [hv] at hchk ⊢
          injection hchk with hchk; subst hchk
          exact ⟨declare r x ⟨t, false⟩, rfl, h.declare_both hc hr x _, declare_ne_nil _ _ _, declare_ne_nil _ _ _⟩


mutual
  theorem stmt_sim (sigs : String → Option Sig) (ret : Ty) (s : S) {c r c' : Scopes} (h : Sim c r) (hc : c ≠ []) (hr : r ≠ [])
      (hchk : chkS true sigs ret c s = some c') :
      ∃ r', rustS sigs ret r s = some r' ∧ Sim c' r' ∧ c' ≠ [] ∧ r' ≠ [] := by
    match s with
    | .letS m x e => simp only [chkS] at hchk; simpa [rustS] using bind_sim sigs h hc hr m x e hchk
    | .assign x e => simp only [chkS] at hchk; simpa [rustS] using bind_sim sigs h hc hr false x e hchk
    | .aug x op e =>
      simp only [chkS] at hchk
      simp only [rustS, ← tyE_sim sigs h e, ← h.1 x]
      split at hchk
      · rename_i v hte hv
        split at hchk
        · injection hchk with hchk; subst hchk
          rename_i hcond
          exact ⟨r, by simp [hte, hv, hcond], h, hc, hr⟩
        · cases hchk
      · cases hchk
    | .ifS cnd thn els =>
      simp only [chkS] at hchk
      simp only [rustS, ← tyE_sim sigs h cnd]
      split at hchk
      · rename_i hcond
        split at hchk
        · rename_i sc1 hb helse
          injection hchk with hchk; subst hchk
          obtain ⟨r1, hr1, _⟩ := block_sim sigs ret thn (h.push_same []) (by simp) (by simp) hb
          have he := else_sim sigs ret els h hc hr helse
          exact ⟨r, by simp [hcond, hr1, he], h, hc, hr⟩
        · cases hchk
      · cases hchk
    | .whileS cnd body =>
      simp only [chkS] at hchk
      simp only [rustS, ← tyE_sim sigs h cnd]
      split at hchk
      · rename_i hcond
        cases hb : chkB true sigs ret ([] :: c) body with
        | none => simp [hb] at hchk
        | some sc1 =>
          simp only [hb, Option.map] at hchk
          injection hchk with hchk; subst hchk
          obtain ⟨r1, hr1, _⟩ := block_sim sigs ret body (h.push_same []) (by simp) (by simp) hb
          exact ⟨r, by simp [hcond, hr1], h, hc, hr⟩
      · cases hchk
    | .forRange x lo hi body =>
      simp only [chkS] at hchk
      simp only [rustS, ← tyE_sim sigs h lo, ← tyE_sim sigs h hi]
      split at hchk
      · rename_i hcond
        cases hb : chkB true sigs ret ([(x, ⟨.int, false⟩)] :: c) body with
        | none => simp [hb] at hchk
        | some sc1 =>
          simp only [hb, Option.map] at hchk
          injection hchk with hchk; subst hchk
          obtain ⟨r1, hr1, _⟩ := block_sim sigs ret body (h.push_same [(x, ⟨.int, false⟩)]) (by simp) (by simp) hb
          exact ⟨r, by simp [hcond, hr1], h, hc, hr⟩
      · cases hchk
    | .forList x xs body =>
      simp only [chkS] at hchk
      simp only [rustS, ← tyE_sim sigs h xs]
      split at hchk
      · rename_i hcond
        cases hb : chkB true sigs ret ([(x, ⟨.int, false⟩)] :: c) body with
        | none => simp [hb] at hchk
        | some sc1 =>
          simp only [hb, Option.map] at hchk
          injection hchk with hchk; subst hchk
          obtain ⟨r1, hr1, _⟩ := block_sim sigs ret body (h.push_same [(x, ⟨.int, false⟩)]) (by simp) (by simp) hb
          exact ⟨r, by simp [hcond, hr1], h, hc, hr⟩
      · cases hchk
    | .append x e =>
      simp only [chkS] at hchk
      simp only [rustS, ← tyE_sim sigs h e, ← h.1 x]
      split at hchk
      · rename_i v hte hv
        split at hchk
        · injection hchk with hchk; subst hchk
          rename_i hcond
          exact ⟨r, by simp [hte, hv, hcond], h, hc, hr⟩
        · cases hchk
      · cases hchk
    | .ret e =>
      simp only [chkS] at hchk
      simp only [rustS, ← tyE_sim sigs h e]
      split at hchk
      · rename_i hcond; injection hchk with hchk; subst hchk; exact ⟨r, by simp [hcond], h, hc, hr⟩
      · cases hchk
    | .print e =>
      simp only [chkS] at hchk
      simp only [rustS, ← tyE_sim sigs h e]
      cases ht : tyE sigs c e with
      | none => simp [ht] at hchk
      | some t => simp only [ht, Option.map] at hchk ⊢; injection hchk with hchk; subst hchk; exact ⟨r, rfl, h, hc, hr⟩
    | .print2 a b =>
      simp only [chkS] at hchk
      simp only [rustS, ← tyE_sim sigs h a, ← tyE_sim sigs h b]
      split at hchk
      · rename_i ta tb hta htb; injection hchk with hchk; subst hchk; exact ⟨r, by simp [hta, htb], h, hc, hr⟩
      · cases hchk
    | .exprS e =>
      simp only [chkS] at hchk
      simp only [rustS, ← tyE_sim sigs h e]
      cases ht : tyE sigs c e with
      | none => simp [ht] at hchk
      | some t => simp only [ht, Option.map] at hchk ⊢; injection hchk with hchk; subst hchk; exact ⟨r, rfl, h, hc, hr⟩
    | .brk => simp only [chkS] at hchk; injection hchk with hchk; subst hchk; exact ⟨r, by simp [rustS], h, hc, hr⟩
    | .cont => simp only [chkS] at hchk; injection hchk with hchk; subst hchk; exact ⟨r, by simp [rustS], h, hc, hr⟩
  theorem block_sim (sigs : String → Option Sig) (ret : Ty) (b : Blk) {c r c' : Scopes} (h : Sim c r) (hc : c ≠ []) (hr : r ≠ [])
      (hchk : chkB true sigs ret c b = some c') :
      ∃ r', rustB sigs ret r b = some r' ∧ Sim c' r' := by
    match b with
    | .nil => simp only [chkB] at hchk; injection hchk with hchk; subst hchk; exact ⟨r, by simp [rustB], h⟩
    | .cons s rest =>
      simp only [chkB] at hchk
      cases hs : chkS true sigs ret c s with
      | none => simp [hs] at hchk
      | some c1 =>
        simp only [hs] at hchk
        obtain ⟨r1, hr1, hsim1, hc1, hr1ne⟩ := stmt_sim sigs ret s h hc hr hs
        obtain ⟨r2, hr2, hsim2⟩ := block_sim sigs ret rest hsim1 hc1 hr1ne hchk
        exact ⟨r2, by simp [rustB, hr1, hr2], hsim2⟩
  theorem else_sim (sigs : String → Option Sig) (ret : Ty) (els : Else) {c r : Scopes} (h : Sim c r) (hc : c ≠ []) (hr : r ≠ [])
      (hchk : chkElse true sigs ret c els = true) : rustElse sigs ret r els = true := by
    match els with
    | .none => simp [rustElse]
    | .else_ body =>
      simp only [chkElse, Option.isSome_iff_exists] at hchk
      obtain ⟨c1, hb⟩ := hchk
      obtain ⟨r1, hr1, _⟩ := block_sim sigs ret body (h.push_same []) (by simp) (by simp) hb
      simp [rustElse, hr1]
    | .elif cnd thn rest =>
      simp only [chkElse, Bool.and_eq_true, decide_eq_true_eq, Option.isSome_iff_exists] at hchk
      obtain ⟨⟨hcond, c1, hb⟩, hrest⟩ := hchk
      -- rustc sees `else { if cnd { thn } else { rest } }`: one more empty block scope
      have h1 : Sim c ([] :: r) := h.push_right
      obtain ⟨r1, hr1, _⟩ := block_sim sigs ret thn (h1.push_same []) (by simp) (by simp) hb
      have h2 := else_sim sigs ret rest h1 hc (by simp) hrest
      simp [rustElse, ← tyE_sim sigs h1 cnd, hcond, hr1, h2]
end

/-- MAIN (partial: core fragment; the checker taken with the comparison of the assigned type against an
outer variable's type, which the implementation omits — `nested_retype_accepted`).  A function body the checker
accepts is one that lowering turns into Rust that rustc accepts: every `x = e` is an assignment to a `let mut`
of the same type or a fresh `let`, conditions are bool, helper and call operands have the parameter types,
`return` has the declared type — for bodies of any shape and nesting depth, including `elif` chains (which
become nested blocks in Rust). -/
theorem accepted_body_builds_partial (sigs : String → Option Sig) (ret : Ty) (params : List (String × VarInfo)) (body : Blk)
    (c' : Scopes) (hchk : chkB true sigs ret [params] body = some c') :
    (rustB sigs ret [params] body).isSome = true := by
  have hsim : Sim [params] [params] := ⟨fun _ => rfl, fun _ _ hv => hv⟩
  obtain ⟨r', hr', _⟩ := block_sim sigs ret body hsim (by simp) (by simp) hchk
  simp [hr']

/-- The full statement fails on the implementation as it is: re-assigning an outer `mut x: int` with a string
from a nested block is accepted by the checker model that mirrors it (`strictOuter = false`) and rejected by
rustc's rule. Kernel-checked. -/
theorem nested_retype_accepted :
    let prog : Blk := .cons (.letS true "x" (.int 1)) (.cons (.ifS (.bool true) (.cons (.assign "x" (.str [])) .nil) .none) .nil)
    (chkB false (fun _ => none) .unit [[]] prog).isSome = true ∧ (rustB (fun _ => none) .unit [[]] prog).isSome = false ∧
    (chkB true (fun _ => none) .unit [[]] prog).isSome = false := by
  simp [chkB, chkS, chkBind, chkElse, rustB, rustS, rustBind, rustElse, tyE, lookupLocal, lookupVar, declare]

end Incan.Core

/-! ### Calls: what the checker lets through is a call rustc can type -/
namespace Incan.Checker

/-- MAIN (calls): if the checker reports nothing on a positional call of a callable without default parameters
(no mismatched, surplus or missing argument), the call has exactly one argument per parameter and each argument
has a type its parameter accepts — what rustc demands of the emitted call (E0061 / E0308 cannot occur). -/
theorem accepted_call_is_wellformed (ok : String → String → Bool) (args : List CArg) (ps : List (String × String))
    (h : ∀ a ∈ args, a.name = none)
    (hv : validateArgs ok args ps 0 = []) (hs : surplusArgs args ps = [])
    (hm : missingParams args [] ps (positionalCount args) = []) :
    args.length = ps.length ∧
    ∀ j, (hj : j < ps.length) → (ha : j < args.length) → ok (args[j]).ty (ps[j]).2 = true := by
  have h1 : args.length ≤ ps.length := by
    apply Nat.le_of_not_lt
    intro hlt
    have := surplus_argument_reported args ps h hlt
    rw [hs] at this
    exact absurd this (by simp)
  have h2 : ps.length ≤ args.length := by
    apply Nat.le_of_not_lt
    intro hlt
    have := missing_argument_reported args h [] ps args.length hlt (Nat.le_refl _) (by simp)
    rw [hm] at this
    exact absurd this (by simp)
  refine ⟨Nat.le_antisymm h1 h2, ?_⟩
  intro j hj ha
  cases hok : ok (args[j]).ty (ps[j]).2 with
  | true => rfl
  | false =>
    have := wrong_argument_reported ok args ps h j hj ha hok
    rw [hv] at this
    exact absurd this (by simp)

/-- Non-vacuity: a fitting two-argument call meets all three premises. -/
example : validateArgs (· == ·) [⟨none, "int"⟩, ⟨none, "str"⟩] [("a", "int"), ("b", "str")] 0 = [] ∧
    surplusArgs [⟨none, "int"⟩, ⟨none, "str"⟩] [("a", "int"), ("b", "str")] = [] ∧
    missingParams [⟨none, "int"⟩, ⟨none, "str"⟩] [] [("a", "int"), ("b", "str")] 2 = [] := by decide

/-- With a default parameter the premises hold for a call rustc refuses (recorded finding
`C02-default-parameter-omitted`): the theorem needs `defaults = []`. -/
example : missingParams [⟨none, "int"⟩] ["b"] [("a", "int"), ("b", "int")] 1 = [] := by decide

end Incan.Checker

