import IncanModel.Sem.Derive
/-
C20 — derived JSON, equality, ordering and hashing are structural and round-trip.
-/
namespace Incan.Derive

/-! ### JSON round trip -/

/-- A value of a non-option type never encodes as `null`. -/
theorem encode_ne_null (v : Val) (t : Ty) (h : hasTy v t = true) (hopt : ∀ u, t ≠ .option u) : encode v ≠ .null := by
  cases v <;> cases t <;> simp [hasTy] at h <;> simp [encode] <;> first | (exact absurd rfl (hopt _)) | skip

theorem lookup_encodeFields (f : List Char) (v : Val) (fs : List (List Char × Val)) (fts : List (List Char × Ty))
    (hty : fieldsHaveTy fs fts = true) (hd : distinctNames fts = true) (hmem : (f, v) ∈ fs) :
    lookup f (encodeFields fs) = some (encode v) := by
  induction fs generalizing fts with
  | nil => simp at hmem
  | cons p ps ih =>
    obtain ⟨g, w⟩ := p
    cases fts with
    | nil => simp [fieldsHaveTy] at hty
    | cons q qs =>
      obtain ⟨g', t'⟩ := q
      simp only [fieldsHaveTy, Bool.and_eq_true, beq_iff_eq] at hty
      simp only [distinctNames, Bool.and_eq_true, Bool.not_eq_true'] at hd
      obtain ⟨⟨hg, _⟩, hrest⟩ := hty
      subst hg
      simp only [encodeFields, lookup]
      rcases List.mem_cons.1 hmem with h | h
      · injection h with h1 h2; subst h1; subst h2; simp
      · -- f occurs later: it differs from g because names are distinct
        have hne : g ≠ f := by
          intro heq
          subst heq
          -- g ∈ names of qs, contradiction with hd.1
          have : nameIn g qs = true := by
            clear ih hmem hd
            induction ps generalizing qs with
            | nil => simp at h
            | cons p' ps' ih' =>
              obtain ⟨a, b⟩ := p'
              cases qs with
              | nil => simp [fieldsHaveTy] at hrest
              | cons q' qs' =>
                obtain ⟨a', t''⟩ := q'
                simp only [fieldsHaveTy, Bool.and_eq_true, beq_iff_eq] at hrest
                obtain ⟨⟨ha, _⟩, hr⟩ := hrest
                subst ha
                simp only [nameIn, Bool.or_eq_true, beq_iff_eq]
                rcases List.mem_cons.1 h with h' | h'
                · injection h' with h1 _; exact Or.inl h1
                · exact Or.inr (ih' qs' hr h')
          rw [this] at hd
          exact absurd hd.1 (by simp)
        simp only [hne, if_false]
        exact ih qs hrest hd.2 h

mutual
  /-- MAIN: `T.from_json(json_stringify(v))` is `Ok(v)` — for every value of every well-formed type, of any
  nesting depth (lists of models of options of …). -/
  theorem roundtrip (v : Val) (t : Ty) (h : hasTy v t = true) (hw : wfTy t = true) :
      decode t (encode v) = some v := by
    match v, t with
    | .int n, .int => simp [encode, decode]
    | .bool b, .bool => simp [encode, decode]
    | .str s, .str => simp [encode, decode]
    | .float b, .float => simp [encode, decode]
    | .none_, .option u => simp [encode, decode]
    | .some_ w, .option u =>
      simp only [hasTy] at h
      have hu : ∀ x, u ≠ .option x := by
        intro x hx; subst hx; simp [wfTy] at hw
      have hw' : wfTy u = true := by
        cases u <;> simp_all [wfTy]
      have hnn := encode_ne_null w u h hu
      have ih := roundtrip w u h hw'
      simp only [encode]
      cases hj : encode w with
      | null => exact absurd hj hnn
      | _ => simp only [decode, hj] at ih ⊢ <;> simp [ih]
    | .list xs, .list u =>
      simp only [hasTy] at h
      have hw' : wfTy u = true := by simpa [wfTy] using hw
      simp [encode, decode, roundtripList xs u h hw']
    | .dict kvs, .dict u =>
      simp only [hasTy] at h
      have hw' : wfTy u = true := by simpa [wfTy] using hw
      simp [encode, decode, roundtripDict kvs u h hw']
    | .struct fs, .struct fts =>
      simp only [hasTy] at h
      simp only [wfTy, Bool.and_eq_true] at hw
      have := roundtripFields fs fts h hw.1 (encodeFields fs)
        (fun f v hm => lookup_encodeFields f v fs fts h hw.2 hm)
      simp [encode, decode, this]
    | .int _, .bool | .int _, .str | .int _, .float | .int _, .option _ | .int _, .list _ | .int _, .dict _ | .int _, .struct _ => simp [hasTy] at h
    | .bool _, .int | .bool _, .str | .bool _, .float | .bool _, .option _ | .bool _, .list _ | .bool _, .dict _ | .bool _, .struct _ => simp [hasTy] at h
    | .str _, .int | .str _, .bool | .str _, .float | .str _, .option _ | .str _, .list _ | .str _, .dict _ | .str _, .struct _ => simp [hasTy] at h
    | .float _, .int | .float _, .bool | .float _, .str | .float _, .option _ | .float _, .list _ | .float _, .dict _ | .float _, .struct _ => simp [hasTy] at h
    | .none_, .int | .none_, .bool | .none_, .str | .none_, .float | .none_, .list _ | .none_, .dict _ | .none_, .struct _ => simp [hasTy] at h
    | .some_ _, .int | .some_ _, .bool | .some_ _, .str | .some_ _, .float | .some_ _, .list _ | .some_ _, .dict _ | .some_ _, .struct _ => simp [hasTy] at h
    | .list _, .int | .list _, .bool | .list _, .str | .list _, .float | .list _, .option _ | .list _, .dict _ | .list _, .struct _ => simp [hasTy] at h
    | .dict _, .int | .dict _, .bool | .dict _, .str | .dict _, .float | .dict _, .option _ | .dict _, .list _ | .dict _, .struct _ => simp [hasTy] at h
    | .struct _, .int | .struct _, .bool | .struct _, .str | .struct _, .float | .struct _, .option _ | .struct _, .list _ | .struct _, .dict _ => simp [hasTy] at h
  theorem roundtripList (xs : List Val) (t : Ty) (h : allHaveTy xs t = true) (hw : wfTy t = true) :
      decodeList t (encodeList xs) = some xs := by
    match xs with
    | [] => simp [encodeList, decodeList]
    | v :: vs =>
      simp only [allHaveTy, Bool.and_eq_true] at h
      simp [encodeList, decodeList, roundtrip v t h.1 hw, roundtripList vs t h.2 hw]
  theorem roundtripDict (kvs : List (List Char × Val)) (t : Ty) (h : dictHasTy kvs t = true) (hw : wfTy t = true) :
      decodeDict t (encodeDict kvs) = some kvs := by
    match kvs with
    | [] => simp [encodeDict, decodeDict]
    | (k, v) :: rest =>
      simp only [dictHasTy, Bool.and_eq_true] at h
      simp [encodeDict, decodeDict, roundtrip v t h.1 hw, roundtripDict rest t h.2 hw]
  theorem roundtripFields (fs : List (List Char × Val)) (fts : List (List Char × Ty))
      (h : fieldsHaveTy fs fts = true) (hw : wfFields fts = true) (kvs : List (List Char × J))
      (hl : ∀ f v, (f, v) ∈ fs → lookup f kvs = some (encode v)) :
      decodeFields fts kvs = some fs := by
    match fs, fts with
    | [], [] => simp [decodeFields]
    | (f, v) :: fs', (g, t) :: fts' =>
      simp only [fieldsHaveTy, Bool.and_eq_true, beq_iff_eq] at h
      obtain ⟨⟨hfg, hv⟩, hrest⟩ := h
      subst hfg
      simp only [wfFields, Bool.and_eq_true] at hw
      have h1 := hl f v (by simp)
      have h2 := roundtrip v t hv hw.1
      have h3 := roundtripFields fs' fts' hrest hw.2 kvs (fun f' v' hm => hl f' v' (List.mem_cons_of_mem _ hm))
      simp [decodeFields, h1, h2, h3]
    | [], _ :: _ => simp [fieldsHaveTy] at h
    | _ :: _, [] => simp [fieldsHaveTy] at h
end

/-- The JSON object of a model has exactly the declared field names, in declaration order. -/
theorem json_field_names (fs : List (List Char × Val)) :
    (encodeFields fs).map (·.1) = fs.map (·.1) := by
  induction fs with
  | nil => simp [encodeFields]
  | cons p ps ih => obtain ⟨k, v⟩ := p; simp [encodeFields, ih]

/-- Documented type mapping, one line per row of the reference table. -/
theorem type_mapping (n : Int) (b : Bool) (s : List Char) (v : Val) (xs : List Val) :
    encode (.int n) = .num n ∧ encode (.bool b) = .bool b ∧ encode (.str s) = .str s ∧
    encode .none_ = .null ∧ encode (.some_ v) = encode v ∧ encode (.list xs) = .arr (encodeList xs) := by
  simp [encode]

/-! ### Equality, ordering, hashing -/

mutual
  theorem eqV_refl (v : Val) : eqV v v = true := by
    match v with
    | .int _ | .bool _ | .str _ | .float _ | .none_ => simp [eqV]
    | .some_ w => simp [eqV, eqV_refl w]
    | .list xs => simp [eqV, eqList_refl xs]
    | .dict kvs => simp [eqV, eqDict_refl kvs]
    | .struct fs => simp [eqV, eqFields_refl fs]
  theorem eqList_refl (xs : List Val) : eqList xs xs = true := by
    match xs with
    | [] => simp [eqList]
    | v :: vs => simp [eqList, eqV_refl v, eqList_refl vs]
  theorem eqDict_refl (kvs : List (List Char × Val)) : eqDict kvs kvs = true := by
    match kvs with
    | [] => simp [eqDict]
    | (k, v) :: rest => simp [eqDict, eqV_refl v, eqDict_refl rest]
  theorem eqFields_refl (kvs : List (List Char × Val)) : eqFields kvs kvs = true := by
    match kvs with
    | [] => simp [eqFields]
    | (k, v) :: rest => simp [eqFields, eqV_refl v, eqFields_refl rest]
end

mutual
  theorem eqV_sound (a b : Val) (h : eqV a b = true) : a = b := by
    match a, b with
    | .int x, .int y => simp [eqV] at h; rw [h]
    | .bool x, .bool y => simp [eqV] at h; rw [h]
    | .str x, .str y => simp [eqV] at h; rw [h]
    | .float x, .float y => simp [eqV] at h; rw [h]
    | .none_, .none_ => rfl
    | .some_ x, .some_ y => simp only [eqV] at h; rw [eqV_sound x y h]
    | .list x, .list y => simp only [eqV] at h; rw [eqList_sound x y h]
    | .dict x, .dict y => simp only [eqV] at h; rw [eqDict_sound x y h]
    | .struct x, .struct y => simp only [eqV] at h; rw [eqFields_sound x y h]
    | .int _, .bool _ | .int _, .str _ | .int _, .float _ | .int _, .none_ | .int _, .some_ _ | .int _, .list _ | .int _, .dict _ | .int _, .struct _ => simp [eqV] at h
    | .bool _, .int _ | .bool _, .str _ | .bool _, .float _ | .bool _, .none_ | .bool _, .some_ _ | .bool _, .list _ | .bool _, .dict _ | .bool _, .struct _ => simp [eqV] at h
    | .str _, .int _ | .str _, .bool _ | .str _, .float _ | .str _, .none_ | .str _, .some_ _ | .str _, .list _ | .str _, .dict _ | .str _, .struct _ => simp [eqV] at h
    | .float _, .int _ | .float _, .bool _ | .float _, .str _ | .float _, .none_ | .float _, .some_ _ | .float _, .list _ | .float _, .dict _ | .float _, .struct _ => simp [eqV] at h
    | .none_, .int _ | .none_, .bool _ | .none_, .str _ | .none_, .float _ | .none_, .some_ _ | .none_, .list _ | .none_, .dict _ | .none_, .struct _ => simp [eqV] at h
    | .some_ _, .int _ | .some_ _, .bool _ | .some_ _, .str _ | .some_ _, .float _ | .some_ _, .none_ | .some_ _, .list _ | .some_ _, .dict _ | .some_ _, .struct _ => simp [eqV] at h
    | .list _, .int _ | .list _, .bool _ | .list _, .str _ | .list _, .float _ | .list _, .none_ | .list _, .some_ _ | .list _, .dict _ | .list _, .struct _ => simp [eqV] at h
    | .dict _, .int _ | .dict _, .bool _ | .dict _, .str _ | .dict _, .float _ | .dict _, .none_ | .dict _, .some_ _ | .dict _, .list _ | .dict _, .struct _ => simp [eqV] at h
    | .struct _, .int _ | .struct _, .bool _ | .struct _, .str _ | .struct _, .float _ | .struct _, .none_ | .struct _, .some_ _ | .struct _, .list _ | .struct _, .dict _ => simp [eqV] at h
  theorem eqList_sound (a b : List Val) (h : eqList a b = true) : a = b := by
    match a, b with
    | [], [] => rfl
    | x :: xs, y :: ys =>
      simp only [eqList, Bool.and_eq_true] at h
      rw [eqV_sound x y h.1, eqList_sound xs ys h.2]
    | [], _ :: _ => simp [eqList] at h
    | _ :: _, [] => simp [eqList] at h
  theorem eqDict_sound (a b : List (List Char × Val)) (h : eqDict a b = true) : a = b := by
    match a, b with
    | [], [] => rfl
    | (k, x) :: xs, (l, y) :: ys =>
      simp only [eqDict, Bool.and_eq_true, beq_iff_eq] at h
      rw [h.1.1, eqV_sound x y h.1.2, eqDict_sound xs ys h.2]
    | [], _ :: _ => simp [eqDict] at h
    | _ :: _, [] => simp [eqDict] at h
  theorem eqFields_sound (a b : List (List Char × Val)) (h : eqFields a b = true) : a = b := by
    match a, b with
    | [], [] => rfl
    | (k, x) :: xs, (l, y) :: ys =>
      simp only [eqFields, Bool.and_eq_true, beq_iff_eq] at h
      rw [h.1.1, eqV_sound x y h.1.2, eqFields_sound xs ys h.2]
    | [], _ :: _ => simp [eqFields] at h
    | _ :: _, [] => simp [eqFields] at h
end

/-- `==` holds iff all fields are equal (structurally, at any depth). -/
theorem eq_iff_structural (a b : Val) : eqV a b = true ↔ a = b :=
  ⟨eqV_sound a b, fun h => h ▸ eqV_refl a⟩

/-- Field-wise: two model values are equal exactly when they have the same fields with equal values. -/
theorem eq_fields (k l : List Char) (a b : Val) (as bs : List (List Char × Val)) :
    eqV (.struct ((k, a) :: as)) (.struct ((l, b) :: bs)) = (k == l && eqV a b && eqV (.struct as) (.struct bs)) := by
  simp [eqV, eqFields]

/-- Equal values feed the hasher the same input: they hash equally (usable as dict/set keys). -/
theorem hash_respects_eq (a b : Val) (h : eqV a b = true) : hashInput a = hashInput b := by
  rw [eqV_sound a b h]

/-- Ordering is lexicographic in declaration order: the first field that differs decides. -/
theorem ord_lexicographic (k l : List Char) (a b : Val) (as bs : List (List Char × Val)) :
    cmpV (.struct ((k, a) :: as)) (.struct ((l, b) :: bs)) =
      (match cmpV a b with | .eq => cmpV (.struct as) (.struct bs) | o => o) := by
  simp only [cmpV, cmpFields]
  rfl

theorem cmpInt_swap (a b : Int) : cmpInt b a = (cmpInt a b).swap := by
  unfold cmpInt
  by_cases h1 : a < b <;> by_cases h2 : b < a <;> simp [h1, h2, Ordering.swap] <;> omega

theorem cmpStr_swap (a b : List Char) : cmpStr b a = (cmpStr a b).swap := by
  induction a generalizing b with
  | nil => cases b <;> simp [cmpStr, Ordering.swap]
  | cons x xs ih =>
    cases b with
    | nil => simp [cmpStr, Ordering.swap]
    | cons y ys =>
      simp only [cmpStr]
      by_cases h1 : x.toNat < y.toNat
      · have : ¬ y.toNat < x.toNat := by omega
        have h3 : y.toNat > x.toNat := h1
        simp [h1, this, h3, Ordering.swap]
      · by_cases h2 : y.toNat < x.toNat
        · have h3 : x.toNat > y.toNat := h2
          simp [h1, h2, h3, Ordering.swap]
        · have h3 : ¬ x.toNat > y.toNat := by omega
          have h4 : ¬ y.toNat > x.toNat := by omega
          simp [h1, h2, h3, h4, ih ys]

theorem swap_eq_iff (o : Ordering) : o.swap = .eq ↔ o = .eq := by cases o <;> simp [Ordering.swap]

mutual
  /-- Derived ordering is antisymmetric in the strong sense: swapping the operands swaps the verdict (`a < b` iff
  `b > a`, equal iff equal), at any nesting depth. -/
  theorem cmpV_swap (a b : Val) : cmpV b a = (cmpV a b).swap := by
    match a, b with
    | .int x, .int y => simp only [cmpV]; exact cmpInt_swap x y
    | .bool x, .bool y => simp only [cmpV]; exact cmpInt_swap _ _
    | .str x, .str y => simp only [cmpV]; exact cmpStr_swap x y
    | .none_, .none_ => rfl
    | .none_, .some_ _ => rfl
    | .some_ _, .none_ => rfl
    | .some_ x, .some_ y => simp only [cmpV]; exact cmpV_swap x y
    | .list x, .list y => simp only [cmpV]; exact cmpList_swap x y
    | .struct x, .struct y => simp only [cmpV]; exact cmpFields_swap x y
    | .float _, b => cases b <;> simp [cmpV, Ordering.swap]
    | .dict _, b => cases b <;> simp [cmpV, Ordering.swap]
    | .int _, .bool _ | .int _, .str _ | .int _, .float _ | .int _, .none_ | .int _, .some_ _ | .int _, .list _ | .int _, .dict _ | .int _, .struct _ => simp [cmpV, Ordering.swap]
    | .bool _, .int _ | .bool _, .str _ | .bool _, .float _ | .bool _, .none_ | .bool _, .some_ _ | .bool _, .list _ | .bool _, .dict _ | .bool _, .struct _ => simp [cmpV, Ordering.swap]
    | .str _, .int _ | .str _, .bool _ | .str _, .float _ | .str _, .none_ | .str _, .some_ _ | .str _, .list _ | .str _, .dict _ | .str _, .struct _ => simp [cmpV, Ordering.swap]
    | .none_, .int _ | .none_, .bool _ | .none_, .str _ | .none_, .float _ | .none_, .list _ | .none_, .dict _ | .none_, .struct _ => simp [cmpV, Ordering.swap]
    | .some_ _, .int _ | .some_ _, .bool _ | .some_ _, .str _ | .some_ _, .float _ | .some_ _, .list _ | .some_ _, .dict _ | .some_ _, .struct _ => simp [cmpV, Ordering.swap]
    | .list _, .int _ | .list _, .bool _ | .list _, .str _ | .list _, .float _ | .list _, .none_ | .list _, .some_ _ | .list _, .dict _ | .list _, .struct _ => simp [cmpV, Ordering.swap]
    | .struct _, .int _ | .struct _, .bool _ | .struct _, .str _ | .struct _, .float _ | .struct _, .none_ | .struct _, .some_ _ | .struct _, .list _ | .struct _, .dict _ => simp [cmpV, Ordering.swap]
  theorem cmpList_swap (a b : List Val) : cmpList b a = (cmpList a b).swap := by
    match a, b with
    | [], [] => rfl
    | [], _ :: _ => rfl
    | _ :: _, [] => rfl
    | x :: xs, y :: ys =>
      simp only [cmpList]
      rw [cmpV_swap x y]
      cases h : cmpV x y <;> simp [Ordering.swap, cmpList_swap xs ys]
  theorem cmpFields_swap (a b : List (List Char × Val)) : cmpFields b a = (cmpFields a b).swap := by
    match a, b with
    | [], [] => rfl
    | [], _ :: _ => rfl
    | _ :: _, [] => rfl
    | (k, x) :: xs, (l, y) :: ys =>
      simp only [cmpFields]
      rw [cmpV_swap x y]
      cases h : cmpV x y <;> simp [Ordering.swap, cmpFields_swap xs ys]
end

/-- `a < b` exactly when `b > a`. -/
theorem lt_iff_gt (a b : Val) : cmpV a b = .lt ↔ cmpV b a = .gt := by
  rw [cmpV_swap a b]; cases cmpV a b <;> simp [Ordering.swap]

/-- Equal values compare equal (ordering is consistent with `==`). -/
theorem cmpV_refl_of_eq (a : Val) : cmpV a a = .eq := by
  have := cmpV_swap a a
  cases h : cmpV a a <;> simp [h, Ordering.swap] at this ⊢

/-! ### Derive lists -/

/-- The derive list the compiler emits always satisfies rustc's supertrait requirements, whatever subset of
the documented derives the user wrote (in the order Eq, PartialEq, Ord, PartialOrd, Hash, Serialize,
Deserialize, Copy; other orders are covered by the correspondence, which rotates the written order). -/
theorem derives_closed (eq peq ord pord hash ser de copy : Bool) :
    let written := (if eq then ["Eq"] else []) ++ (if peq then ["PartialEq"] else []) ++ (if ord then ["Ord"] else []) ++
      (if pord then ["PartialOrd"] else []) ++ (if hash then ["Hash"] else []) ++ (if ser then ["Serialize"] else []) ++
      (if de then ["Deserialize"] else []) ++ (if copy then ["Copy"] else [])
    deriveListAccepted (structDerives written) = true := by
  cases eq <;> cases peq <;> cases ord <;> cases pord <;> cases hash <;> cases ser <;> cases de <;> cases copy <;> decide

theorem mem_addIfMissing (l : List String) (name d : String) (h : d ∈ l) : d ∈ addIfMissing l name := by
  unfold addIfMissing
  split <;> simp [h]

/-- Whatever the user wrote is kept (nothing is dropped from the derive list). -/
theorem derives_kept (written : List String) (d : String) (h : d ∈ written) : d ∈ structDerives written := by
  have h1 : d ∈ eqStep written := by unfold eqStep; split <;> simp [h, mem_addIfMissing]
  have h2 : d ∈ partialOrdStep (eqStep written) := by unfold partialOrdStep; split <;> simp [h1, mem_addIfMissing]
  have h3 : d ∈ ordStep (partialOrdStep (eqStep written)) := by
    unfold ordStep; split
    · exact mem_addIfMissing _ _ _ (mem_addIfMissing _ _ _ (mem_addIfMissing _ _ _ h2))
    · exact h2
  exact mem_addIfMissing _ _ _ (mem_addIfMissing _ _ _ h3)

example : decode (.struct [("a".toList, .int), ("o".toList, .option .int), ("xs".toList, .list .str)])
    (encode (.struct [("a".toList, .int (-3)), ("o".toList, .none_), ("xs".toList, .list [.str "é\"".toList])])) =
    some (.struct [("a".toList, .int (-3)), ("o".toList, .none_), ("xs".toList, .list [.str "é\"".toList])]) := by
  apply roundtrip <;> rfl

/-! ### Inherited fields keep declaration order; overriding methods win -/

/-- Parent of level `i` in a chain started under `parent`. -/
def parentOf {α : Type} (levels : List (String × α)) (parent : Option String) : Nat → Option String
  | 0 => parent
  | i + 1 => (levels[i]?).map (·.1)

theorem findDecl_chain {α : Type} (levels : List (String × α)) (parent : Option String)
    (hnd : (levels.map (·.1)).Nodup) (i : Nat) (hi : i < levels.length) :
    findDecl (chainDecls levels parent) (levels[i]).1
      = some ⟨(levels[i]).1, parentOf levels parent i, (levels[i]).2⟩ := by
  induction levels generalizing parent i with
  | nil => simp at hi
  | cons l rest ih =>
    obtain ⟨n, fs⟩ := l
    cases i with
    | zero => simp [chainDecls, findDecl, parentOf]
    | succ j =>
      have hj : j < rest.length := by simpa using hi
      have hnd' : (rest.map (·.1)).Nodup := (List.nodup_cons.1 (by simpa using hnd)).2
      have hne : n ≠ (rest[j]).1 := by
        intro h
        have hmem : n ∈ rest.map (·.1) := by
          rw [h]; exact List.mem_map.2 ⟨rest[j], List.getElem_mem hj, rfl⟩
        exact (List.nodup_cons.1 (by simpa using hnd)).1 hmem
      have := ih (some n) hnd' j hj
      simp only [findDecl] at this ⊢
      simp only [chainDecls, List.getElem_cons_succ, List.find?_cons]
      have hb : (n == (rest[j]).1) = false := by simpa using hne
      simp only [hb]
      rw [this]
      cases j with
      | zero => simp [parentOf]
      | succ k => simp [parentOf]

theorem chainDecls_length {α : Type} (levels : List (String × α)) (parent : Option String) :
    (chainDecls levels parent).length = levels.length := by
  induction levels generalizing parent with
  | nil => rfl
  | cons l rest ih => obtain ⟨n, fs⟩ := l; simp [chainDecls, ih]

theorem inherited_chain (levels : List (String × Fields))
    (hnd : (levels.map (·.1)).Nodup) (i : Nat) (hi : i < levels.length) (fuel : Nat) (hf : i < fuel) :
    inheritedFields (chainDecls levels none) fuel (levels[i]).1 = (levels.take (i + 1)).flatMap (·.2) := by
  induction i generalizing fuel with
  | zero =>
    cases fuel with
    | zero => omega
    | succ f =>
      have h0 := findDecl_chain levels none hnd 0 hi
      simp only [inheritedFields, h0, parentOf]
      cases levels with
      | nil => simp at hi
      | cons l rest => simp
  | succ j ih =>
    cases fuel with
    | zero => omega
    | succ f =>
      have hj : j < levels.length := by omega
      have hs := findDecl_chain levels none hnd (j + 1) hi
      simp only [inheritedFields, hs, parentOf, List.getElem?_eq_getElem hj, Option.map_some]
      rw [ih hj f (by omega)]
      rw [List.take_succ_eq_append_getElem hi, List.flatMap_append]
      simp

/-- MAIN (field order): in a chain `C0 <- C1 <- … <- Cn` of classes with distinct names, the struct emitted for
every `Ci` lists the fields of `C0`, then `C1`, …, then its own: the declaration order that derived `Ord` compares
in and that `json_stringify` writes. -/
theorem chain_fields_in_declaration_order (levels : List (String × Fields))
    (hnd : (levels.map (·.1)).Nodup) (i : Nat) (hi : i < levels.length) :
    classFields (chainDecls levels none) ⟨(levels[i]).1, parentOf levels none i, (levels[i]).2⟩
      = (levels.take (i + 1)).flatMap (·.2) := by
  cases i with
  | zero =>
    cases levels with
    | nil => simp at hi
    | cons l rest => simp [classFields, parentOf]
  | succ j =>
    have hj : j < levels.length := by omega
    simp only [classFields, parentOf, List.getElem?_eq_getElem hj, Option.map_some]
    rw [inherited_chain levels hnd j hj _ (by rw [chainDecls_length]; exact hj)]
    rw [List.take_succ_eq_append_getElem hi, List.flatMap_append]
    simp

/-- and the declaration the lowering finds for `Ci` is that one. -/
theorem chain_lookup (levels : List (String × Fields)) (hnd : (levels.map (·.1)).Nodup)
    (i : Nat) (hi : i < levels.length) :
    findDecl (chainDecls levels none) (levels[i]).1 = some ⟨(levels[i]).1, parentOf levels none i, (levels[i]).2⟩ :=
  findDecl_chain levels none hnd i hi

example : classFields (chainDecls [("Base", [(['a'], Ty.int)]), ("Mid", [(['b'], .int)]), ("Leaf", [(['c'], .int)])] none)
    ⟨"Leaf", some "Mid", [(['c'], .int)]⟩ = [(['a'], .int), (['b'], .int), (['c'], .int)] := by
  simp [classFields, chainDecls, inheritedFields, findDecl]

/-! #### Overriding -/

theorem dispatch_addOwn (acc : List (String × String)) (owner : String) (ms : List String) (m : String) :
    dispatch (addOwn acc owner ms) m = if m ∈ ms then some owner else dispatch acc m := by
  induction ms generalizing acc with
  | nil => simp [addOwn]
  | cons x ms ih =>
    simp only [addOwn]
    rw [ih]
    by_cases hm : m ∈ ms
    · simp [hm]
    · simp only [hm, if_false, List.mem_cons, or_false]
      unfold dispatch
      rw [List.find?_append]
      by_cases hx : m = x
      · subst hx
        have : (acc.filter fun e => e.1 != m).find? (fun e => e.1 == m) = none := by
          rw [List.find?_eq_none]; intro e he; simp at he; simp; exact he.2
        simp [this]
      · have hf : (acc.filter fun e => e.1 != x).find? (fun e => e.1 == m) = acc.find? (fun e => e.1 == m) := by
          induction acc with
          | nil => rfl
          | cons e rest ihr =>
            by_cases hex : e.1 = x
            · have hem : (e.1 == m) = false := by
                rw [hex]; exact beq_false_of_ne (fun h => hx h.symm)
              have hne : (e.1 != x) = false := by simp [hex]
              rw [List.filter_cons, hne, List.find?_cons, hem]
              simpa using ihr
            · have hne : (e.1 != x) = true := by simp [hex]
              rw [List.filter_cons, hne]
              simp only [if_true, List.find?_cons]
              rw [ihr]
        rw [hf]
        have hxm : (x == m) = false := by simp; exact fun h => hx h.symm
        cases acc.find? (fun e => e.1 == m) with
        | some e => simp [hx]
        | none => simp [List.find?_cons, hxm, hx]

/-- Python's resolution for single inheritance, from the root-first list of (class, methods it declares): the last
class of the chain that declares `m`. -/
def specOwner (levels : List (String × List String)) (m : String) : Option String :=
  ((levels.filter fun l => l.2.contains m).getLast?).map (·.1)

theorem specOwner_snoc (levels : List (String × List String)) (l : String × List String) (m : String) :
    specOwner (levels ++ [l]) m = if m ∈ l.2 then some l.1 else specOwner levels m := by
  unfold specOwner
  rw [List.filter_append]
  by_cases h : m ∈ l.2
  · have : l.2.contains m = true := List.contains_iff_mem.2 h
    simp [List.filter_cons, this, h]
  · have : l.2.contains m = false := by
      cases hc : l.2.contains m with
      | false => rfl
      | true => exact absurd (List.contains_iff_mem.1 hc) h
    simp [List.filter_cons, this, h]

theorem methods_chain (levels : List (String × List String))
    (hnd : (levels.map (·.1)).Nodup) (i : Nat) (hi : i < levels.length) (fuel : Nat) (hf : i < fuel) (m : String) :
    dispatch (inheritedMethods (chainDecls levels none) fuel (levels[i]).1) m = specOwner (levels.take (i + 1)) m := by
  induction i generalizing fuel with
  | zero =>
    cases fuel with
    | zero => omega
    | succ f =>
      have h0 := findDecl_chain levels none hnd 0 hi
      simp only [inheritedMethods, h0, parentOf, dispatch_addOwn]
      cases levels with
      | nil => simp at hi
      | cons l rest =>
        have := specOwner_snoc [] l m
        simp only [List.nil_append] at this
        simp only [List.take_succ_cons, List.take_zero, List.getElem_cons_zero, this]
        simp [specOwner, dispatch]
  | succ j ih =>
    cases fuel with
    | zero => omega
    | succ f =>
      have hj : j < levels.length := by omega
      have hs := findDecl_chain levels none hnd (j + 1) hi
      simp only [inheritedMethods, hs, parentOf, List.getElem?_eq_getElem hj, Option.map_some, dispatch_addOwn]
      rw [ih hj f (by omega)]
      rw [List.take_succ_eq_append_getElem hi, specOwner_snoc]

/-- MAIN (overriding): a call of `m` on an instance of `Ci` runs the body of the most derived class of
`C0 <- … <- Ci` that declares `m` — an overriding method always wins over the inherited one, and a method that is
not re-declared is the ancestor's. -/
theorem override_wins (levels : List (String × List String))
    (hnd : (levels.map (·.1)).Nodup) (i : Nat) (hi : i < levels.length) (m : String) :
    dispatch (inheritedMethods (chainDecls levels none) (chainDecls (α := List String) levels none).length (levels[i]).1) m
      = specOwner (levels.take (i + 1)) m :=
  methods_chain levels hnd i hi _ (by rw [chainDecls_length]; exact hi) m

example : dispatch (inheritedMethods (chainDecls [("Animal", ["speak", "name"]), ("Dog", ["speak"])] none) 2 "Dog") "speak"
    = some "Dog" := by decide
example : dispatch (inheritedMethods (chainDecls [("Animal", ["speak", "name"]), ("Dog", ["speak"])] none) 2 "Dog") "name"
    = some "Animal" := by decide

/-! ### Leaf orderings are strict total orders consistent with equality -/

/-- Leaf ordering agrees with equality: two ints compare equal exactly when they are the same int. -/
theorem cmpInt_eq_iff (a b : Int) : cmpInt a b = .eq ↔ a = b := by
  unfold cmpInt
  by_cases h1 : a < b <;> by_cases h2 : b < a <;> simp [h1, h2] <;> omega

/-- `<` on ints is transitive under the derived ordering. -/
theorem cmpInt_lt_trans (a b c : Int) (h1 : cmpInt a b = .lt) (h2 : cmpInt b c = .lt) : cmpInt a c = .lt := by
  unfold cmpInt at *
  by_cases x : a < b <;> by_cases y : b < c <;> simp [x, y] at h1 h2
  · have : a < c := by omega
    simp [this]
  · split at h2 <;> simp at h2
  · split at h1 <;> simp at h1
  · split at h1 <;> simp at h1

/-- Strings compare equal exactly when they are the same code point sequence. -/
theorem cmpStr_eq_iff (a b : List Char) : cmpStr a b = .eq ↔ a = b := by
  induction a generalizing b with
  | nil => cases b <;> simp [cmpStr]
  | cons x xs ih =>
    cases b with
    | nil => simp [cmpStr]
    | cons y ys =>
      simp only [cmpStr]
      by_cases h1 : x.toNat < y.toNat
      · have : x ≠ y := by intro e; subst e; omega
        simp [h1, this]
      · by_cases h2 : x.toNat > y.toNat
        · have : x ≠ y := by intro e; subst e; omega
          simp [h1, h2, this]
        · have hn : x.toNat = y.toNat := by omega
          have hxy : x = y := Char.toNat_inj.mp hn
          subst hxy
          simp [ih ys]

/-- `<` on strings is transitive (lexicographic by code point). -/
theorem cmpStr_lt_trans (a b c : List Char) (h1 : cmpStr a b = .lt) (h2 : cmpStr b c = .lt) : cmpStr a c = .lt := by
  induction a generalizing b c with
  | nil =>
    cases b with
    | nil => simp [cmpStr] at h1
    | cons y ys => cases c with
      | nil => simp [cmpStr] at h2
      | cons z zs => simp [cmpStr]
  | cons x xs ih =>
    cases b with
    | nil => simp [cmpStr] at h1
    | cons y ys =>
      cases c with
      | nil => simp [cmpStr] at h2
      | cons z zs =>
        simp only [cmpStr] at h1 h2 ⊢
        by_cases p1 : x.toNat < y.toNat
        · by_cases p2 : y.toNat < z.toNat
          · have : x.toNat < z.toNat := by omega
            simp [this]
          · simp only [p2, if_false] at h2
            by_cases p3 : y.toNat > z.toNat
            · simp [p3] at h2
            · have : x.toNat < z.toNat := by omega
              simp [this]
        · simp only [p1, if_false] at h1
          by_cases p4 : x.toNat > y.toNat
          · simp [p4] at h1
          · simp only [p4, if_false] at h1
            by_cases p2 : y.toNat < z.toNat
            · have : x.toNat < z.toNat := by omega
              simp [this]
            · simp only [p2, if_false] at h2
              by_cases p3 : y.toNat > z.toNat
              · simp [p3] at h2
              · simp only [p3, if_false] at h2
                have q1 : ¬ x.toNat < z.toNat := by omega
                have q2 : ¬ x.toNat > z.toNat := by omega
                simp only [q1, q2, if_false]
                exact ih ys zs h1 h2

/-! ### Derived `Ord` is consistent with derived `Eq` -/

mutual
  /-- Field types for which `@derive(Ord)` compiles: no float and no dict anywhere inside. -/
  def ordTy : Ty → Bool
    | .int => true
    | .bool => true
    | .str => true
    | .float => false
    | .option t => ordTy t
    | .list t => ordTy t
    | .dict _ => false
    | .struct fts => ordFieldTys fts
  def ordFieldTys : List (List Char × Ty) → Bool
    | [] => true
    | (_, t) :: r => ordTy t && ordFieldTys r
end

mutual
  /-- Derived `Ord` is consistent with derived `Eq` at every depth: two values of one orderable type that compare
  `Equal` are the same value (so sorting and `BTreeMap` keys never conflate distinct values). -/
  theorem cmpV_eq_imp_eq (a b : Val) (t : Ty) (ha : hasTy a t = true) (hb : hasTy b t = true) (ho : ordTy t = true)
      (h : cmpV a b = .eq) : a = b := by
    match a, t with
    | .int x, .int => cases b <;> simp [hasTy] at hb; simp [cmpV] at h; rw [(cmpInt_eq_iff _ _).mp h]
    | .bool x, .bool =>
      cases b <;> simp [hasTy] at hb
      rename_i y
      simp only [cmpV] at h
      have := (cmpInt_eq_iff _ _).mp h
      cases x <;> cases y <;> simp at this ⊢
    | .str x, .str => cases b <;> simp [hasTy] at hb; simp [cmpV] at h; rw [(cmpStr_eq_iff _ _).mp h]
    | .float _, .float => simp [ordTy] at ho
    | .none_, .option u => cases b <;> simp [hasTy] at hb <;> simp [cmpV] at h ⊢
    | .some_ x, .option u =>
      cases b <;> simp [hasTy] at hb <;> simp [cmpV] at h
      rename_i y
      simp only [hasTy] at ha; simp only [ordTy] at ho
      rw [cmpV_eq_imp_eq x y u ha hb ho h]
    | .list xs, .list u =>
      cases b <;> simp [hasTy] at hb
      rename_i ys
      simp only [hasTy] at ha; simp only [ordTy] at ho; simp only [cmpV] at h
      rw [cmpList_eq_imp_eq xs ys u ha hb ho h]
    | .dict _, .dict u => simp [ordTy] at ho
    | .struct xs, .struct fts =>
      cases b <;> simp [hasTy] at hb
      rename_i ys
      simp only [hasTy] at ha; simp only [ordTy] at ho; simp only [cmpV] at h
      rw [cmpFields_eq_imp_eq xs ys fts ha hb ho h]
    | .int _, .bool | .int _, .str | .int _, .float | .int _, .option _ | .int _, .list _ | .int _, .dict _ | .int _, .struct _ => simp [hasTy] at ha
    | .bool _, .int | .bool _, .str | .bool _, .float | .bool _, .option _ | .bool _, .list _ | .bool _, .dict _ | .bool _, .struct _ => simp [hasTy] at ha
    | .str _, .int | .str _, .bool | .str _, .float | .str _, .option _ | .str _, .list _ | .str _, .dict _ | .str _, .struct _ => simp [hasTy] at ha
    | .float _, .int | .float _, .bool | .float _, .str | .float _, .option _ | .float _, .list _ | .float _, .dict _ | .float _, .struct _ => simp [hasTy] at ha
    | .none_, .int | .none_, .bool | .none_, .str | .none_, .float | .none_, .list _ | .none_, .dict _ | .none_, .struct _ => simp [hasTy] at ha
    | .some_ _, .int | .some_ _, .bool | .some_ _, .str | .some_ _, .float | .some_ _, .list _ | .some_ _, .dict _ | .some_ _, .struct _ => simp [hasTy] at ha
    | .list _, .int | .list _, .bool | .list _, .str | .list _, .float | .list _, .option _ | .list _, .dict _ | .list _, .struct _ => simp [hasTy] at ha
    | .dict _, .int | .dict _, .bool | .dict _, .str | .dict _, .float | .dict _, .option _ | .dict _, .list _ | .dict _, .struct _ => simp [hasTy] at ha
    | .struct _, .int | .struct _, .bool | .struct _, .str | .struct _, .float | .struct _, .option _ | .struct _, .list _ | .struct _, .dict _ => simp [hasTy] at ha
  theorem cmpList_eq_imp_eq (a b : List Val) (t : Ty) (ha : allHaveTy a t = true) (hb : allHaveTy b t = true)
      (ho : ordTy t = true) (h : cmpList a b = .eq) : a = b := by
    match a, b with
    | [], [] => rfl
    | [], _ :: _ => simp [cmpList] at h
    | _ :: _, [] => simp [cmpList] at h
    | x :: xs, y :: ys =>
      simp only [allHaveTy, Bool.and_eq_true] at ha hb
      simp only [cmpList] at h
      cases hc : cmpV x y <;> simp [hc] at h
      rw [cmpV_eq_imp_eq x y t ha.1 hb.1 ho hc, cmpList_eq_imp_eq xs ys t ha.2 hb.2 ho h]
  theorem cmpFields_eq_imp_eq (a b : List (List Char × Val)) (fts : List (List Char × Ty))
      (ha : fieldsHaveTy a fts = true) (hb : fieldsHaveTy b fts = true)
      (ho : ordFieldTys fts = true) (h : cmpFields a b = .eq) : a = b := by
    match a, b, fts with
    | [], [], _ => rfl
    | [], _ :: _, [] => simp [fieldsHaveTy] at hb
    | [], _ :: _, _ :: _ => simp [fieldsHaveTy] at ha
    | _ :: _, [], [] => simp [fieldsHaveTy] at ha
    | _ :: _, [], _ :: _ => simp [fieldsHaveTy] at hb
    | _ :: _, _ :: _, [] => simp [fieldsHaveTy] at ha
    | (k, x) :: xs, (l, y) :: ys, (g, t) :: r =>
      simp only [fieldsHaveTy, Bool.and_eq_true, beq_iff_eq] at ha hb
      simp only [ordFieldTys, Bool.and_eq_true] at ho
      simp only [cmpFields] at h
      cases hc : cmpV x y <;> simp [hc] at h
      rw [cmpV_eq_imp_eq x y t ha.1.2 hb.1.2 ho.1 hc, cmpFields_eq_imp_eq xs ys r ha.2 hb.2 ho.2 h, ha.1.1, hb.1.1]
end

/-- Non-vacuity: a nested orderable value meets the hypotheses. -/
example : hasTy (.struct [(['a'], .int 1), (['o'], .some_ (.str ['x'])), (['l'], .list [.bool true])])
    (.struct [(['a'], .int), (['o'], .option .str), (['l'], .list .bool)]) = true
  ∧ ordTy (.struct [(['a'], .int), (['o'], .option .str), (['l'], .list .bool)]) = true := by decide


/-! ### Derived `<` is transitive -/


mutual
  /-- Derived `<` is transitive at every depth on values of one orderable type (with `cmpV_swap` and
  `cmpV_eq_imp_eq`: a strict total order, which is what `sorted`, `min`/`max` and ordered containers need). -/
  theorem cmpV_lt_trans (a b c : Val) (t : Ty) (ha : hasTy a t = true) (hb : hasTy b t = true) (hc : hasTy c t = true)
      (ho : ordTy t = true) (h1 : cmpV a b = .lt) (h2 : cmpV b c = .lt) : cmpV a c = .lt := by
    match a, t with
    | .int x, .int =>
      cases b <;> simp [hasTy] at hb; cases c <;> simp [hasTy] at hc
      simp only [cmpV] at *; exact cmpInt_lt_trans _ _ _ h1 h2
    | .bool x, .bool =>
      cases b <;> simp [hasTy] at hb; cases c <;> simp [hasTy] at hc
      simp only [cmpV] at *; exact cmpInt_lt_trans _ _ _ h1 h2
    | .str x, .str =>
      cases b <;> simp [hasTy] at hb; cases c <;> simp [hasTy] at hc
      simp only [cmpV] at *; exact cmpStr_lt_trans _ _ _ h1 h2
    | .float _, .float => simp [ordTy] at ho
    | .none_, .option u =>
      cases b <;> simp [hasTy] at hb <;> simp [cmpV] at h1
      cases c <;> simp [hasTy] at hc <;> simp [cmpV] at h2 ⊢
    | .some_ x, .option u =>
      cases b <;> simp [hasTy] at hb <;> simp [cmpV] at h1
      rename_i y
      cases c <;> simp [hasTy] at hc <;> simp [cmpV] at h2 ⊢
      rename_i z
      simp only [hasTy] at ha; simp only [ordTy] at ho
      exact cmpV_lt_trans x y z u ha hb hc ho h1 h2
    | .list xs, .list u =>
      cases b <;> simp [hasTy] at hb
      cases c <;> simp [hasTy] at hc
      simp only [hasTy] at ha; simp only [ordTy] at ho; simp only [cmpV] at *
      exact cmpList_lt_trans _ _ _ u ha hb hc ho h1 h2
    | .dict _, .dict u => simp [ordTy] at ho
    | .struct xs, .struct fts =>
      cases b <;> simp [hasTy] at hb
      cases c <;> simp [hasTy] at hc
      simp only [hasTy] at ha; simp only [ordTy] at ho; simp only [cmpV] at *
      exact cmpFields_lt_trans _ _ _ fts ha hb hc ho h1 h2
    | .int _, .bool | .int _, .str | .int _, .float | .int _, .option _ | .int _, .list _ | .int _, .dict _ | .int _, .struct _ => simp [hasTy] at ha
    | .bool _, .int | .bool _, .str | .bool _, .float | .bool _, .option _ | .bool _, .list _ | .bool _, .dict _ | .bool _, .struct _ => simp [hasTy] at ha
    | .str _, .int | .str _, .bool | .str _, .float | .str _, .option _ | .str _, .list _ | .str _, .dict _ | .str _, .struct _ => simp [hasTy] at ha
    | .float _, .int | .float _, .bool | .float _, .str | .float _, .option _ | .float _, .list _ | .float _, .dict _ | .float _, .struct _ => simp [hasTy] at ha
    | .none_, .int | .none_, .bool | .none_, .str | .none_, .float | .none_, .list _ | .none_, .dict _ | .none_, .struct _ => simp [hasTy] at ha
    | .some_ _, .int | .some_ _, .bool | .some_ _, .str | .some_ _, .float | .some_ _, .list _ | .some_ _, .dict _ | .some_ _, .struct _ => simp [hasTy] at ha
    | .list _, .int | .list _, .bool | .list _, .str | .list _, .float | .list _, .option _ | .list _, .dict _ | .list _, .struct _ => simp [hasTy] at ha
    | .dict _, .int | .dict _, .bool | .dict _, .str | .dict _, .float | .dict _, .option _ | .dict _, .list _ | .dict _, .struct _ => simp [hasTy] at ha
    | .struct _, .int | .struct _, .bool | .struct _, .str | .struct _, .float | .struct _, .option _ | .struct _, .list _ | .struct _, .dict _ => simp [hasTy] at ha
  theorem cmpList_lt_trans (a b c : List Val) (t : Ty) (ha : allHaveTy a t = true) (hb : allHaveTy b t = true)
      (hc : allHaveTy c t = true) (ho : ordTy t = true) (h1 : cmpList a b = .lt) (h2 : cmpList b c = .lt) :
      cmpList a c = .lt := by
    match a, b, c with
    | _, [], [] => simp [cmpList] at h2
    | [], [], _ :: _ => simp [cmpList] at h1
    | _ :: _, [], _ => simp [cmpList] at h1
    | _, _ :: _, [] => simp [cmpList] at h2
    | [], _ :: _, _ :: _ => simp [cmpList]
    | x :: xs, y :: ys, z :: zs =>
      simp only [allHaveTy, Bool.and_eq_true] at ha hb hc
      simp only [cmpList] at h1 h2 ⊢
      cases e1 : cmpV x y with
      | gt => simp [e1] at h1
      | eq =>
        have := cmpV_eq_imp_eq x y t ha.1 hb.1 ho e1
        subst this
        simp only [e1] at h1
        cases e2 : cmpV x z with
        | gt => simp [e2] at h2
        | lt => rfl
        | eq => simp only [e2] at h2 ⊢; exact cmpList_lt_trans xs ys zs t ha.2 hb.2 hc.2 ho h1 h2
      | lt =>
        cases e2 : cmpV y z with
        | gt => simp [e2] at h2
        | lt => rw [cmpV_lt_trans x y z t ha.1 hb.1 hc.1 ho e1 e2]
        | eq =>
          have := cmpV_eq_imp_eq y z t hb.1 hc.1 ho e2
          subst this
          rw [e1]
  theorem cmpFields_lt_trans (a b c : List (List Char × Val)) (fts : List (List Char × Ty))
      (ha : fieldsHaveTy a fts = true) (hb : fieldsHaveTy b fts = true) (hc : fieldsHaveTy c fts = true)
      (ho : ordFieldTys fts = true) (h1 : cmpFields a b = .lt) (h2 : cmpFields b c = .lt) :
      cmpFields a c = .lt := by
    match a, b, c, fts with
    | _, [], [], _ => simp [cmpFields] at h2
    | [], [], _ :: _, _ => simp [cmpFields] at h1
    | _ :: _, [], _, _ => simp [cmpFields] at h1
    | _, _ :: _, [], _ => simp [cmpFields] at h2
    | [], _ :: _, _ :: _, _ => simp [cmpFields]
    | _ :: _, _ :: _, _ :: _, [] => simp [fieldsHaveTy] at ha
    | (k, x) :: xs, (l, y) :: ys, (m, z) :: zs, (g, t) :: r =>
      simp only [fieldsHaveTy, Bool.and_eq_true, beq_iff_eq] at ha hb hc
      simp only [ordFieldTys, Bool.and_eq_true] at ho
      simp only [cmpFields] at h1 h2 ⊢
      cases e1 : cmpV x y with
      | gt => simp [e1] at h1
      | eq =>
        have := cmpV_eq_imp_eq x y t ha.1.2 hb.1.2 ho.1 e1
        subst this
        simp only [e1] at h1
        cases e2 : cmpV x z with
        | gt => simp [e2] at h2
        | lt => rfl
        | eq => simp only [e2] at h2 ⊢; exact cmpFields_lt_trans xs ys zs r ha.2 hb.2 hc.2 ho.2 h1 h2
      | lt =>
        cases e2 : cmpV y z with
        | gt => simp [e2] at h2
        | lt => rw [cmpV_lt_trans x y z t ha.1.2 hb.1.2 hc.1.2 ho.1 e1 e2]
        | eq =>
          have := cmpV_eq_imp_eq y z t hb.1.2 hc.1.2 ho.1 e2
          subst this
          rw [e1]
end

/-- Non-vacuity: three nested values of one orderable type in strictly increasing order. -/
example : cmpV (.struct [(['a'], .int 1), (['o'], .none_)]) (.struct [(['a'], .int 1), (['o'], .some_ (.str ['x']))]) = .lt
  ∧ cmpV (.struct [(['a'], .int 1), (['o'], .some_ (.str ['x']))]) (.struct [(['a'], .int 2), (['o'], .none_)]) = .lt := by decide

/-! ### Corollaries: trichotomy, `>` transitive, hashing agrees with ordering -/

/-- `>` is transitive too (by `cmpV_swap`). -/
theorem cmpV_gt_trans (a b c : Val) (t : Ty) (ha : hasTy a t = true) (hb : hasTy b t = true) (hc : hasTy c t = true)
    (ho : ordTy t = true) (h1 : cmpV a b = .gt) (h2 : cmpV b c = .gt) : cmpV a c = .gt :=
  (lt_iff_gt c a).mp (cmpV_lt_trans c b a t hc hb ha ho ((lt_iff_gt c b).mpr h2) ((lt_iff_gt b a).mpr h1))

/-- Trichotomy: exactly one of `a < b`, `a == b`, `a > b` holds for values of one orderable type. -/
theorem cmpV_trichotomy (a b : Val) (t : Ty) (ha : hasTy a t = true) (hb : hasTy b t = true) (ho : ordTy t = true) :
    (cmpV a b = .lt ∧ a ≠ b) ∨ (cmpV a b = .eq ∧ a = b) ∨ (cmpV a b = .gt ∧ a ≠ b) := by
  cases h : cmpV a b with
  | lt => left; refine ⟨rfl, ?_⟩; intro e; subst e; rw [cmpV_refl_of_eq] at h; cases h
  | eq => right; left; exact ⟨rfl, cmpV_eq_imp_eq a b t ha hb ho h⟩
  | gt => right; right; refine ⟨rfl, ?_⟩; intro e; subst e; rw [cmpV_refl_of_eq] at h; cases h

/-- Values that compare `Equal` hash equally (ordered and hashed containers agree on which keys are the same). -/
theorem ord_eq_hash_eq (a b : Val) (t : Ty) (ha : hasTy a t = true) (hb : hasTy b t = true) (ho : ordTy t = true)
    (h : cmpV a b = .eq) : hashInput a = hashInput b := by
  rw [cmpV_eq_imp_eq a b t ha hb ho h]

/-- The six comparison operators are determined by `cmpV`, so `a <= b` iff `not (a > b)` and `a < b or a == b`. -/
theorem le_iff_lt_or_eq (a b : Val) (t : Ty) (ha : hasTy a t = true) (hb : hasTy b t = true) (ho : ordTy t = true) :
    cmpV a b ≠ .gt ↔ (cmpV a b = .lt ∨ a = b) := by
  constructor
  · intro h
    cases e : cmpV a b with
    | lt => exact Or.inl rfl
    | eq => exact Or.inr (cmpV_eq_imp_eq a b t ha hb ho e)
    | gt => exact absurd e h
  · rintro (h | h)
    · simp [h]
    · subst h; simp [cmpV_refl_of_eq]

end Incan.Derive
