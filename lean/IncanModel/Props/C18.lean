import IncanModel.Lemmas.Lsp
/-
C18 — The language server always converges to the latest document text.

`converges`: for every history of didOpen/didChange/didClose notifications over any number of documents
and **every** interleaving of the handlers' store steps (any order, any delay — each handler only has to
start in arrival order and store after it started), once all handlers have finished the stored text of
each document is the payload of the last notification sent for it, and nothing after a close.
-/
namespace Incan.Lsp

theorem converges (h : List Note) (sched : List Step) (hv : Valid h sched) (u : Nat) :
    (runNew h sched).docs u = expected h u :=
  converge_go h sched 0 [] St.init (inv_init h) hv u

/-- A handler whose ticket has been superseded never writes: after any valid schedule prefix the
stored payload of a document whose latest handler has finished is already final (the invariant used
for `converges`, exposed for the case "the newest analysis finished first"). -/
theorem stale_store_is_noop (h : List Note) (s : St) (i : Nat) (n : Note) (p : Nat) (b : Bool)
    (hi : h[i]? = some n) (hk : n.kind = .update p b) (hstale : s.latest n.uri ≠ some i) :
    execNew h s (.store i) = s := by
  simp [execNew, hi, hk, hstale]

/-! ### The protocol before the fix did not converge (kept as kernel-checked counter-examples) -/

/-- open v1; change v2 (slow: it waits on the client channel); change v3 — v2 stores last. -/
def overtakeHistory : List Note :=
  [⟨0, .update 1 true⟩, ⟨0, .update 2 true⟩, ⟨0, .update 3 true⟩]
def overtakeSchedule : List Step :=
  [.recv 0, .store 0, .recv 1, .recv 2, .store 2, .store 1]

theorem old_protocol_stale_overwrite :
    Valid overtakeHistory overtakeSchedule ∧
    (runOld overtakeHistory overtakeSchedule).docs 0 = some 2 ∧ expected overtakeHistory 0 = some 3 := by
  decide

/-- The same schedule under the fixed protocol. -/
example : (runNew overtakeHistory overtakeSchedule).docs 0 = some 3 := by decide

/-- A close overtaken by an analysis still in flight resurrected the document. -/
theorem old_protocol_close_undone :
    Valid [⟨0, .update 1 true⟩, ⟨0, .close⟩] [.recv 0, .recv 1, .store 1, .store 0] ∧
    (runOld [⟨0, .update 1 true⟩, ⟨0, .close⟩] [.recv 0, .recv 1, .store 1, .store 0]).docs 0 = some 1 := by
  decide

/-- Even sequentially: a newest version with a syntax error was never stored. -/
theorem old_protocol_broken_text_not_stored :
    (runOld [⟨0, .update 1 true⟩, ⟨0, .update 2 false⟩] [.recv 0, .store 0, .recv 1, .store 1]).docs 0 = some 1 := by
  decide

/-- Non-vacuity: a valid interleaved schedule over two documents. -/
example : Valid [⟨0, .update 1 true⟩, ⟨1, .update 2 true⟩, ⟨0, .close⟩, ⟨1, .update 4 false⟩]
    [.recv 0, .recv 1, .store 1, .recv 2, .recv 3, .store 3, .store 0, .store 2] := by decide

/-! ### Saves.  The server has no `didSave` handler: a save is not part of the history and changes nothing.  A handler
that re-analyses the *stored* text under a fresh ticket (seed C18-6) and a per-document ticket counter that restarts
after a close (seed C18-5) both break convergence; the witnesses below are kernel-checked. -/

inductive NoteS where
  | update (p : Nat)
  | save
  deriving DecidableEq, Repr

structure StS where
  latest : Option Nat := none
  doc : Option Nat := none
  read : Nat → Option Nat := fun _ => none

/-- One document; a save handler reads the stored payload when it starts, takes a ticket, and stores what it read. -/
def execSave (h : List NoteS) (s : StS) : Step → StS
  | .recv i =>
    match h[i]? with
    | some (.update _) => { s with latest := some i }
    | some .save => { s with latest := some i, read := upd s.read i s.doc }
    | none => s
  | .store i =>
    match h[i]? with
    | some (.update p) => if s.latest = some i then { s with doc := some p } else s
    | some .save => if s.latest = some i then { s with doc := s.read i } else s
    | none => s

theorem save_with_ticket_loses_newer_version :
    (([Step.recv 0, .store 0, .recv 1, .recv 2, .store 1, .store 2] : List Step).foldl
      (execSave [.update 1, .update 2, .save]) {}).doc = some 1 := by
  decide

/-- Tickets numbered per document from 0 again after a close: the analysis of the first open (ticket 0, still in
flight) passes the guard of the re-opened document (ticket 0 again) and overwrites its text. -/
def execPerDoc (tickets : List Nat) (h : List Note) (s : St) : Step → St
  | .recv i =>
    match h[i]?, tickets[i]? with
    | some n, some t =>
      (match n.kind with
      | .update _ _ => { s with latest := upd s.latest n.uri (some t) }
      | .close => { s with latest := upd s.latest n.uri none })
    | _, _ => s
  | .store i =>
    match h[i]?, tickets[i]? with
    | some n, some t =>
      (match n.kind with
      | .update p _ => if s.latest n.uri = some t then { s with docs := upd s.docs n.uri (some p) } else s
      | .close => if s.latest n.uri = none then { s with docs := upd s.docs n.uri none } else s)
    | _, _ => s

theorem per_document_tickets_resurrect_old_text :
    let h : List Note := [⟨0, .update 1 true⟩, ⟨0, .close⟩, ⟨0, .update 3 false⟩]
    let sched : List Step := [.recv 0, .recv 1, .store 1, .recv 2, .store 2, .store 0]
    Valid h sched ∧ (sched.foldl (execPerDoc [0, 0, 0] h) St.init).docs 0 = some 1 ∧ expected h 0 = some 3
      ∧ (runNew h sched).docs 0 = some 3 := by
  decide

/-- Dependencies: an importer is analysed against the latest text of an open dependency; the file on disk only
matters while the dependency is closed.  Two configurations with the same editor text give the same analysis,
whatever `analyse` is. -/
theorem open_dependency_overrides_disk {α : Type} (analyse : String → String → α) (importer t d₁ d₂ : String) :
    analyse importer (effectiveText (some t) d₁) = analyse importer (effectiveText (some t) d₂) := rfl

theorem closed_dependency_reads_disk (d : String) : effectiveText none d = d := rfl

/-! ### Schedule independence; every history has a valid (sequential) schedule -/

/-- Schedule independence: whatever order and delay the handlers' store steps run in, the final document
store is the same function of the notification history alone. -/
theorem schedule_independent (h : List Note) (s₁ s₂ : List Step) (h1 : Valid h s₁) (h2 : Valid h s₂) :
    (runNew h s₁).docs = (runNew h s₂).docs := by
  funext u
  rw [converges h s₁ h1 u, converges h s₂ h2 u]

/-- In particular the concurrent server agrees with a sequential one (each handler stores before the next
notification is received), for any schedule that is valid for the same history. -/
theorem agrees_with_any_reference_run (h : List Note) (ref sched : List Step) (hr : Valid h ref)
    (hv : Valid h sched) (u : Nat) : (runNew h sched).docs u = (runNew h ref).docs u := by
  rw [schedule_independent h sched ref hv hr]

/-- The sequential schedule: every handler stores before the next notification is received. -/
def seqFrom (k : Nat) : Nat → List Step
  | 0 => []
  | m + 1 => .recv k :: .store k :: seqFrom (k + 1) m

theorem validGo_seq (n k m : Nat) (h : k + m = n) : validGo n (seqFrom k m) k [] = true := by
  induction m generalizing k with
  | zero => simp [seqFrom, validGo]; omega
  | succ m ih =>
    have hk : k < n := by omega
    simp [seqFrom, validGo, hk]
    exact ih (k + 1) (by omega)

/-- Every history has a valid schedule (so `converges` and `schedule_independent` are never vacuous), and every
valid schedule ends in the state the sequential server reaches. -/
theorem sequential_is_valid (h : List Note) : Valid h (seqFrom 0 h.length) :=
  validGo_seq h.length 0 h.length (by omega)

theorem agrees_with_sequential (h : List Note) (sched : List Step) (hv : Valid h sched) :
    (runNew h sched).docs = (runNew h (seqFrom 0 h.length)).docs :=
  schedule_independent h sched _ hv (sequential_is_valid h)


end Incan.Lsp
