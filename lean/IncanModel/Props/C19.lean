import IncanModel.Lemmas.Pos
/-
C19 — Editor positions and byte offsets convert consistently.

A character-boundary offset of `doc` is `utf8Len pre` for a split `doc = pre ++ post`; every theorem
quantifies over all documents (no length bound) and all such splits / all raw offsets.
-/
namespace Incan.Pos

/-- offset -> position -> offset is the identity on every character boundary (including end of file). -/
theorem roundtrip (pre post : List Char) :
    positionToOffset (pre ++ post) (offsetToPosition (pre ++ post) (utf8Len pre)) = some (utf8Len pre) := by
  rw [offsetToPosition_boundary]
  unfold positionToOffset posOf
  have := p2oGo_boundary pre post 0 0 0 0 (fun _ _ => rfl)
  simpa using this

/-- Positions are strictly monotone in boundary offsets. -/
theorem strict_mono (pre mid post : List Char) (h : mid ≠ []) :
    Position.lt (offsetToPosition (pre ++ mid ++ post) (utf8Len pre))
                (offsetToPosition (pre ++ mid ++ post) (utf8Len (pre ++ mid))) := by
  have h1 : offsetToPosition (pre ++ mid ++ post) (utf8Len pre) = posOf pre := by
    rw [List.append_assoc]; exact offsetToPosition_boundary pre (mid ++ post)
  rw [h1, offsetToPosition_boundary]
  cases mid with
  | nil => exact absurd rfl h
  | cons c cs =>
    unfold posOf
    rw [posFrom_append]
    exact posFrom_lt _ c cs

/-- `line` counts the newlines before the offset; `character` counts the characters after the last one. -/
theorem agrees_with_counting (pre post : List Char) :
    offsetToPosition (pre ++ post) (utf8Len pre) = (pre.count '\n', (lastLine pre).length) := by
  rw [offsetToPosition_boundary]
  have h1 := posFrom_count (0, 0) pre
  have h2 := posOf_col pre
  unfold posOf at *
  rw [Prod.ext_iff]; simp only; omega

/-- Ranges are well-formed for **every** pair of raw offsets: empty, reversed, past the end, or
inside a multi-byte character. -/
theorem range_wellformed (doc : List Char) (start stop : Nat) :
    Position.le (spanToRange doc start stop).start (spanToRange doc start stop).stop ∧
    Position.le (spanToRange doc start stop).stop (offsetToPosition doc (utf8Len doc)) := by
  unfold spanToRange
  refine ⟨offsetToPosition_mono doc _ _ (by omega), ?_⟩
  have hend : offsetToPosition doc (utf8Len doc) = posOf doc := by
    have := offsetToPosition_boundary doc []
    simpa using this
  rw [hend]
  exact offsetToPosition_le_end doc _

/-- Offsets past the end clamp to the end position. -/
theorem past_end_clamps (doc : List Char) (o : Nat) (h : utf8Len doc ≤ o) :
    offsetToPosition doc o = offsetToPosition doc (utf8Len doc) := by
  unfold offsetToPosition
  rw [Nat.min_eq_right h, Nat.min_self]

/-- Terminal line number = editor line + 1, for every raw offset. -/
theorem terminal_line_agrees (doc : List Char) (o : Nat) :
    (getLineInfo doc o).1 = (offsetToPosition doc o).1 + 1 := by
  unfold getLineInfo offsetToPosition
  simp only
  rw [o2pGo_eq, posFrom_count]
  have := gliGo_line doc 0 (min o (utf8Len doc)) 1 0 doc
  generalize gliGo doc 0 (min o (utf8Len doc)) 1 0 doc = r at *
  obtain ⟨a, b, c⟩ := r
  simp only at this ⊢
  omega

theorem charsBefore_prefix (a b : List Char) (pos : Nat) :
    charsBefore (a ++ b) pos (pos + utf8Len a) = a.length := by
  induction a generalizing pos with
  | nil =>
    cases b with
    | nil => simp [charsBefore]
    | cons c cs => simp [charsBefore, utf8Len]
  | cons c cs ih =>
    have hpos := utf8Size_pos c
    simp only [List.cons_append, charsBefore, utf8Len]
    rw [if_pos (by omega)]
    have := ih (pos + c.utf8Size)
    have e : pos + c.utf8Size + utf8Len cs = pos + (c.utf8Size + utf8Len cs) := by omega
    rw [e] at this
    rw [this]; simp; omega

/-- Terminal column is the **character** length of the line prefix + 1, and the reported text is the line. -/
theorem terminal_col_chars (pre post : List Char) :
    (getLineInfo (pre ++ post) (utf8Len pre)).2.1 = (lastLine pre).length + 1 ∧
    (getLineInfo (pre ++ post) (utf8Len pre)).2.2 = lastLine pre ++ post.takeWhile (· ≠ '\n') := by
  unfold getLineInfo
  rw [utf8Len_append, Nat.min_eq_left (by omega)]
  obtain ⟨ls', h1, h2⟩ := gliGo_boundary pre post [] 0 1 0 (by simp [utf8Len])
  simp only [Nat.zero_add, List.nil_append] at h1 h2
  simp only [h1]
  have htext : (lastLine pre ++ post).takeWhile (· ≠ '\n') = lastLine pre ++ post.takeWhile (· ≠ '\n') := by
    apply takeWhile_append_of_all
    intro x hx
    have := (lastLine_spec pre).1
    simp only [decide_eq_true_eq, ne_eq]
    intro e; subst e; exact this hx
  have hll : lastLineFrom [] pre = lastLine pre := rfl
  rw [hll] at h2 ⊢
  refine ⟨?_, htext⟩
  rw [htext, ← h2, charsBefore_prefix]

/-- MAIN (terminal column): for every document and every character-boundary offset, the column printed in
`file:line:col` is the editor character + 1 — it agrees with counting characters (not bytes). -/
theorem terminal_col_agrees (pre post : List Char) :
    (getLineInfo (pre ++ post) (utf8Len pre)).2.1 = (offsetToPosition (pre ++ post) (utf8Len pre)).2 + 1 := by
  rw [(terminal_col_chars pre post).1, agrees_with_counting]

/-- Before the fix the column was a byte count: after `é` it was 3 where the editor character is 1. -/
theorem old_terminal_col_counted_bytes :
    (getLineInfoBytes ['é', 'x'] 2).2.1 = 3 ∧ (offsetToPosition ['é', 'x'] 2).2 + 1 = 2 ∧
    (getLineInfo ['é', 'x'] 2).2.1 = 2 := by decide

/-! Non-vacuity / concrete instances. -/
example : offsetToPosition "a\né😀b".toList 7 = (1, 2) := by decide
example : positionToOffset "a\né😀b".toList (1, 2) = some 8 := by decide
example : spanToRange "ab".toList 5 1 = { start := (0, 2), stop := (0, 2) } := by decide

/-! ### Injectivity, position → offset stays inside the document, degenerate spans -/

/-- Two different character boundaries never share a position (offset → position is injective on boundaries). -/
theorem boundary_injective (pre mid post : List Char)
    (h : offsetToPosition (pre ++ mid ++ post) (utf8Len pre) = offsetToPosition (pre ++ mid ++ post) (utf8Len (pre ++ mid))) :
    mid = [] := by
  by_cases hm : mid = []
  · exact hm
  · exact absurd h (Position.ne_of_lt (strict_mono pre mid post hm))

theorem p2oGo_bound (cs : List Char) (i line col off : Nat) (pos : Position) (o : Nat)
    (hoff : off ≤ i) (h : p2oGo cs i line col off pos = some o) : o ≤ i + utf8Len cs := by
  induction cs generalizing i line col off with
  | nil =>
    simp only [p2oGo] at h
    split at h
    · injection h with h; simp [utf8Len]; omega
    · cases h
  | cons c cs ih =>
    simp only [p2oGo] at h
    simp only [utf8Len]
    split at h
    · injection h with h; omega
    · split at h
      · split at h
        · injection h with h; omega
        · have := ih _ _ _ _ (Nat.le_refl _) h; omega
      · have := ih _ _ _ _ (Nat.le_refl _) h; omega

/-- position → offset never leaves the document: for **every** position (valid or not) and every document, an
answer is a byte offset inside `0 ..= len`. -/
theorem positionToOffset_in_doc (doc : List Char) (pos : Position) (o : Nat)
    (h : positionToOffset doc pos = some o) : o ≤ utf8Len doc := by
  have := p2oGo_bound doc 0 0 0 0 pos o (Nat.le_refl _) h
  simpa using this

/-- An empty or reversed span still yields the range of one character (or the end position): start and stop are
positions of offsets `start` and `start + 1`. -/
theorem degenerate_span_range (doc : List Char) (start stop : Nat) (h : stop ≤ start) :
    spanToRange doc start stop = spanToRange doc start (start + 1) := by
  unfold spanToRange
  have : max stop (start + 1) = start + 1 := by omega
  simp [this]

example : positionToOffset "aé\nb".toList (1, 1) = some 5 ∧ positionToOffset "aé\nb".toList (0, 99) = some 3 := by decide


end Incan.Pos
