import IncanModel.Lemmas.Pos
import IncanModel.Props.C19
import IncanModel.Syntax.Layout
/-
C11 — The front end is total and its diagnostics are well-formed (the part a theorem can carry).

Proved here, for **every** document and **every** raw span/offset (inside or outside the file, on or
off a character boundary):
  * terminal rendering (`format_error` / `get_line_info`): the two places where the Rust code slices
    the source by byte offset (`source[line_start..]`, `source[line_start..line_end]`) are always on
    character boundaries of the source, `col_num - 1` never underflows, and the reported line exists;
  * editor rendering (`span_to_range`): re-exported from C19 — the range is ordered and inside the document;
  * the layout layer of the lexer is a total function (a left fold; Lean accepted the definition by
    structural recursion) that always ends the stream with EOF after closing every open block.
Everything else the property covers (token scanners, parser, type checker, formatter, emitter) has no
model here and is decided by the oracle stream of the check (fuzzing under catch_unwind + watchdog).
-/
namespace Incan.Pos

/-- Loop invariant of `get_line_info`: `line_start` is the byte length of a character prefix `pre`
of the document and `rest` is the corresponding suffix. -/
theorem gliGo_inv (doc : List Char) (off : Nat) (rem consumed mid pre : List Char) (ln : Nat)
    (hdoc : doc = consumed ++ rem) (hcons : consumed = pre ++ mid) :
    ∃ pre', doc = pre' ++ (gliGo rem (utf8Len consumed) off ln (utf8Len pre) (mid ++ rem)).2.2 ∧
      (gliGo rem (utf8Len consumed) off ln (utf8Len pre) (mid ++ rem)).2.1 = utf8Len pre' ∧
      (gliGo rem (utf8Len consumed) off ln (utf8Len pre) (mid ++ rem)).2.1 ≤ max (utf8Len pre) off := by
  induction rem generalizing consumed mid pre ln with
  | nil =>
    refine ⟨pre, ?_, rfl, by simp [gliGo]; omega⟩
    simp [gliGo, hdoc, hcons]
  | cons c cs ih =>
    simp only [gliGo]
    by_cases h : utf8Len consumed ≥ off
    · simp only [h, if_true]
      exact ⟨pre, by simp [hdoc, hcons], rfl, by omega⟩
    · simp only [h, if_false]
      by_cases hc : c = '\n'
      · subst hc
        simp only [if_true]
        have e1 : utf8Len consumed + ('\n' : Char).utf8Size = utf8Len (consumed ++ ['\n']) := by
          rw [utf8Len_append]; simp [utf8Len]
        have e2 : utf8Len consumed + 1 = utf8Len (consumed ++ ['\n']) := by
          rw [utf8Len_append]; simp [utf8Len, newline_size]
        rw [e1, e2]
        have := ih (consumed ++ ['\n']) [] (consumed ++ ['\n']) (ln + 1) (by simp [hdoc]) (by simp)
        simp only [List.nil_append] at this
        obtain ⟨pre', h1, h2, h3⟩ := this
        refine ⟨pre', h1, h2, ?_⟩
        omega
      · simp only [hc, if_false]
        have e1 : utf8Len consumed + c.utf8Size = utf8Len (consumed ++ [c]) := by
          rw [utf8Len_append]; simp [utf8Len]
        rw [e1]
        have e2 : mid ++ c :: cs = (mid ++ [c]) ++ cs := by simp
        rw [e2]
        exact ih (consumed ++ [c]) (mid ++ [c]) pre ln (by simp [hdoc]) (by simp [hcons])

/-- **Terminal rendering never slices off a boundary and never underflows**, for every document and
every raw offset: `line_start` is the byte length of a character prefix of the source (so
`source[line_start..]` is a valid slice and equals the model's `rest`), and `line_start ≤ min(offset, len)`
so `col_num = offset - line_start + 1 ≥ 1` and `" ".repeat(col_num - 1)` cannot underflow. -/
theorem getLineInfo_total (doc : List Char) (offset : Nat) :
    (∃ pre', doc = pre' ++ (gliGo doc 0 (min offset (utf8Len doc)) 1 0 doc).2.2 ∧
       (gliGo doc 0 (min offset (utf8Len doc)) 1 0 doc).2.1 = utf8Len pre') ∧
    (gliGo doc 0 (min offset (utf8Len doc)) 1 0 doc).2.1 ≤ min offset (utf8Len doc) ∧
    1 ≤ (getLineInfo doc offset).2.1 := by
  have := gliGo_inv doc (min offset (utf8Len doc)) doc [] [] [] 1 (by simp) (by simp)
  simp only [utf8Len, List.nil_append] at this
  obtain ⟨pre', h1, h2, h3⟩ := this
  refine ⟨⟨pre', h1, h2⟩, by omega, ?_⟩
  unfold getLineInfo
  simp only
  omega

/-- The line text handed to the renderer contains no newline (one physical line). -/
theorem not_mem_takeWhile_ne (l : List Char) : '\n' ∉ l.takeWhile (· ≠ '\n') := by
  induction l with
  | nil => simp
  | cons c cs ih =>
    by_cases hc : c = '\n'
    · simp [List.takeWhile, hc]
    · simp only [List.takeWhile, ne_eq, hc, not_false_eq_true, decide_true]
      intro h
      rcases List.mem_cons.1 h with h | h
      · exact hc h.symm
      · exact ih h

theorem getLineInfo_one_line (doc : List Char) (offset : Nat) :
    '\n' ∉ (getLineInfo doc offset).2.2 := by
  unfold getLineInfo
  simp only
  exact not_mem_takeWhile_ne _

end Incan.Pos

namespace Incan.Layout

/-- The layout layer always terminates its output with EOF, whatever the input. -/
theorem lex_ends_with_eof (items : List Item) : (lex items).getLast? = some Tok.eof := by
  unfold lex tokens finish
  simp

/-- Every block opened by an INDENT is closed before EOF: the stream's INDENTs and DEDENTs balance
whenever the lexer reports no inconsistent dedent. (Stated on stage 2 for all event lists.) -/
theorem popTo_count (n : Nat) (st : List Nat) (h : st ≠ []) :
    (popTo n st).1.length + (popTo n st).2 = st.length ∨ (popTo n st).1 = [0] := by
  induction st with
  | nil => exact absurd rfl h
  | cons top rest ih =>
    unfold popTo
    by_cases hn : n ≥ top
    · simp [hn]
    · simp only [hn, if_false]
      cases rest with
      | nil => right; rfl
      | cons r rs =>
        simp only
        rcases ih (by simp) with h1 | h1
        · left; simp only [List.length_cons] at h1 ⊢; omega
        · right; exact h1

/-! ### INDENT / DEDENT balance for every input -/

theorem popTo_spec (n : Nat) (st : List Nat) (h : st.getLast? = some 0) :
    (popTo n st).1.getLast? = some 0 ∧ (popTo n st).1.length + (popTo n st).2 = st.length := by
  induction st with
  | nil => simp at h
  | cons top rest ih =>
    unfold popTo
    by_cases hn : n ≥ top
    · simp [hn, h]
    · simp only [hn, if_false]
      cases rest with
      | nil =>
        simp at h; omega
      | cons r rs =>
        have h' : (r :: rs).getLast? = some 0 := by simpa [List.getLast?_cons_cons] using h
        have := ih h'
        simp only [List.length_cons] at this ⊢
        exact ⟨this.1, by omega⟩

/-- Invariant of the indentation stack: bottom level is column 0 and every open block is on it. -/
def Bal (s : S2) : Prop :=
  s.stack.getLast? = some 0 ∧ s.stack.length + s.out.count .dedent = 1 + s.out.count .indent

theorem bal_init : Bal S2.init := by simp [Bal, S2.init]

theorem bal_step (s : S2) (e : Event) (h : Bal s) : Bal (step2 s e) := by
  obtain ⟨h1, h2⟩ := h
  cases e with
  | lineStart n =>
    simp only [step2]
    by_cases hgt : n > s.stack.headD 0
    · simp only [hgt, if_true, Bal]
      constructor
      · cases hs : s.stack with
        | nil => simp [hs] at h1
        | cons a as => rw [hs] at h1; simpa [List.getLast?_cons_cons] using h1
      · simp [List.count_append]; omega
    · simp only [hgt, if_false]
      by_cases hlt : n < s.stack.headD 0
      · simp only [hlt, if_true]
        have sp := popTo_spec n s.stack h1
        generalize popTo n s.stack = r at sp ⊢
        obtain ⟨st, c⟩ := r
        simp only at sp ⊢
        refine ⟨sp.1, ?_⟩
        simp only [List.count_append, List.count_replicate]
        split <;> simp <;> omega
      · simp only [hlt, if_false]; exact ⟨h1, h2⟩
  | tok id => simp only [step2, Bal]; refine ⟨h1, ?_⟩; simp [List.count_append]; omega
  | newline => simp only [step2, Bal]; refine ⟨h1, ?_⟩; simp [List.count_append]; omega
  | bad => simp only [step2, Bal]; refine ⟨h1, ?_⟩; simp [List.count_append]; omega

theorem bal_run (s : S2) (evs : List Event) (h : Bal s) : Bal (run2 s evs) := by
  unfold run2
  induction evs generalizing s with
  | nil => exact h
  | cons e es ih => exact ih _ (bal_step s e h)

/-- Blocks always balance: for **every** input the token stream handed to the parser has exactly as many DEDENTs as
INDENTs (inconsistent dedents included — the error token is added, the blocks are still closed), so the parser's
block recursion always finds its closing token before EOF. -/
theorem indents_balance (items : List Item) : (lex items).count .dedent = (lex items).count .indent := by
  unfold lex tokens finish
  have ⟨h1, h2⟩ := bal_run S2.init (events items) bal_init
  have hpos : 0 < (run2 S2.init (events items)).stack.length := by
    cases hs : (run2 S2.init (events items)).stack with
    | nil => simp [hs] at h1
    | cons a as => simp
  simp [List.count_append, List.count_replicate]
  omega



/-- After any number of events (every prefix of the input, at event granularity) the lexer has never closed more
blocks than it opened, and its indentation stack is never empty. -/
theorem never_more_dedents (evs : List Event) :
    (run2 S2.init evs).out.count .dedent ≤ (run2 S2.init evs).out.count .indent ∧ (run2 S2.init evs).stack ≠ [] := by
  have ⟨h1, h2⟩ := bal_run S2.init evs bal_init
  cases hs : (run2 S2.init evs).stack with
  | nil => simp [hs] at h1
  | cons a as => rw [hs] at h2; simp only [List.length_cons] at h2; exact ⟨by omega, by simp⟩


end Incan.Layout
