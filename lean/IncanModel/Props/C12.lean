import IncanModel.Lemmas.Cargo
import IncanModel.Tool.ModuleTree
/-
C12 — Compilation is deterministic (the part with a model: the Cargo.toml dependency section).

The dependency table is a hash map; "whatever order it iterates in" is "any permutation of its entries".
-/
namespace Incan.Cargo

/-- The generated dependency list does not depend on the iteration order of the dependency table. -/
theorem manifest_order_independent (f : Flags) (t1 t2 : List (Name × Spec)) (hp : t1.Perm t2)
    (hn : (t1.map (·.1)).Nodup) : manifestDeps f t1 = manifestDeps f t2 := by
  unfold manifestDeps rustDeps
  rw [sort_perm_eq t1 t2 hp hn]

/-- Before the fix the table was iterated directly (`rustDepsUnsorted`): two iteration orders gave two
different files (kernel-checked witness). -/
def rustDepsUnsorted (fixed : List Name) (table : List (Name × Spec)) : List (Name × Spec) :=
  table.filter (fun e => !fixed.contains e.1)

theorem unsorted_depends_on_order :
    rustDepsUnsorted [] [([114, 97, 110, 100], .version "0.8" []), ([117, 117, 105, 100], .version "1.0" [])] ≠
    rustDepsUnsorted [] [([117, 117, 105, 100], .version "1.0" []), ([114, 97, 110, 100], .version "0.8" [])] := by
  decide

example : manifestDeps ⟨false, false, false⟩ [([117, 117, 105, 100], .version "1.0" []), ([114, 97, 110, 100], .version "0.8" [])]
    = manifestDeps ⟨false, false, false⟩ [([114, 97, 110, 100], .version "0.8" []), ([117, 117, 105, 100], .version "1.0" [])] :=
  manifest_order_independent _ _ _ (List.Perm.swap _ _ _) (by decide)

end Incan.Cargo

/-! ### The module tree of a multi-file project does not depend on the iteration order of the module map -/
namespace Incan.ModuleTree
open Incan.Cargo

theorem dirChildren_perm (p1 p2 : List Path) (h : p1.Perm p2) : (dirChildren p1).Perm (dirChildren p2) := by
  induction h with
  | nil => exact List.Perm.refl _
  | cons x _ ih => exact List.Perm.append_left _ ih
  | swap x y l =>
    simp only [dirChildren]
    rw [← List.append_assoc, ← List.append_assoc]
    exact List.Perm.append_right _ List.perm_append_comm
  | trans _ _ ih1 ih2 => exact ih1.trans ih2

theorem mem_dedup (l : List Name) (a : Name) : a ∈ dedup l ↔ a ∈ l := by
  induction l with
  | nil => simp [dedup]
  | cons x xs ih =>
    unfold dedup
    by_cases hc : (dedup xs).contains x = true
    · rw [if_pos hc]
      have hx : x ∈ dedup xs := List.contains_iff_mem.1 hc
      constructor
      · intro h; exact List.mem_cons_of_mem _ (ih.1 h)
      · intro h
        rcases List.mem_cons.1 h with rfl | h'
        · exact hx
        · exact ih.2 h'
    · rw [if_neg hc]
      constructor
      · intro h
        rcases List.mem_cons.1 h with rfl | h'
        · exact List.mem_cons_self
        · exact List.mem_cons_of_mem _ (ih.1 h')
      · intro h
        rcases List.mem_cons.1 h with rfl | h'
        · exact List.mem_cons_self
        · exact List.mem_cons_of_mem _ (ih.2 h')

theorem nodup_dedup (l : List Name) : (dedup l).Nodup := by
  induction l with
  | nil => simp [dedup]
  | cons x xs ih =>
    unfold dedup
    by_cases hc : (dedup xs).contains x = true
    · rw [if_pos hc]; exact ih
    · rw [if_neg hc]
      exact List.nodup_cons.2 ⟨fun h => hc (List.contains_iff_mem.2 h), ih⟩

theorem sorted_dedup_eq (l1 l2 : List Name) (h : ∀ a, a ∈ l1 ↔ a ∈ l2) :
    (dedup l1).mergeSort lexLe = (dedup l2).mergeSort lexLe := by
  have hs1 := List.pairwise_mergeSort (le := lexLe) lexLe_trans lexLe_total (dedup l1)
  have hs2 := List.pairwise_mergeSort (le := lexLe) lexLe_trans lexLe_total (dedup l2)
  have hn1 : ((dedup l1).mergeSort lexLe).Nodup := (List.mergeSort_perm _ _).nodup_iff.2 (nodup_dedup _)
  have hn2 : ((dedup l2).mergeSort lexLe).Nodup := (List.mergeSort_perm _ _).nodup_iff.2 (nodup_dedup _)
  have hperm : ((dedup l1).mergeSort lexLe).Perm ((dedup l2).mergeSort lexLe) := by
    apply (List.perm_ext_iff_of_nodup hn1 hn2).2
    intro a
    rw [(List.mergeSort_perm _ _).mem_iff, (List.mergeSort_perm _ _).mem_iff, mem_dedup, mem_dedup]
    exact h a
  apply List.Perm.eq_of_pairwise (le := fun a b => lexLe a b = true) _ hs1 hs2 hperm
  intro a b _ _ hab hba
  exact lexLe_antisymm a b hab hba

/-- MAIN (module lists): the `pub mod` lines written for a directory are the same whatever order the module map is
iterated in. -/
theorem children_order_independent (p1 p2 : List Path) (h : p1.Perm p2) (dir : Path) :
    childrenOf p1 dir = childrenOf p2 dir := by
  unfold childrenOf
  apply sorted_dedup_eq
  intro a
  have hp := ((dirChildren_perm p1 p2 h).filter (fun e => e.1 == dir)).map (·.2)
  exact hp.mem_iff

/-- … and each child is declared once (a repeated `pub mod x;` does not compile). -/
theorem children_nodup (paths : List Path) (dir : Path) : (childrenOf paths dir).Nodup := by
  unfold childrenOf
  exact (List.mergeSort_perm _ _).nodup_iff.2 (nodup_dedup _)

/-- Where the lines go does not depend on the order either. -/
theorem carrier_order_independent (p1 p2 : List Path) (h : p1.Perm p2) (dir : Path) :
    carrier p1 dir = carrier p2 dir := by
  unfold carrier
  have : p1.contains dir = p2.contains dir := by
    cases h1 : p1.contains dir <;> cases h2 : p2.contains dir <;> simp_all
    · exact absurd (h.mem_iff.2 h2) h1
    · exact absurd (h.mem_iff.1 h1) h2
  rw [this]

/-- rustc accepts at most one of `<dir>.rs` and `<dir>/mod.rs` (E0761 otherwise): never both are written. -/
theorem never_file_and_modrs (paths : List Path) (dir : Path) : (writes paths dir) ≠ (true, true) := by
  unfold writes carrier
  intro h
  have h1 : paths.contains dir = true := congrArg Prod.fst h
  have h2 := congrArg Prod.snd h
  simp only [h1] at h2
  by_cases hd : dir = []
  · rw [if_pos hd] at h2; exact absurd h2 (by decide)
  · rw [if_neg hd] at h2; exact absurd h2 (by decide)

theorem mem_dirChildren (paths : List Path) (dir : Path) (c : Name) :
    (dir, c) ∈ dirChildren paths ↔ ∃ p ∈ paths, ∃ i, i < p.length ∧ p.take i = dir ∧ p[i]? = some c := by
  induction paths with
  | nil => simp [dirChildren]
  | cons q rest ih =>
    simp only [dirChildren, List.mem_append, List.mem_filterMap, List.mem_range, Option.map_eq_some_iff,
      Prod.mk.injEq, ih, List.mem_cons, exists_eq_or_imp]
    constructor
    · rintro (⟨i, hi, seg, hseg, hd, hc⟩ | h)
      · exact Or.inl ⟨i, hi, hd, by rw [hseg, hc]⟩
      · exact Or.inr h
    · rintro (⟨i, hi, hd, hc⟩ | h)
      · exact Or.inl ⟨i, hi, c, hc, hd, rfl⟩
      · exact Or.inr h

/-- The `pub mod` lines of a directory are exactly the next segments of the module paths that pass through it: every
module file is declared by its parent (no file is left out of the crate), and nothing is declared that has no file
or directory behind it (a `pub mod x;` without `x.rs` / `x/` is E0583). -/
theorem children_exact (paths : List Path) (dir : Path) (c : Name) :
    c ∈ childrenOf paths dir ↔ ∃ p ∈ paths, ∃ i, i < p.length ∧ p.take i = dir ∧ p[i]? = some c := by
  unfold childrenOf
  rw [(List.mergeSort_perm _ _).mem_iff, mem_dedup, ← mem_dirChildren]
  simp only [List.mem_map, List.mem_filter, beq_iff_eq, Prod.exists]
  constructor
  · rintro ⟨d, c', ⟨hmem, hd⟩, hc⟩
    subst hd; subst hc; exact hmem
  · intro h
    exact ⟨dir, c, ⟨h, rfl⟩, rfl⟩

/-- In particular every module is declared all the way down from the crate root. -/
theorem every_module_reachable (paths : List Path) (p : Path) (hp : p ∈ paths) (i : Nat) (hi : i < p.length) :
    p[i] ∈ childrenOf paths (p.take i) :=
  (children_exact paths (p.take i) p[i]).2 ⟨p, hp, i, hi, rfl, by simp [hi]⟩

example : ([99] : Name) ∈ childrenOf [[[97]], [[97], [98]], [[97], [99], [100]]] [[97]] :=
  every_module_reachable _ [[97], [99], [100]] (by decide) 1 (by decide)

/-- The generator as it was wrote both for a module that is also a directory (`a.incn` next to `a/b.incn`). -/
theorem old_generator_wrote_both :
    writesOld [[[97]], [[97], [98]]] [[97]] = (true, true) ∧ writes [[[97]], [[97], [98]]] [[97]] = (true, false) := by
  decide

end Incan.ModuleTree
