import IncanModel.Lemmas.Cargo
/-
C12 — Compilation is deterministic (the part with a model: the Cargo.toml dependency section).

The dependency table is a hash map; "whatever order it iterates in" is "any permutation of its entries".
-/
namespace Incan.Cargo

/-- The generated dependency list does not depend on the iteration order of the dependency table. -/
theorem manifest_order_independent (f : Flags) (t1 t2 : List (Name × Spec)) (hp : t1.Perm t2)
    (hn : (t1.map (·.1)).Nodup) : manifestDeps f t1 = manifestDeps f t2 := by
  unfold manifestDeps rustDeps
  rw [sort_perm_eq t1 t2 hp hn]

/-- Before the fix the table was iterated directly (`rustDepsUnsorted`): two iteration orders gave two
different files (kernel-checked witness). -/
def rustDepsUnsorted (fixed : List Name) (table : List (Name × Spec)) : List (Name × Spec) :=
  table.filter (fun e => !fixed.contains e.1)

theorem unsorted_depends_on_order :
    rustDepsUnsorted [] [([114, 97, 110, 100], .version "0.8" []), ([117, 117, 105, 100], .version "1.0" [])] ≠
    rustDepsUnsorted [] [([117, 117, 105, 100], .version "1.0" []), ([114, 97, 110, 100], .version "0.8" [])] := by
  decide

example : manifestDeps ⟨false, false, false⟩ [([117, 117, 105, 100], .version "1.0" []), ([114, 97, 110, 100], .version "0.8" [])]
    = manifestDeps ⟨false, false, false⟩ [([114, 97, 110, 100], .version "0.8" []), ([117, 117, 105, 100], .version "1.0" [])] :=
  manifest_order_independent _ _ _ (List.Perm.swap _ _ _) (by decide)

end Incan.Cargo
