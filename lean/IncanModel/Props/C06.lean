import IncanModel.Sem.ConstEval
import IncanModel.Sem.Comprehension
/-
C06 — compile-time evaluation agrees with run-time evaluation.
-/
namespace Incan.ConstEval
open Incan.Seq

theorem cvStr_some {v : Option CV} {s : List Char} (h : cvStr v = some s) : v = some (.str s) := by
  cases v with
  | none => simp [cvStr] at h
  | some c => cases c <;> simp [cvStr] at h; subst h; rfl

theorem cvInt_some {v : Option CV} {n : Int64} (h : cvInt v = some n) : v = some (.int n) := by
  cases v with
  | none => simp [cvInt] at h
  | some c => cases c <;> simp [cvInt] at h; subst h; rfl

/-- Environment agreement: every const whose value the compiler knows has that value at run time. -/
def Agree (C : String → Option (Ty × Option CV)) (R : String → Option RV) : Prop :=
  ∀ name t v, C name = some (t, some v) → R name = some v.toRV

/-- The strict binary operators: a compile-time value is the run-time value. -/
theorem binConst_sound (op : Op) (r : E) (lt rt t : Ty) (lv rv : Option CV) (v : CV)
    (hop : ¬ (op = .and_ ∨ op = .or_))
    (h : binConst op r lt lv rt rv = .ok (t, some v)) :
    ∃ a b, lv = some a ∧ rv = some b ∧ binRun op r a.toRV b.toRV = .ok v.toRV := by
  unfold binConst at h
  split at h
  · -- concatenation
    rename_i hc
    injection h with h
    injection h with _ hv
    split at hv
    · rename_i a b ha hb
      injection hv with hv; subst hv
      refine ⟨.str a, .str b, cvStr_some ha, cvStr_some hb, ?_⟩
      simp [hc.1, binRun, CV.toRV]
    · cases hv
  · split at h
    · injection h with h; injection h with _ hv; cases hv
    · split at h
      · rename_i hin
        injection h with h
        injection h with _ hv
        split at hv
        · rename_i a b ha hb
          injection hv with hv; subst hv
          refine ⟨.str a, .str b, cvStr_some ha, cvStr_some hb, ?_⟩
          rcases hin.1 with ho | ho <;> simp [ho, binRun, CV.toRV]
        · cases hv
      · split at h
        · split at h
          · injection h with h; injection h with _ hv; cases hv
          · cases h
        · split at h
          · split at h
            · injection h with h; injection h with _ hv; cases hv
            · split at h
              · injection h with h; injection h with _ hv; cases hv
              · cases h
          · first
              | cases h
              | (split at h
                 · rename_i hao; exact absurd hao hop
                 · cases h)

/-- MAIN.  Whatever value the compiler records for an initializer is the value the same expression has when it
is evaluated in a function body: a const never holds a value different from the one its initializer denotes. -/
theorem const_value_sound (C : String → Option (Ty × Option CV)) (R : String → Option RV) (hCR : Agree C R)
    (e : E) (t : Ty) (v : CV) (h : constEval C e = .ok (t, some v)) : runEval R e = .ok v.toRV := by
  induction e generalizing t v with
  | int n => simp [constEval] at h; obtain ⟨_, hv⟩ := h; subst hv; simp [runEval, CV.toRV]
  | float f => simp [constEval] at h; obtain ⟨_, hv⟩ := h; subst hv; simp [runEval, CV.toRV]
  | bool b => simp [constEval] at h; obtain ⟨_, hv⟩ := h; subst hv; simp [runEval, CV.toRV]
  | str s => simp [constEval] at h; obtain ⟨_, hv⟩ := h; subst hv; simp [runEval, CV.toRV]
  | ref name =>
    simp only [constEval] at h
    split at h
    · rename_i r hr
      injection h with h; subst h
      simp [runEval, hCR name t v hr]
    · cases h
  | neg e ih =>
    simp only [constEval] at h
    split at h
    · cases h
    · rename_i t' v' he
      split at h
      · injection h with h
        injection h with _ hv
        split at hv
        · rename_i n
          injection hv with hv; subst hv
          simp [runEval, ih _ _ he, CV.toRV]
        · rename_i f
          injection hv with hv; subst hv
          simp [runEval, ih _ _ he, CV.toRV]
        · cases hv
      · cases h
  | not_ e ih =>
    simp only [constEval] at h
    split at h
    · cases h
    · rename_i t' v' he
      split at h
      · injection h with h
        injection h with _ hv
        split at hv
        · rename_i b
          injection hv with hv; subst hv
          simp [runEval, ih _ _ he, CV.toRV]
        · cases hv
      · cases h
  | bin op l r ihl ihr =>
    simp only [constEval] at h
    split at h
    · cases h
    · rename_i lt lv hl
      split at h
      · cases h
      · rename_i rt rv hr
        by_cases hop : op = .and_ ∨ op = .or_
        · -- and / or: the compile-time conjunction equals the short-circuit result
          have hnum : op.toNum = none := by rcases hop with h | h <;> simp [h, Op.toNum]
          have hcmp : op.isCmp = false := by rcases hop with h | h <;> simp [h, Op.isCmp]
          have hadd : op ≠ .add := by rcases hop with h | h <;> simp [h]
          have hin : ¬ (op = .in_ ∨ op = .notIn) := by rcases hop with h | h <;> simp [h]
          simp only [binConst, hadd, false_and, if_false, hcmp, Bool.false_eq_true, hin, hnum, hop, if_true] at h
          split at h
          · injection h with h
            injection h with _ hv
            split at hv
            · rename_i a b
              injection hv with hv; subst hv
              have h1 := ihl _ _ hl
              have h2 := ihr _ _ hr
              simp only [runEval, hop, if_true, h1, CV.toRV, h2]
              rcases hop with ho | ho
              · subst ho
                cases a <;> cases b <;> simp
              · subst ho
                cases a <;> cases b <;> simp
            · cases hv
          · cases h
        · obtain ⟨a, b, ha, hb, hrun⟩ := binConst_sound op r lt rt t lv rv v hop h
          subst ha; subst hb
          simp [runEval, hop, ihl _ _ hl, ihr _ _ hr, hrun]
  | index b i ihb ihi =>
    simp only [constEval] at h
    split at h
    · cases h
    · rename_i bt bv hb
      split at h
      · cases h
      · rename_i it iv hi
        split at h
        · cases h
        · split at h
          · cases h
          · split at h
            · rename_i s n hs hn
              have hb' := ihb _ _ (by rw [hb, cvStr_some hs])
              have hi' := ihi _ _ (by rw [hi, cvInt_some hn])
              split at h
              · rename_i c hc
                injection h with h; injection h with _ hv; injection hv with hv; subst hv
                simp [runEval, hb', hi', CV.toRV, hc]
              · cases h
            · injection h with h; injection h with _ hv; cases hv
  | slice b st en sp ihb ihs ihe ihp =>
    simp only [constEval] at h
    split at h
    · cases h
    · rename_i bt bv hb
      split at h
      · cases h
      · split at h
        · cases h
        · rename_i sP sV hS
          split at h
          · cases h
          · rename_i eP eV hE
            split at h
            · cases h
            · rename_i pP pV hP
              split at h
              · rename_i s hs hknown
                have hb' := ihb _ _ (by rw [hb, cvStr_some hs])
                -- each bound: absent on both sides, or present with a known (hence equal) value
                have bound : ∀ (x : E) (P : Bool) (V : Option Int64),
                    (∀ t v, constEval C x = .ok (t, some v) → runEval R x = .ok v.toRV) →
                    cBound x (constEval C x) = .ok (P, V) → (!P || V.isSome) = true →
                    rBound x (runEval R x) = .ok V := by
                  intro x P V ihx hc hk
                  unfold cBound at hc
                  unfold rBound
                  split at hc
                  · rename_i habs
                    injection hc with hc; injection hc with _ hV; subst hV
                    simp [habs]
                  · rename_i habs
                    simp only [habs, Bool.false_eq_true, if_false]
                    split at hc
                    · cases hc
                    · rename_i tx vx hx
                      split at hc
                      · cases hc
                      · injection hc with hc
                        injection hc with hP hV
                        subst hP; subst hV
                        simp only [Bool.not_true, Bool.false_or] at hk
                        cases hcv : cvInt vx with
                        | none => simp [hcv] at hk
                        | some n =>
                          have := ihx _ _ (by rw [hx, cvInt_some hcv])
                          simp [this, CV.toRV]
                simp only [Bool.and_eq_true] at hknown
                have h1 := bound st sP sV ihs hS hknown.1.1
                have h2 := bound en eP eV ihe hE hknown.1.2
                have h3 := bound sp pP pV ihp hP hknown.2
                split at h
                · rename_i out hout
                  injection h with h; injection h with _ hv; injection hv with hv; subst hv
                  simp [runEval, hb', h1, h2, h3, CV.toRV, hout]
                · cases h
                · cases h
              · injection h with h; injection h with _ hv; cases hv
  | absent => simp [constEval] at h
  | other => simp [constEval] at h


/-- An out-of-range string index found at compile time is exactly the IndexError of run time … -/
theorem index_error_agrees (C : String → Option (Ty × Option CV)) (R : String → Option RV) (hCR : Agree C R)
    (b i : E) (tb ti : Ty) (s : List Char) (n : Int64)
    (hb : constEval C b = .ok (tb, some (.str s))) (hi : constEval C i = .ok (ti, some (.int n)))
    (h : constEval C (.index b i) = .error .stringIndexOutOfRange) :
    runEval R (.index b i) = .error .stringIndexOutOfRange := by
  have hb' := const_value_sound C R hCR b tb _ hb
  have hi' := const_value_sound C R hCR i ti _ hi
  simp only [constEval, hb, hi] at h
  split at h
  · cases h
  · split at h
    · cases h
    · simp only [cvStr, cvInt] at h
      split at h
      · cases h
      · rename_i e he
        simp [runEval, hb', hi', CV.toRV, he]

/-- … and conversely: if the run-time evaluation raises it, a well-typed initializer with known operands is
rejected at compile time with that error (it is never silently accepted). -/
theorem runtime_index_error_reported (C : String → Option (Ty × Option CV))
    (b i : E) (s : List Char) (n : Int64) (e : Err)
    (hb : constEval C b = .ok (.fstr, some (.str s))) (hi : constEval C i = .ok (.int, some (.int n)))
    (hrun : strIndex s n = .error e) :
    constEval C (.index b i) = .error .stringIndexOutOfRange := by
  simp [constEval, hb, hi, cvStr, cvInt, hrun]

/-- A zero slice step is reported at compile time exactly when it is a ValueError at run time. -/
theorem slice_step_zero_agrees (C : String → Option (Ty × Option CV)) (R : String → Option RV) (hCR : Agree C R)
    (b st en sp : E) (h : constEval C (.slice b st en sp) = .error .sliceStepZero)
    (hb : ∃ s, constEval C b = .ok (.fstr, some (.str s)))
    (hs : st.isAbsent = true ∨ ∃ n, constEval C st = .ok (.int, some (.int n)))
    (he : en.isAbsent = true ∨ ∃ n, constEval C en = .ok (.int, some (.int n)))
    (hp : sp.isAbsent = true ∨ ∃ n, constEval C sp = .ok (.int, some (.int n))) :
    runEval R (.slice b st en sp) = .error .sliceStepZero := by
  obtain ⟨s, hb⟩ := hb
  have hb' := const_value_sound C R hCR b _ _ hb
  -- both sides see the same three bounds
  have bound : ∀ x : E, (x.isAbsent = true ∨ ∃ n, constEval C x = .ok (.int, some (.int n))) →
      ∃ P V, cBound x (constEval C x) = .ok (P, V) ∧ rBound x (runEval R x) = .ok V ∧ (!P || V.isSome) = true := by
    intro x hx
    rcases hx with ha | ⟨n, hn⟩
    · exact ⟨false, none, by simp [cBound, ha], by simp [rBound, ha], by simp⟩
    · have hn' := const_value_sound C R hCR x _ _ hn
      by_cases ha : x.isAbsent = true
      · exact ⟨false, none, by simp [cBound, ha], by simp [rBound, ha], by simp⟩
      · exact ⟨true, some n, by simp [cBound, ha, hn, cvInt], by simp [rBound, ha, hn', CV.toRV], by simp⟩
  obtain ⟨sP, sV, hs1, hs2, hs3⟩ := bound st hs
  obtain ⟨eP, eV, he1, he2, he3⟩ := bound en he
  obtain ⟨pP, pV, hp1, hp2, hp3⟩ := bound sp hp
  simp only [constEval, hb, hs1, he1, hp1, cvStr, hs3, he3, hp3, Bool.and_self] at h
  simp only [runEval, hb', CV.toRV, hs2, he2, hp2]
  split at h
  · cases h
  · split at h
    · cases h
    · rename_i hz; simp [hz]
    · cases h

/-- `concat!` folding of `&'static str` chains denotes the run-time concatenation (no re-escaping, no
reordering): the folded text of a const initializer is the value of the same expression in a function. -/
theorem static_fold_sound (S : String → Option (List Char)) (R : String → Option RV)
    (hSR : ∀ name v, S name = some v → R name = some (.str v))
    (e : E) (s : List Char) (h : staticStr S e = some s) : runEval R e = .ok (.str s) := by
  induction e generalizing s with
  | str x => simp [staticStr] at h; subst h; simp [runEval]
  | ref name => simp only [staticStr] at h; simp [runEval, hSR name s h]
  | bin op l r ihl ihr =>
    cases op <;> simp only [staticStr] at h <;> try (cases h)
    split at h
    · rename_i a b ha hb
      injection h with h; subst h
      simp [runEval, ihl a ha, ihr b hb, binRun]
    · cases h
  | int _ | float _ | bool _ | neg _ _ | not_ _ _ | index _ _ _ _ | slice _ _ _ _ _ _ _ _ | absent | other =>
    simp [staticStr] at h

/-! ### Dependency cycles -/

theorem foldl_ok {α : Type} (g : α → Except DErr Unit) (ds : List α) (init : Except DErr Unit)
    (h : ds.foldl (fun acc d => match acc with | .error e => .error e | .ok () => g d) init = .ok ()) :
    init = .ok () ∧ ∀ d ∈ ds, g d = .ok () := by
  induction ds generalizing init with
  | nil => exact ⟨h, by simp⟩
  | cons d ds ih =>
    simp only [List.foldl_cons] at h
    have := ih _ h
    cases init with
    | error e =>
      simp only at this
      exact absurd this.1 (by simp)
    | ok u =>
      cases u
      simp only at this
      refine ⟨rfl, ?_⟩
      intro x hx
      rcases List.mem_cons.1 hx with hx | hx
      · subst hx; exact this.1
      · exact this.2 x hx

theorem foldl_error_absorbs {α : Type} (g : α → Except DErr Unit) (ds : List α) (e : DErr) :
    ds.foldl (fun acc d => match acc with | .error e => .error e | .ok () => g d) (Except.error e) = Except.error e := by
  induction ds with
  | nil => rfl
  | cons d ds ih => simpa using ih

/-- One successful step: the name is not in progress, it is a const, and every dependency was resolved. -/
theorem visit_ok_step (deps : String → Option (List String)) (f : Nat) (stack : List String) (n : String)
    (h : visit deps (f + 1) stack n = .ok ()) :
    n ∉ stack ∧ ∃ ds, deps n = some ds ∧ ∀ d ∈ ds, visit deps f (n :: stack) d = .ok () := by
  simp only [visit] at h
  split at h
  · cases h
  · rename_i hn
    split at h
    · cases h
    · rename_i ds hds
      exact ⟨hn, ds, hds, (foldl_ok _ ds _ h).2⟩

/-- `path` is a chain of dependency edges starting at `n`. -/
def IsPath (deps : String → Option (List String)) : String → List String → Prop
  | _, [] => True
  | n, p :: ps => (∃ ds, deps n = some ds ∧ p ∈ ds) ∧ IsPath deps p ps

/-- "Always reported": if resolving `n` succeeds, no dependency chain from `n` ever comes back to a const that is
still in progress or that it already passed through.  Hence a cycle reachable from `n` makes the resolution
fail (with the cycle diagnostic, `visit` has no other way to fail on declared names — see `never_out_of_fuel`). -/
theorem ok_implies_no_repeat (deps : String → Option (List String)) (path : List String) :
    ∀ (f : Nat) (stack : List String) (n : String), visit deps f stack n = .ok () → IsPath deps n path →
      (n :: path).Pairwise (· ≠ ·) ∧ ∀ m ∈ n :: path, m ∉ stack := by
  induction path with
  | nil =>
    intro f stack n h _
    cases f with
    | zero => simp [visit] at h
    | succ f =>
      have := (visit_ok_step deps f stack n h).1
      simp [this]
  | cons p ps ih =>
    intro f stack n h hp
    cases f with
    | zero => simp [visit] at h
    | succ f =>
      obtain ⟨hn, ds, hds, hall⟩ := visit_ok_step deps f stack n h
      obtain ⟨⟨ds', hds', hmem⟩, hrest⟩ := hp
      rw [hds] at hds'; injection hds' with hds'; subst hds'
      have hp1 := hall p hmem
      obtain ⟨hpw, hnot⟩ := ih f (n :: stack) p hp1 hrest
      refine ⟨?_, ?_⟩
      · refine List.Pairwise.cons ?_ hpw
        intro m hm heq
        subst heq
        exact (hnot _ hm) (by simp)
      · intro m hm
        rcases List.mem_cons.1 hm with hm | hm
        · subst hm; exact hn
        · intro hms
          exact (hnot m hm) (List.mem_cons_of_mem _ hms)

/-- A dependency cycle reachable from `n` is never accepted. -/
theorem cycle_is_rejected (deps : String → Option (List String)) (f : Nat) (n : String) (path : List String)
    (hp : IsPath deps n path) (hrep : ¬ (n :: path).Pairwise (· ≠ ·)) : visit deps f [] n ≠ .ok () := by
  intro h
  exact hrep (ok_implies_no_repeat deps path f [] n h hp).1

/-- Number of declared consts that are not in progress. -/
def pending : List String → List String → Nat
  | [], _ => 0
  | a :: as, st => (if a ∈ st then 0 else 1) + pending as st

theorem pending_mono (names stack : List String) (n : String) : pending names (n :: stack) ≤ pending names stack := by
  induction names with
  | nil => simp [pending]
  | cons a as ih =>
    simp only [pending, List.mem_cons]
    by_cases h1 : a ∈ stack
    · simp [h1]; exact ih
    · by_cases h2 : a = n
      · simp [h1, h2]; omega
      · simp [h1, h2]; exact ih

theorem pending_lt_of_mem (names stack : List String) (n : String) (hn : n ∈ names) (hs : n ∉ stack) :
    pending names (n :: stack) < pending names stack := by
  induction names with
  | nil => simp at hn
  | cons a as ih =>
    simp only [pending, List.mem_cons]
    by_cases ha : a = n
    · subst ha
      have := pending_mono as stack a
      simp [hs]; omega
    · have hn' : n ∈ as := by
        rcases List.mem_cons.1 hn with h | h
        · exact absurd h.symm ha
        · exact h
      have := ih hn'
      by_cases h1 : a ∈ stack
      · simp [h1]; exact this
      · simp [h1, ha]; exact this

/-- "Rather than looping": with the fuel the driver gives it (one more than the number of consts) the resolution
never runs out of fuel, whatever the dependency graph — it ends with success, a cycle or an unknown name. -/
theorem never_out_of_fuel (deps : String → Option (List String)) (names : List String)
    (hnames : ∀ n ds, deps n = some ds → n ∈ names) :
    ∀ (f : Nat) (stack : List String) (n : String),
      pending names stack < f → visit deps f stack n ≠ .error .fuel := by
  intro f
  induction f with
  | zero => intro stack n h; omega
  | succ f ih =>
    intro stack n hlt
    simp only [visit]
    split
    · simp
    · rename_i hn
      split
      · simp
      · rename_i ds hds
        have hmem := hnames n ds hds
        have hdec := pending_lt_of_mem names stack n hmem hn
        have hall : ∀ d, visit deps f (n :: stack) d ≠ .error .fuel := fun d => ih (n :: stack) d (by omega)
        -- the fold can only return an error produced by one of the inner calls
        have : ∀ (l : List String) (init : Except DErr Unit), init ≠ .error .fuel →
            l.foldl (fun acc d => match acc with | .error e => .error e | .ok () => visit deps f (n :: stack) d) init ≠ .error .fuel := by
          intro l
          induction l with
          | nil => intro init h; simpa using h
          | cons d l ihl =>
            intro init h
            simp only [List.foldl_cons]
            apply ihl
            cases init with
            | error e => simpa using h
            | ok u => cases u; exact hall d
        exact this ds (.ok ()) (by simp)

theorem pending_le_length (names stack : List String) : pending names stack ≤ names.length := by
  induction names with
  | nil => simp [pending]
  | cons a as ih => simp only [pending, List.length_cons]; split <;> omega

/-- The resolution of any const of any program ends with a verdict. -/
theorem resolution_terminates (deps : String → Option (List String)) (names : List String)
    (hnames : ∀ n ds, deps n = some ds → n ∈ names) (n : String) :
    visit deps (names.length + 1) [] n ≠ .error .fuel :=
  never_out_of_fuel deps names hnames _ [] n (by have := pending_le_length names []; omega)

example : visit (fun n => if n = "A" then some ["B"] else if n = "B" then some ["A"] else none) 3 [] "A"
    = .error (.cycle ["A", "B", "A"]) := by decide
example : visit (fun n => if n = "A" then some ["B", "C"] else if n = "B" then some ["C"] else if n = "C" then some [] else none) 4 [] "A"
    = .ok () := by decide
example : constEval (fun _ => none) (.slice (.str "hello".toList) (.int 0) (.bin .add (.int 1) (.int 1)) .absent)
    = .ok (.fstr, none) := by rfl

end Incan.ConstEval

namespace Incan.ConstEval

/-- Type agreement for a strict binary operator: the type the compiler decides is the type of the run-time result. -/
theorem binConst_type (op : Op) (r : E) (lv rv : Option CV) (t : Ty) (v : Option CV) (a b res : RV)
    (hop : ¬ (op = .and_ ∨ op = .or_))
    (hc : binConst op r a.ty lv b.ty rv = .ok (t, v)) (hr : binRun op r a b = .ok res) : res.ty = t := by
  cases a <;> cases b <;> cases op <;>
    simp [binConst, binRun, RV.ty, Op.isCmp, Op.toNum, numTy, Policy.resultNumericType] at hc hr hop ⊢
  all_goals (try (obtain ⟨h1, _⟩ := hc; subst h1))
  all_goals (try (rw [← hr]))
  all_goals (try rfl)
  all_goals (try (split at hr))
  all_goals (try (rw [← hr]))
  all_goals (try rfl)
  all_goals (try (split at hr))
  all_goals (try (rw [← hr]))
  all_goals (try rfl)
  all_goals (try (simp_all [RV.ty]))
  all_goals (try (subst hr))
  all_goals (try rfl)

/-- Every const the compiler has typed has, at run time, a value of that type. -/
def TyAgree (C : String → Option (Ty × Option CV)) (R : String → Option RV) : Prop :=
  ∀ name t v rv, C name = some (t, v) → R name = some rv → rv.ty = t

/-- The type the compiler decides for an initializer is the type of the value the same expression has at run
time (for `**` this includes the syntactic rule: int only for a non-negative integer literal exponent). -/
theorem const_type_sound (C : String → Option (Ty × Option CV)) (R : String → Option RV) (hCR : TyAgree C R)
    (e : E) (t : Ty) (v : Option CV) (rv : RV)
    (hc : constEval C e = .ok (t, v)) (hr : runEval R e = .ok rv) : rv.ty = t := by
  induction e generalizing t v rv with
  | int n => simp [constEval] at hc; simp [runEval] at hr; subst hr; simp [RV.ty, hc.1]
  | float f => simp [constEval] at hc; simp [runEval] at hr; subst hr; simp [RV.ty, hc.1]
  | bool b => simp [constEval] at hc; simp [runEval] at hr; subst hr; simp [RV.ty, hc.1]
  | str s => simp [constEval] at hc; simp [runEval] at hr; subst hr; simp [RV.ty, hc.1]
  | ref name =>
    simp only [constEval] at hc
    simp only [runEval] at hr
    split at hc
    · rename_i r hcn
      injection hc with hc; subst hc
      split at hr
      · rename_i w hrn; injection hr with hr; subst hr; exact hCR name t v _ hcn hrn
      · cases hr
    · cases hc
  | neg e ih =>
    simp only [constEval] at hc
    simp only [runEval] at hr
    split at hc
    · cases hc
    · rename_i t' v' he
      split at hc
      · rename_i hty
        injection hc with hc; injection hc with ht _; subst ht
        split at hr
        · rename_i n hn; injection hr with hr; subst hr; have := ih _ _ _ he hn; simpa [RV.ty] using this
        · rename_i f hn; injection hr with hr; subst hr; have := ih _ _ _ he hn; simpa [RV.ty] using this
        · cases hr
        · cases hr
      · cases hc
  | not_ e ih =>
    simp only [constEval] at hc
    simp only [runEval] at hr
    split at hc
    · cases hc
    · split at hc
      · injection hc with hc; injection hc with ht _; subst ht
        split at hr
        · injection hr with hr; subst hr; rfl
        · cases hr
        · cases hr
      · cases hc
  | bin op l r ihl ihr =>
    simp only [constEval] at hc
    split at hc
    · cases hc
    · rename_i lt lv hl
      split at hc
      · cases hc
      · rename_i rt rvv hrr
        by_cases hop : op = .and_ ∨ op = .or_
        · -- the result of and / or is a bool on both sides
          have hnum : op.toNum = none := by rcases hop with h | h <;> simp [h, Op.toNum]
          have hcmp : op.isCmp = false := by rcases hop with h | h <;> simp [h, Op.isCmp]
          have hadd : op ≠ .add := by rcases hop with h | h <;> simp [h]
          have hin : ¬ (op = .in_ ∨ op = .notIn) := by rcases hop with h | h <;> simp [h]
          simp only [binConst, hadd, false_and, if_false, hcmp, Bool.false_eq_true, hin, hnum, hop, if_true] at hc
          split at hc
          · injection hc with hc; injection hc with ht _; subst ht
            simp only [runEval, hop, if_true] at hr
            split at hr
            · rename_i a ha
              split at hr
              · injection hr with hr; subst hr; rfl
              · split at hr
                · injection hr with hr; subst hr; rfl
                · split at hr
                  · injection hr with hr; subst hr; rfl
                  · cases hr
                  · cases hr
            · cases hr
            · cases hr
          · cases hc
        · simp only [runEval, hop, if_false] at hr
          split at hr
          · cases hr
          · rename_i a ha
            split at hr
            · cases hr
            · rename_i b hb
              have h1 := ihl _ _ _ hl ha
              have h2 := ihr _ _ _ hrr hb
              subst h1; subst h2
              exact binConst_type op r lv rvv t v a b rv hop hc hr
  | index b i ihb ihi =>
    simp only [constEval] at hc
    simp only [runEval] at hr
    split at hc
    · cases hc
    · split at hc
      · cases hc
      · split at hc
        · cases hc
        · split at hc
          · cases hc
          · have ht : t = .fstr := by
              split at hc
              · split at hc
                · injection hc with hc; injection hc with ht _; exact ht.symm
                · cases hc
              · injection hc with hc; injection hc with ht _; exact ht.symm
            subst ht
            split at hr
            · cases hr
            · split at hr
              · cases hr
              · split at hr
                · split at hr
                  · injection hr with hr; subst hr; rfl
                  · cases hr
                · cases hr
  | slice b st en sp ihb ihs ihe ihp =>
    simp only [constEval] at hc
    simp only [runEval] at hr
    have ht : t = .fstr := by
      split at hc
      · cases hc
      · split at hc
        · cases hc
        · split at hc
          · cases hc
          · split at hc
            · cases hc
            · split at hc
              · cases hc
              · split at hc
                · split at hc
                  · injection hc with hc; injection hc with ht _; exact ht.symm
                  · cases hc
                  · cases hc
                · injection hc with hc; injection hc with ht _; exact ht.symm
    subst ht
    split at hr
    · cases hr
    · split at hr
      · cases hr
      · split at hr
        · cases hr
        · split at hr
          · cases hr
          · split at hr
            · split at hr
              · injection hr with hr; subst hr; rfl
              · cases hr
              · cases hr
            · cases hr
  | absent => simp [constEval] at hc
  | other => simp [constEval] at hc

end Incan.ConstEval

/-! ### Frozen (const) sets answer membership like their literal -/
namespace Incan.Comp

/-- A frozen set answers membership like its literal, in whatever order the elements were written. -/
theorem contains_iff {α : Type} [BEq α] [LawfulBEq α] (data : List α) (x : α) : contains data x = true ↔ x ∈ data := by
  unfold contains
  induction data with
  | nil => simp
  | cons a rest ih =>
    simp only [List.any_cons, Bool.or_eq_true, ih, List.mem_cons, beq_iff_eq]
    constructor
    · rintro (h | h)
      · exact Or.inl h.symm
      · exact Or.inr h
    · rintro (h | h)
      · exact Or.inl h.symm
      · exact Or.inr h

theorem contains_perm {α : Type} [BEq α] [LawfulBEq α] (d₁ d₂ : List α) (h : d₁.Perm d₂) (x : α) :
    contains d₁ x = contains d₂ x := by
  have e : (contains d₁ x = true) ↔ (contains d₂ x = true) := by
    rw [contains_iff, contains_iff]; exact h.mem_iff
  cases c1 : contains d₁ x <;> cases c2 : contains d₂ x <;> simp_all

/-- Bisection needs sorted data: on `{7, 2, 5, 3}` it misses elements that are there. -/
theorem bisect_misses_unsorted :
    contains [7, 2, 5, 3] (7 : Int) = true ∧ containsBisect [7, 2, 5, 3] 7 = false ∧
    contains [7, 2, 5, 3] (3 : Int) = true ∧ containsBisect [7, 2, 5, 3] 3 = false := by decide

end Incan.Comp
