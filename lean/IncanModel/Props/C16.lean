import IncanModel.Tool.TestRunner
/-
C16 — `incan test` reports the truth.
-/
namespace Incan.TestRunner

/-- A test is reported PASSED only if its body was executed and ran to completion; FAILED only if it was
executed and did not. -/
theorem verdict_truthful (t : Test) :
    ((runOne t).1 = .passed → (runOne t).2 = true ∧ t.bodyPasses = true) ∧
    ((runOne t).1 = .failed → (runOne t).2 = true ∧ t.bodyPasses = false) := by
  unfold runOne
  cases t.skip <;> cases t.xfail <;> cases t.bodyPasses <;> simp

/-- `@skip` tests are never executed. -/
theorem skip_not_run (t : Test) (h : t.skip = true) : runOne t = (.skipped, false) := by
  simp [runOne, h]

/-- `@xfail` inverts the verdict. -/
theorem xfail_inverts (t : Test) (hs : t.skip = false) (hx : t.xfail = true) :
    (runOne t).1 = (if t.bodyPasses then .xpassed else .xfailed) := by
  simp [runOne, hs, hx]

/-- `-k` / `--slow` select exactly the documented subset. -/
theorem filter_exact (filter : Option String) (includeSlow stopOnFail : Bool) (tests : List Test) (t : Test)
    (hrun : t ∈ (runTests filter includeSlow false tests).1.map (·.1)) :
    t ∈ tests ∧ (includeSlow = true ∨ t.slow = false) ∧
    (∀ kw, filter = some kw → containsSub t.name.toList kw.toList = true) := by
  have _ := stopOnFail
  unfold runTests at hrun
  simp only at hrun
  have hmem : ∀ l : List Test, t ∈ (runLoop false l).map (·.1) → t ∈ l := by
    intro l
    induction l with
    | nil => simp [runLoop]
    | cons x xs ih =>
      simp only [runLoop, Bool.false_and, Bool.false_eq_true, if_false, List.map_cons, List.mem_cons]
      rintro (h | h)
      · exact Or.inl h
      · exact Or.inr (ih h)
  have := hmem _ hrun
  have hsel := (List.mem_filter.1 this)
  refine ⟨hsel.1, ?_, ?_⟩
  · have := hsel.2
    unfold selected at this
    simp only [Bool.and_eq_true, Bool.or_eq_true, Bool.not_eq_true'] at this
    exact this.2
  · intro kw hk
    have := hsel.2
    unfold selected at this
    simp only [hk, Bool.and_eq_true] at this
    exact this.1

/-- Without `-x`, every selected test gets exactly one verdict (nothing is dropped or duplicated). -/
theorem all_selected_reported (filter : Option String) (includeSlow : Bool) (tests : List Test) :
    (runTests filter includeSlow false tests).1.map (·.1) = tests.filter (selected filter includeSlow) := by
  unfold runTests
  simp only
  generalize tests.filter (selected filter includeSlow) = l
  induction l with
  | nil => rfl
  | cons x xs ih => simp [runLoop, ih]

/-- The exit status is non-zero iff some reported test FAILED or XPASSED. -/
theorem exit_iff_failure (rs : List (Test × Verdict × Bool)) :
    (summarize rs).exitOk = false ↔ ∃ r ∈ rs, r.2.1 = .failed ∨ r.2.1 = .xpassed := by
  unfold summarize count
  simp only [Bool.not_eq_false', Bool.or_eq_true, decide_eq_true_eq]
  constructor
  · rintro (h | h)
    · obtain ⟨r, hr⟩ := List.exists_mem_of_length_pos h
      exact ⟨r, (List.mem_filter.1 hr).1, Or.inl (by simpa using (List.mem_filter.1 hr).2)⟩
    · obtain ⟨r, hr⟩ := List.exists_mem_of_length_pos h
      exact ⟨r, (List.mem_filter.1 hr).1, Or.inr (by simpa using (List.mem_filter.1 hr).2)⟩
  · rintro ⟨r, hr, h | h⟩
    · left; exact List.length_pos_of_mem (List.mem_filter.2 ⟨hr, by simp [h]⟩)
    · right; exact List.length_pos_of_mem (List.mem_filter.2 ⟨hr, by simp [h]⟩)

theorem count_cons (v w : Verdict) (t : Test) (b : Bool) (rs : List (Test × Verdict × Bool)) :
    count v ((t, w, b) :: rs) = (if w = v then 1 else 0) + count v rs := by
  unfold count
  by_cases h : w = v
  · subst h; simp [List.filter_cons]; omega
  · have : (w == v) = false := by simpa using h
    simp [List.filter_cons, this, h]

/-- The printed counts add up to the number of verdicts. -/
theorem counts_match (rs : List (Test × Verdict × Bool)) :
    (summarize rs).passed + (summarize rs).failed + (summarize rs).skipped + (summarize rs).xfailed +
      (summarize rs).xpassed = rs.length := by
  unfold summarize
  simp only
  induction rs with
  | nil => rfl
  | cons r rs ih =>
    obtain ⟨t, v, b⟩ := r
    simp only [count_cons, List.length_cons]
    cases v <;> simp <;> omega

/-- Discovery loses nothing: every test of every file is collected, under its own file. -/
theorem collect_complete (files : List (String × List Test)) (f : String) (ts : List Test) (t : Test)
    (hf : (f, ts) ∈ files) (ht : t ∈ ts) : (f, t) ∈ collect files := by
  unfold collect
  exact List.mem_flatMap.2 ⟨(f, ts), hf, List.mem_map.2 ⟨t, ht, rfl⟩⟩

/-- … and invents nothing: what is collected is a test of one of the files. -/
theorem collect_sound (files : List (String × List Test)) (f : String) (t : Test)
    (h : (f, t) ∈ collect files) : ∃ ts, (f, ts) ∈ files ∧ t ∈ ts := by
  unfold collect at h
  obtain ⟨⟨f', ts⟩, hf, hm⟩ := List.mem_flatMap.1 h
  obtain ⟨t', ht, heq⟩ := List.mem_map.1 hm
  simp only [Prod.mk.injEq] at heq
  obtain ⟨h1, h2⟩ := heq
  subst h1; subst h2
  exact ⟨ts, hf, ht⟩

/-- Every collected test counts: as many as the files hold together (the same name in two files is two tests). -/
theorem collect_length (files : List (String × List Test)) :
    (collect files).length = (files.map fun f => f.2.length).sum := by
  unfold collect
  induction files with
  | nil => rfl
  | cons f rest ih => simp [List.flatMap_cons, ih]

/-- End to end (no `-k`, `--slow`, no `-x`): every test of every discovered file gets a verdict line — whichever file
it is in and whatever the tests of other files are called. -/
theorem every_test_of_every_file_reported (files : List (String × List Test)) (f : String) (ts : List Test) (t : Test)
    (hf : (f, ts) ∈ files) (ht : t ∈ ts) :
    t ∈ (runTests none true false ((collect files).map (·.2))).1.map (·.1) := by
  rw [all_selected_reported]
  apply List.mem_filter.2
  refine ⟨List.mem_map.2 ⟨(f, t), collect_complete files f ts t hf ht, rfl⟩, ?_⟩
  simp [selected]

/-- … and a failing one among them makes the run fail. -/
theorem failing_test_in_any_file_fails_run (files : List (String × List Test)) (f : String) (ts : List Test) (t : Test)
    (hf : (f, ts) ∈ files) (ht : t ∈ ts) (hs : t.skip = false) (hx : t.xfail = false) (hb : t.bodyPasses = false) :
    (runTests none true false ((collect files).map (·.2))).2.exitOk = false := by
  have hmem := every_test_of_every_file_reported files f ts t hf ht
  obtain ⟨r, hr, hrt⟩ := List.mem_map.1 hmem
  unfold runTests at hr ⊢
  simp only at hr ⊢
  apply (exit_iff_failure _).2
  refine ⟨r, hr, Or.inl ?_⟩
  -- the verdict attached to `t` by the loop is runOne t
  have key : ∀ (l : List Test) (r : Test × Verdict × Bool), r ∈ runLoop false l → r.2 = runOne r.1 := by
    intro l
    induction l with
    | nil => intro r h; simp [runLoop] at h
    | cons x xs ih =>
      intro r h
      simp only [runLoop, Bool.false_and, Bool.false_eq_true, if_false, List.mem_cons] at h
      rcases h with rfl | h
      · rfl
      · exact ih r h
  have := key _ r hr
  rw [hrt] at this
  rw [this]
  simp [runOne, hs, hx, hb]

/-- Keeping one test per function name drops a failing test behind a passing one of the same name (seed C16-5): the
run then reports success although a test fails. -/
theorem first_of_name_hides_a_failure :
    let files := [("test_alpha.incn", [(⟨"test_roundtrip", false, false, false, true⟩ : Test)]),
                  ("test_beta.incn", [(⟨"test_roundtrip", false, false, false, false⟩ : Test)])]
    (runTests none false false ((collect files).map (·.2))).2.exitOk = false ∧
    (runTests none false false ((collectFirstOfName (collect files)).map (·.2))).2.exitOk = true := by
  decide

/-- Before the fix a test whose body fails was reported PASSED whenever it compiled (kernel-checked). -/
theorem old_runner_lied :
    runOneOld { name := "test_fail", skip := false, xfail := false, slow := false, bodyPasses := false } true = .passed := by
  decide

example : (runTests (some "add") false false
    [⟨"test_add", false, false, false, true⟩, ⟨"test_sub", false, false, false, false⟩,
     ⟨"test_add_slow", false, false, true, true⟩]).2 = ⟨1, 0, 0, 0, 0, true⟩ := by decide

end Incan.TestRunner
