import IncanModel.Tool.Imports
/-
C14 — Imports resolve the same everywhere and respect visibility.

Full statement `ResolversAgree`: the command-line compiler and the language server resolve every import
of every file to the same path.  It is false for the code as written (three kernel-checked witnesses
below, each replayed on the real code by the check and listed as a known finding); it is proved under
the three hypotheses that exclude exactly those witnesses.
-/
namespace Incan.Imports

/-- The full property (for one import). -/
def ResolversAgree : Prop :=
  ∀ (fs : FS) (entryDir importerDir : Path) (imp : Import),
    resolveCli fs entryDir imp = resolveShared fs importerDir imp

/-- H1: the import names a module by all of its segments (`from a.b import x`, or a single segment). -/
def H_form (imp : Import) : Prop := imp.form = .from_ ∨ imp.segments.length ≤ 1
/-- H2: the importing file lives in the entry file's directory. -/
def H_sameDir (entryDir importerDir : Path) : Prop := entryDir = importerDir
/-- H3: the module is not a directory module (`<path>/mod.incn`). -/
def H_noModFile (fs : FS) (dir : Path) (imp : Import) : Prop :=
  ∀ t, targetDir fs dir imp = some t →
    fs.fileExists (t ++ imp.segments ++ ["mod.incn"]) = false ∧
    fs.fileExists (t ++ imp.segments ++ ["mod.incan"]) = false

theorem resolvers_agree_partial (fs : FS) (entryDir importerDir : Path) (imp : Import)
    (h1 : H_form imp) (h2 : H_sameDir entryDir importerDir) (h3 : H_noModFile fs entryDir imp) :
    resolveCli fs entryDir imp = resolveShared fs importerDir imp := by
  unfold H_sameDir at h2
  subst h2
  unfold resolveCli resolveShared
  by_cases h0 : imp.segments = [] ∨ imp.segments.head? = some "std"
  · simp [h0]
  · simp only [h0, if_false]
    cases ht : targetDir fs entryDir imp with
    | none => rfl
    | some t =>
    obtain ⟨m1, m2⟩ := h3 t ht
    simp only [List.append_assoc] at m1 m2
    have key : ∀ segs, segs = imp.segments →
        (if fs.fileExists (withExt (t ++ segs) "incn") = true then
            some (withExt (t ++ segs) "incn")
          else if fs.fileExists (withExt (t ++ segs) "incan") = true then
            some (withExt (t ++ segs) "incan")
          else none) =
        (if fs.fileExists (withExt (t ++ imp.segments) "incn") = true then
            some (withExt (t ++ imp.segments) "incn")
          else if fs.fileExists (withExt (t ++ imp.segments) "incan") = true then
            some (withExt (t ++ imp.segments) "incan")
          else if fs.fileExists (t ++ imp.segments ++ ["mod.incn"]) = true then
            some (t ++ imp.segments ++ ["mod.incn"])
          else if fs.fileExists (t ++ imp.segments ++ ["mod.incan"]) = true then
            some (t ++ imp.segments ++ ["mod.incan"])
          else none) := by
      intro segs hs
      subst hs
      simp only [List.append_assoc, m1, m2]
      simp
    rcases h1 with h | h
    · simp only [h]
      exact key _ rfl
    · cases hform : imp.form
      · have hl : ¬ imp.segments.length > 1 := by omega
        simp only [hl, if_false]
        exact key _ rfl
      · exact key _ rfl

/-! ### Witnesses for the excluded cases (each is a known finding) -/

def wfs : FS := { files := [["p", "a.incn"], ["p", "a", "b.incn"], ["p", "pkg", "mod.incn"], ["p", "sub", "c.incn"],
                            ["p", "sub", "d.incn"], ["p", "d.incn"]],
                  dirs := [["p"], ["p", "a"], ["p", "pkg"], ["p", "sub"]] }

/-- `import a::b`: the CLI reads `a.incn` (b is an item), the language server reads `a/b.incn`. -/
theorem cli_drops_last_segment :
    resolveCli wfs ["p"] ⟨.module, ["a", "b"], false, 0⟩ = some ["p", "a.incn"] ∧
    resolveShared wfs ["p"] ⟨.module, ["a", "b"], false, 0⟩ = some ["p", "a", "b.incn"] := by decide

/-- `from pkg import x` with `pkg/mod.incn`: found by the language server, not by the CLI. -/
theorem cli_ignores_mod_file :
    resolveCli wfs ["p"] ⟨.from_, ["pkg"], false, 0⟩ = none ∧
    resolveShared wfs ["p"] ⟨.from_, ["pkg"], false, 0⟩ = some ["p", "pkg", "mod.incn"] := by decide

/-- `from d import x` written in `p/sub/c.incn`: the CLI resolves against the entry directory `p`
(finding `p/d.incn`), the language server against the importing file's directory (`p/sub/d.incn`). -/
theorem cli_resolves_relative_to_entry :
    resolveCli wfs ["p"] ⟨.from_, ["d"], false, 0⟩ = some ["p", "d.incn"] ∧
    resolveShared wfs ["p", "sub"] ⟨.from_, ["d"], false, 0⟩ = some ["p", "sub", "d.incn"] := by decide

theorem resolvers_do_not_agree : ¬ ResolversAgree := by
  intro h
  have := h wfs ["p"] ["p"] ⟨.module, ["a", "b"], false, 0⟩
  revert this
  decide

/-- A missing module is silently skipped by the CLI's collection (no diagnostic): the witness is any
import that resolves to nothing. -/
theorem cli_skips_missing_module :
    collectGo wfs ["p"] (fun f => if f = ["p", "main.incn"] then [⟨.from_, ["nope"], false, 0⟩] else [])
      10 [["p", "main.incn"]] [] = [["p", "main.incn"]] := by decide

/-! ### The work list never loops -/

/-- One step of the CLI's work list either drops an already processed file (the queue shrinks) or
processes a new file (the processed set grows) — the lexicographic measure
(#files not yet processed, queue length) strictly decreases, so cyclic imports cannot hang. -/
theorem worklist_step_decreases (fs : FS) (entryDir : Path) (importsOf : Path → List Import)
    (file : Path) (todo processed : List Path) :
    (processed.contains file = true →
        collectGo fs entryDir importsOf 1 (file :: todo) processed = processed) ∧
    (processed.contains file = false →
        collectGo fs entryDir importsOf 1 (file :: todo) processed = file :: processed) := by
  constructor <;> intro h
  · have hm : file ∈ processed := List.contains_iff_mem.1 h
    simp [collectGo, hm]
  · have hm : ¬ file ∈ processed := fun hm => by
      have := List.contains_iff_mem.2 hm; rw [h] at this; cases this
    simp [collectGo, hm]

/-- Every file is parsed at most once. -/
theorem collect_nodup (fs : FS) (entryDir : Path) (importsOf : Path → List Import)
    (fuel : Nat) (todo processed : List Path) (hn : processed.Nodup) :
    (collectGo fs entryDir importsOf fuel todo processed).Nodup := by
  induction fuel generalizing todo processed with
  | zero => simpa [collectGo] using hn
  | succ fuel ih =>
    cases todo with
    | nil => simpa [collectGo] using hn
    | cons file rest =>
      unfold collectGo
      by_cases hc : processed.contains file = true
      · simp only [hc, if_true]; exact ih _ _ hn
      · simp only [hc]
        apply ih
        refine List.nodup_cons.2 ⟨?_, hn⟩
        intro hm
        exact hc (List.contains_iff_mem.2 hm)

/-! ### Visibility -/

/-- Importing a name the module does not export is rejected, for both spellings, whenever the module
was pre-imported under its key. -/
theorem private_rejected (deps : List ModuleExports) (d : ModuleExports) (imp : Import) (items : List String)
    (name : String)
    (hfind : deps.find? (fun x => x.key == "_".intercalate
        (match imp.form with
          | .from_ => imp.segments
          | .module => if imp.segments.length > 1 then imp.segments.dropLast else [])) = some d)
    (hpriv : d.publicNames.contains name = false)
    (hname : (imp.form = .from_ ∧ name ∈ items) ∨
             (imp.form = .module ∧ imp.segments.length > 1 ∧ imp.segments.getLast! = name)) :
    name ∈ rejectedNames deps imp items := by
  unfold rejectedNames
  rcases hname with ⟨hf, hin⟩ | ⟨hf, hl, hlast⟩
  · simp only [hf] at hfind ⊢
    simp only [hfind]
    exact List.mem_filter.2 ⟨hin, by rw [hpriv]; rfl⟩
  · simp only [hf, hl, if_true] at hfind ⊢
    simp only [hfind]
    exact List.mem_filter.2 ⟨by rw [hlast]; simp, by rw [hpriv]; rfl⟩

example : rejectedNames [⟨"m", ["open_"]⟩] ⟨.module, ["m", "secret"], false, 0⟩ [] = ["secret"] := by decide
example : rejectedNames [⟨"m", ["open_"]⟩] ⟨.from_, ["m"], false, 0⟩ ["open_", "secret"] = ["secret"] := by decide

/-- Renaming an import with `as` changes nothing about what is rejected. -/
theorem alias_irrelevant (deps : List ModuleExports) (imp : Import) (items₁ items₂ : List ImportItem)
    (h : items₁.map (·.name) = items₂.map (·.name)) :
    rejectedItems deps imp items₁ = rejectedItems deps imp items₂ := by
  unfold rejectedItems; rw [h]

/-- A private name stays rejected under every alias — including an alias that is itself a `pub` name of the module. -/
theorem private_rejected_under_alias (deps : List ModuleExports) (d : ModuleExports) (imp : Import)
    (items : List ImportItem) (it : ImportItem)
    (hform : imp.form = .from_)
    (hfind : deps.find? (fun x => x.key == "_".intercalate imp.segments) = some d)
    (hpriv : d.publicNames.contains it.name = false) (hin : it ∈ items) :
    it.name ∈ rejectedItems deps imp items := by
  unfold rejectedItems
  apply private_rejected deps d imp _ it.name
  · simpa [hform] using hfind
  · exact hpriv
  · exact Or.inl ⟨hform, List.mem_map.2 ⟨it, hin, rfl⟩⟩

/-- Asking the local names instead lets `from m import secret as open_` through and rejects
`from m import open_ as v` (kernel-checked witnesses for the seeded change C14-5). -/
theorem local_name_check_is_wrong :
    rejectedItemsByLocalName [⟨"m", ["open_"]⟩] ⟨.from_, ["m"], false, 0⟩ [⟨"secret", some "open_"⟩] = []
    ∧ rejectedItems [⟨"m", ["open_"]⟩] ⟨.from_, ["m"], false, 0⟩ [⟨"secret", some "open_"⟩] = ["secret"]
    ∧ rejectedItemsByLocalName [⟨"m", ["open_"]⟩] ⟨.from_, ["m"], false, 0⟩ [⟨"open_", some "v"⟩] = ["v"]
    ∧ rejectedItems [⟨"m", ["open_"]⟩] ⟨.from_, ["m"], false, 0⟩ [⟨"open_", some "v"⟩] = [] := by
  decide

/-- A name is exported exactly when a `pub` declaration carries it: its own name, or — for a `pub` enum —
one of its variants.  Nothing of a private declaration is ever exported. -/
theorem exported_iff (ds : List MDecl) (n : String) :
    n ∈ exportedNames ds ↔
      ∃ d ∈ ds, d.isPub = true ∧ (n = d.name ∨ (d.kind = .enum_ ∧ n ∈ d.variants)) := by
  unfold exportedNames
  simp only [List.mem_flatMap]
  constructor
  · rintro ⟨d, hd, hn⟩
    refine ⟨d, hd, ?_⟩
    unfold declExports at hn
    cases hp : d.isPub <;> simp only [hp] at hn
    · simp at hn
    · refine ⟨rfl, ?_⟩
      cases hk : d.kind <;> simp only [hk] at hn <;> simp at hn
      case enum_ =>
        rcases hn with h | h
        · exact Or.inl h
        · exact Or.inr ⟨rfl, h⟩
      all_goals exact Or.inl hn
  · rintro ⟨d, hd, hp, hn⟩
    refine ⟨d, hd, ?_⟩
    unfold declExports
    simp only [hp, if_true]
    rcases hn with h | ⟨hk, h⟩
    · cases d.kind <;> simp [h]
    · simp [hk, h]

/-- Importing by name anything a module's private declarations introduce (the declaration itself, or a
variant of a private enum) is rejected, in both spellings. -/
theorem private_decl_rejected (ds : List MDecl) (key name : String) (imp : Import) (items : List String)
    (hkey : "_".intercalate (match imp.form with
          | .from_ => imp.segments
          | .module => if imp.segments.length > 1 then imp.segments.dropLast else []) = key)
    (hnot : ¬ ∃ d ∈ ds, d.isPub = true ∧ (name = d.name ∨ (d.kind = .enum_ ∧ name ∈ d.variants)))
    (hname : (imp.form = .from_ ∧ name ∈ items) ∨
             (imp.form = .module ∧ imp.segments.length > 1 ∧ imp.segments.getLast! = name)) :
    name ∈ rejectedNames [moduleExports key ds] imp items := by
  apply private_rejected [moduleExports key ds] (moduleExports key ds) imp items name
  · simp [List.find?, moduleExports, hkey]
  · have : name ∉ exportedNames ds := fun h => hnot ((exported_iff ds name).1 h)
    simpa [moduleExports] using this
  · exact hname

/-- A declaration that is not `pub` (and is not a variant of a `pub` enum) stays unknown in the importing file even
when the file imports something else from the module: nothing private leaks through `import_module`. -/
theorem private_unknown_by_bare_name (key : String) (ds : List MDecl) (name : String)
    (hnot : ¬ ∃ d ∈ ds, d.isPub = true ∧ (name = d.name ∨ (d.kind = .enum_ ∧ name ∈ d.variants))) :
    bareKnown [moduleExports key ds] name = false := by
  have : name ∉ exportedNames ds := fun h => hnot ((exported_iff ds name).1 h)
  simp [bareKnown, moduleExports, this]

/-- … and everything `pub` is known. -/
theorem public_known_by_bare_name (key : String) (ds : List MDecl) (d : MDecl) (hd : d ∈ ds) (hp : d.isPub = true) :
    bareKnown [moduleExports key ds] d.name = true := by
  have : d.name ∈ exportedNames ds := (exported_iff ds d.name).2 ⟨d, hd, hp, Or.inl rfl⟩
  simp [bareKnown, moduleExports, this]

example : exportedNames [⟨.enum_, "Hidden", false, ["Circle", "Square"]⟩, ⟨.enum_, "Color", true, ["Red"]⟩,
    ⟨.function, "describe", true, []⟩, ⟨.const, "K", false, []⟩] = ["Color", "Red", "describe"] := by decide

end Incan.Imports
