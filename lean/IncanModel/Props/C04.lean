import IncanModel.Lemmas.Num64
/-
C04 — Arithmetic follows the documented Python-style semantics for all operands (integer part).

Property theorems only.  Every `∀ a b : Int64` below is a real universal quantifier over all 2^128
operand pairs, discharged by the kernel.
-/
namespace Incan.Num
open Incan.IntDiv

/-- Python's `a // b` is `Int.fdiv`, Python's `a % b` is `Int.fmod` (floor and sign-of-divisor). -/
theorem modCore_spec (a b : Int64) (hb : b ≠ 0) :
    ∃ r, modCore a b = .ok r ∧ r.toInt = a.toInt.fmod b.toInt := by
  have hb' : b.toInt ≠ 0 := by rwa [Ne, ← eq_zero_iff]
  have hspec := (fdiv_fmod_of_tdiv_tmod a.toInt b.toInt hb').2
  unfold modCore wrappingRem
  simp only [hb, if_false, bind, Except.bind, pure, Except.pure]
  have hbd : b.toInt > 0 ∨ b.toInt < 0 := by omega
  have hr : (a % b).toInt = a.toInt.tmod b.toInt := Int64.toInt_mod a b
  by_cases hadj : (a % b > 0 ∧ b < 0) ∨ (a % b < 0 ∧ b > 0)
  · rw [if_pos hadj]
    refine ⟨_, rfl, ?_⟩
    have hadj' := (adj_iff _ _).1 hadj
    rw [hr] at hadj'
    rw [if_pos hadj'] at hspec
    rw [hspec, ← hr]
    apply toInt_add_range
    rw [hr]
    have := range b
    unfold adj at hadj'
    rcases hbd with h | h
    · have := tmod_bounds_pos a.toInt h; omega
    · have := tmod_bounds_neg a.toInt h; omega
  · rw [if_neg hadj]
    refine ⟨_, rfl, ?_⟩
    have hadj' : ¬ adj (a.toInt.tmod b.toInt) b.toInt := by
      rw [← hr]; exact fun h => hadj ((adj_iff _ _).2 h)
    rw [if_neg hadj'] at hspec
    rw [hspec, hr]

theorem core_eq_std_mod (a b : Int64) : modCore a b = modStd a b := rfl

/-- The two floor-division kernels, whose bodies differ, are the same function on **all** pairs
(including the panicking ones). -/
theorem core_eq_std_floorDiv (a b : Int64) : floorDivCore a b = floorDivStd a b := by
  unfold floorDivCore floorDivStd rustDiv rustRem
  by_cases hb : b = 0
  · simp [hb, bind, Except.bind]
  by_cases hov : a = Int64.minValue ∧ b = -1
  · simp [hov, bind, Except.bind]
  simp only [hb, hov, if_false, bind, Except.bind, pure, Except.pure]
  have hb' : b.toInt ≠ 0 := by rwa [Ne, ← eq_zero_iff]
  by_cases hr0 : a % b = 0
  · have : ¬ ((a % b > 0 ∧ b < 0) ∨ (a % b < 0 ∧ b > 0)) := by
      rw [hr0]; simp only [pos_iff, neg_iff, toInt_zero]; omega
    rw [if_neg this, if_pos hr0]
  · rw [if_neg hr0]
    have hr0' : (a % b).toInt ≠ 0 := by rwa [Ne, ← eq_zero_iff]
    by_cases hbpos : b > 0
    · rw [if_pos hbpos]
      have hbp := (pos_iff b).1 hbpos
      by_cases hrn : a % b < 0
      · rw [if_pos hrn, if_pos (Or.inr ⟨hrn, hbpos⟩)]
      · rw [if_neg hrn, if_neg]
        rintro (⟨_, h2⟩ | ⟨h1, _⟩)
        · rw [neg_iff] at h2; omega
        · exact hrn h1
    · rw [if_neg hbpos]
      have hbn : b.toInt < 0 := by
        have : ¬ b.toInt > 0 := fun h => hbpos ((pos_iff b).2 h)
        omega
      by_cases hrp : a % b > 0
      · rw [if_pos hrp, if_pos (Or.inl ⟨hrp, (neg_iff b).2 hbn⟩)]
      · rw [if_neg hrp, if_neg]
        rintro (⟨h1, _⟩ | ⟨_, h2⟩)
        · exact hrp h1
        · exact hbpos h2

theorem floorDivCore_spec (a b : Int64) (hb : b ≠ 0) (hov : ¬(a = Int64.minValue ∧ b = -1)) :
    ∃ q, floorDivCore a b = .ok q ∧ q.toInt = a.toInt.fdiv b.toInt := by
  have hb' : b.toInt ≠ 0 := by rwa [Ne, ← eq_zero_iff]
  have hspec := (fdiv_fmod_of_tdiv_tmod a.toInt b.toInt hb').1
  unfold floorDivCore rustDiv rustRem
  simp only [hb, hov, if_false, bind, Except.bind, pure, Except.pure]
  have hr : (a % b).toInt = a.toInt.tmod b.toInt := Int64.toInt_mod a b
  have hq : (a / b).toInt = a.toInt.tdiv b.toInt := toInt_div_safe a b hov
  by_cases hadj : (a % b > 0 ∧ b < 0) ∨ (a % b < 0 ∧ b > 0)
  · rw [if_pos hadj]
    refine ⟨_, rfl, ?_⟩
    have hadj' := (adj_iff _ _).1 hadj
    rw [hr] at hadj'
    rw [if_pos hadj'] at hspec
    rw [hspec, ← hq]
    apply toInt_sub_one
    rw [hq]
    have hne : a.toInt.tmod b.toInt ≠ 0 := by unfold adj at hadj'; omega
    have h2 := two_mul_tdiv_bounds a.toInt b.toInt hne
    have := range a
    omega
  · rw [if_neg hadj]
    refine ⟨_, rfl, ?_⟩
    have hadj' : ¬ adj (a.toInt.tmod b.toInt) b.toInt := by
      rw [← hr]; exact fun h => hadj ((adj_iff _ _).2 h)
    rw [if_neg hadj'] at hspec
    rw [hspec, hq]

theorem floorDivStd_spec (a b : Int64) (hb : b ≠ 0) (hov : ¬(a = Int64.minValue ∧ b = -1)) :
    ∃ q, floorDivStd a b = .ok q ∧ q.toInt = a.toInt.fdiv b.toInt := by
  rw [← core_eq_std_floorDiv]; exact floorDivCore_spec a b hb hov

/-- `%` never fails for a non-zero divisor, not even at `(MIN, -1)`, where the result is `0`. -/
theorem mod_min_negOne : modCore Int64.minValue (-1) = .ok 0 := by decide

/-- The excluded point of `//`: the real code panics with Rust's overflow message. -/
theorem floorDiv_min_negOne : floorDivStd Int64.minValue (-1) = .error .divOverflow := by decide

/-- Sign rule and magnitude bound for `%`. -/
theorem mod_sign_and_bound (a b : Int64) (hb : b ≠ 0) :
    ∃ r, modStd a b = .ok r ∧
      (b.toInt > 0 → 0 ≤ r.toInt ∧ r.toInt < b.toInt) ∧
      (b.toInt < 0 → b.toInt < r.toInt ∧ r.toInt ≤ 0) := by
  obtain ⟨r, h1, h2⟩ := modCore_spec a b hb
  refine ⟨r, h1, ?_, ?_⟩
  · intro hp
    rw [h2]
    exact ⟨Int.fmod_nonneg_of_pos _ hp, Int.fmod_lt_of_pos _ hp⟩
  · intro hn
    rw [h2]
    have := (Int.fdiv_fmod_unique' (a := a.toInt) (q := a.toInt.fdiv b.toInt)
      (r := a.toInt.fmod b.toInt) hn).1 ⟨rfl, rfl⟩
    omega

/-- `a == (a // b) * b + a % b`, in unbounded integers (so nothing wrapped) and hence in `i64`. -/
theorem div_mod_identity (a b : Int64) (hb : b ≠ 0) (hov : ¬(a = Int64.minValue ∧ b = -1)) :
    ∃ q r, floorDivStd a b = .ok q ∧ modStd a b = .ok r ∧
      a.toInt = q.toInt * b.toInt + r.toInt ∧ a = q * b + r := by
  obtain ⟨q, hq1, hq2⟩ := floorDivStd_spec a b hb hov
  obtain ⟨r, hr1, hr2⟩ := modCore_spec a b hb
  have hI : a.toInt = q.toInt * b.toInt + r.toInt := by
    rw [hq2, hr2, Int.mul_comm]; exact (Int.mul_fdiv_add_fmod _ _).symm
  refine ⟨q, r, hq1, hr1, hI, ?_⟩
  rw [← Int64.toInt_inj, Int64.toInt_add, Int64.toInt_mul, Int.bmod_add_bmod, ← hI]
  exact (bmod_of_range _ (range a)).symm

/-- Zero divisor: always exactly the documented error, for both integer entry points. -/
theorem zero_divisor (a : Int64) :
    pyModI64 a 0 = .error .zeroDivision ∧ pyFloorDivI64 a 0 = .error .zeroDivision := by
  simp [pyModI64, pyFloorDivI64]

theorem zeroDivision_message : Panic.zeroDivision.message = "ZeroDivisionError: float division by zero" := rfl

/-- No other failure: with a non-zero divisor the only failing pair is `MIN // -1`. -/
theorem no_other_failure (a b : Int64) (hb : b ≠ 0) :
    (∃ r, pyModI64 a b = .ok r) ∧
    ((¬(a = Int64.minValue ∧ b = -1)) → ∃ q, pyFloorDivI64 a b = .ok q) := by
  constructor
  · obtain ⟨r, h, _⟩ := modCore_spec a b hb
    exact ⟨r, by simp [pyModI64, hb, ← core_eq_std_mod, h]⟩
  · intro hov
    obtain ⟨q, h, _⟩ := floorDivStd_spec a b hb hov
    exact ⟨q, by simp [pyFloorDivI64, hb, h]⟩

/-! Non-vacuity: concrete operand pairs meeting the hypotheses. -/
example : floorDivStd (-7) 3 = .ok (-3) ∧ modStd (-7) 3 = .ok 2 := by decide
example : floorDivStd 7 (-3) = .ok (-3) ∧ modStd 7 (-3) = .ok (-2) := by decide
example : floorDivStd Int64.minValue 3 = .ok (-3074457345618258603) := by decide
example : floorDivStd Int64.maxValue (-1) = .ok (-9223372036854775807) := by decide
example : (3 : Int64) ≠ 0 ∧ ¬((-7 : Int64) = Int64.minValue ∧ (3 : Int64) = -1) := by decide

end Incan.Num
