import IncanModel.Sem.Checker
/-
C03 — ill-typed programs are rejected with a located diagnostic (traversal, scopes, match coverage).
-/
namespace Incan.Checker

theorem skipped_false (r : String) : skipped r = false := by
  simp [skipped, skippedRoles]

mutual
  theorem visitEx_all (e : Ex) : visitEx e = allEx e := by
    match e with
    | .mk id role subs blocks => simp [visitEx, allEx, skipped_false, visitExs_all subs, visitBlks_all blocks]
  theorem visitExs_all (es : List Ex) : visitExs es = allExs es := by
    match es with
    | [] => simp [visitExs, allExs]
    | e :: es => simp [visitExs, allExs, visitEx_all e, visitExs_all es]
  theorem visitSt_all (s : St) : visitSt s = allSt s := by
    match s with
    | .mk exprs blocks => simp [visitSt, allSt, visitExs_all exprs, visitBlks_all blocks]
  theorem visitSts_all (ss : List St) : visitSts ss = allSts ss := by
    match ss with
    | [] => simp [visitSts, allSts]
    | s :: ss => simp [visitSts, allSts, visitSt_all s, visitSts_all ss]
  theorem visitBlk_all (b : Blk) : visitBlk b = allBlk b := by
    match b with
    | .mk role stmts => simp [visitBlk, allBlk, skipped_false, visitSts_all stmts]
  theorem visitBlks_all (bs : List Blk) : visitBlks bs = allBlks bs := by
    match bs with
    | [] => simp [visitBlks, allBlks]
    | b :: bs => simp [visitBlks, allBlks, visitBlk_all b, visitBlks_all bs]
end

/-- MAIN (traversal): in a function body of any shape and nesting depth — then/elif/else bodies, loops, match
arm blocks, if-expressions, comprehensions, closures, call arguments … — every expression position is handed to
`check_expr`, and every statement of every block to `check_statement`.  (Which roles a construct has, and that
none is skipped, is what the correspondence checks against the implementation, role by role.) -/
theorem every_position_checked (body : Blk) (id : Nat) (h : id ∈ allBlk body) : id ∈ visitBlk body := by
  rw [visitBlk_all]; exact h

/-- Before the `elif` fix the same traversal missed positions: a kernel-checked witness. -/
theorem elif_was_skipped :
    let skippedOld : String → Bool := fun r => r == "If.elifcond" || r == "If.elif"
    let prog : Blk := .mk "Function.body" [.mk [.mk 1 "If.cond" [] []] [.mk "If.then" [], .mk "If.elif" [.mk [.mk 2 "ExprStmt" [] []] []]]]
    2 ∈ allBlk prog ∧ skippedOld "If.elif" = true := by
  decide

/-! ### Re-assignment of an immutable binding, at any nesting depth -/

theorem lookupLocal_eq_lookupInFunction (fs : Frames) (n : String) (b : Binding)
    (h : lookupLocal fs n = some b) : lookupInFunction fs n = some b := by
  cases fs with
  | nil => simp [lookupLocal] at h
  | cons f rest => simp only [lookupLocal] at h; simp [lookupInFunction, h]

/-- MAIN (mutability): a plain `x = value` is rejected whenever the `x` it re-assigns — the nearest one bound in
this block or in any enclosing block of the function — is immutable, whatever the nesting depth. -/
theorem reassign_immutable_rejected (fs : Frames) (n : String) (b : Binding)
    (hfound : lookupInFunction fs n = some b) (himm : b.isMutable = false) :
    checkAssign fs n false = .mutationWithoutMut := by
  unfold checkAssign
  cases hl : lookupLocal fs n with
  | some b' =>
    have := lookupLocal_eq_lookupInFunction fs n b' hl
    rw [hfound] at this
    injection this with this
    subst this
    simp [himm]
  | none => simp [hfound, himm]

/-- … and accepted when it is mutable or when there is no such binding (a fresh variable). -/
theorem reassign_mutable_accepted (fs : Frames) (n : String) (b : Binding)
    (hfound : lookupInFunction fs n = some b) (hmut : b.isMutable = true) :
    checkAssign fs n false = .accepted := by
  unfold checkAssign
  cases hl : lookupLocal fs n with
  | some b' =>
    have := lookupLocal_eq_lookupInFunction fs n b' hl
    rw [hfound] at this
    injection this with this
    subst this
    simp [hmut]
  | none => simp [hfound, hmut]

theorem fresh_name_accepted (fs : Frames) (n : String) (h : lookupInFunction fs n = none) :
    checkAssign fs n false = .accepted := by
  unfold checkAssign
  cases hl : lookupLocal fs n with
  | some b' => rw [lookupLocal_eq_lookupInFunction fs n b' hl] at h; cases h
  | none => simp [h]

/-- MAIN (mutation through a binding): assigning a field or an element of `x`, or calling a `mut self` method on it,
is rejected whenever the nearest `x` of the function is immutable — at any nesting depth below its declaration —
unless `x` is the variable of an enclosing `for` loop. -/
theorem mutation_through_immutable_rejected (fs : Frames) (loopVars : List String) (n : String) (b : Binding)
    (hfound : lookupInFunction fs n = some b) (himm : b.isMutable = false) (hloop : n ∉ loopVars) :
    checkMutateThrough fs loopVars n = .mutationWithoutMut := by
  unfold checkMutateThrough
  have : loopVars.contains n = false := by
    cases h : loopVars.contains n with
    | false => rfl
    | true => exact absurd (List.contains_iff_mem.1 h) hloop
  simp [hloop, hfound, himm]

theorem mutation_through_mutable_accepted (fs : Frames) (loopVars : List String) (n : String) (b : Binding)
    (hfound : lookupInFunction fs n = some b) (hmut : b.isMutable = true) :
    checkMutateThrough fs loopVars n = .accepted := by
  unfold checkMutateThrough
  split
  · rfl
  · simp [hfound, hmut]

/-- Searching only the innermost block loses the rule one block down (the shape of a seeded change). -/
theorem local_lookup_misses_nested_mutation :
    checkMutateThroughLocal [[], [⟨"c", false⟩]] "c" = .accepted ∧
    checkMutateThrough [[], [⟨"c", false⟩]] [] "c" = .mutationWithoutMut ∧
    checkMutateThrough [[], [], [⟨"c", false⟩]] ["p"] "c" = .mutationWithoutMut ∧
    checkMutateThrough [[⟨"p", false⟩], []] ["p"] "p" = .accepted := by decide

/-- The depth matters for the checker as it was: one block down, the same re-assignment was accepted. -/
theorem old_checker_missed_nested :
    checkAssignOld [[], [⟨"x", false⟩]] "x" = .accepted ∧ checkAssign [[], [⟨"x", false⟩]] "x" false = .mutationWithoutMut ∧
    checkAssign [[], [], [], [⟨"x", false⟩]] "x" false = .mutationWithoutMut := by decide

/-! ### Match coverage -/

/-- MAIN (match): a variant that no arm names, in a match without a catch-all arm, is reported missing. -/
theorem omitted_variant_reported (variants : List String) (isOption : Bool) (arms : List Pat) (v : String)
    (hv : v ∈ variants)
    (hcatch : ∀ p ∈ arms, p ≠ .wildcard ∧ p ≠ .binding)
    (hnot : ∀ p ∈ arms, p ≠ .ctor v)
    (hnone : v = "None" → isOption = true → ∀ p ∈ arms, p ≠ .noneLiteral) :
    v ∈ missingVariants variants isOption arms := by
  unfold missingVariants
  have hany : arms.any (fun p => p == .wildcard || p == .binding) = false := by
    rw [List.any_eq_false]
    intro p hp
    have := hcatch p hp
    simp [this.1, this.2]
  simp only [hany, Bool.false_eq_true, if_false]
  apply List.mem_filter.2
  refine ⟨hv, ?_⟩
  have hnotmem : v ∉ coveredNames isOption arms := by
    intro hmem
    obtain ⟨p, hp, hpv⟩ := List.mem_filterMap.1 hmem
    cases p with
    | ctor w => simp at hpv; subst hpv; exact hnot _ hp rfl
    | noneLiteral =>
      cases isOption with
      | false => simp at hpv
      | true => simp at hpv; exact hnone hpv.symm rfl _ hp rfl
    | wildcard => simp at hpv
    | binding => simp at hpv
    | other => simp at hpv
  cases hc : (coveredNames isOption arms).contains v with
  | false => rfl
  | true => exact absurd (List.contains_iff_mem.1 hc) hnotmem

/-- A complete match reports nothing (no false alarm). -/
theorem complete_match_accepted (variants : List String) (isOption : Bool) (arms : List Pat)
    (h : ∀ v ∈ variants, .ctor v ∈ arms) : missingVariants variants isOption arms = [] := by
  unfold missingVariants
  split
  · rfl
  · apply List.filter_eq_nil_iff.2
    intro v hv
    have hmem : v ∈ coveredNames isOption arms := List.mem_filterMap.2 ⟨.ctor v, h v hv, rfl⟩
    simp [hmem]

example : missingVariants ["Some", "None"] true [.ctor "Some"] = ["None"] := by decide
example : missingVariants ["Red", "Green", "Blue"] false [.ctor "Red", .ctor "Green"] = ["Blue"] := by decide
example : missingVariants ["Ok", "Err"] false [.ctor "Ok", .binding] = [] := by decide

/-! ### Call arguments -/

theorem positionals_all (args : List CArg) (h : ∀ a ∈ args, a.name = none) (i k : Nat) :
    (positionals args i)[k]? = (args[k]?).map fun a => (i + k, a.ty) := by
  induction args generalizing i k with
  | nil => simp [positionals]
  | cons a rest ih =>
    have ha : a.name = none := h a (by simp)
    have hr : ∀ b ∈ rest, b.name = none := fun b hb => h b (by simp [hb])
    simp only [positionals, ha]
    cases k with
    | zero => simp
    | succ k =>
      simp only [List.getElem?_cons_succ, ih hr (i + 1) k]
      cases rest[k]? with
      | none => rfl
      | some b => simp; omega

theorem findNamed_none (n : String) (args : List CArg) (h : ∀ a ∈ args, a.name = none) (i : Nat) :
    findNamed n args i = none := by
  induction args generalizing i with
  | nil => rfl
  | cons a rest ih =>
    have ha : a.name = none := h a (by simp)
    simp [findNamed, ih (fun b hb => h b (by simp [hb])), ha]

/-- Generalised over the position counter. -/
theorem validate_positional_aux (ok : String → String → Bool) (args : List CArg) (h : ∀ a ∈ args, a.name = none)
    (ps : List (String × String)) (k m : Nat) (hm : m < ps.length) (hj : k + m < args.length)
    (hbad : ok (args[k + m]).ty (ps[m]).2 = false) : k + m ∈ validateArgs ok args ps k := by
  induction ps generalizing k m with
  | nil => simp at hm
  | cons p ps ih =>
    obtain ⟨pn, pt⟩ := p
    have hk : k < args.length := by omega
    have hpos : (positionals args 0)[k]? = some (k, (args[k]).ty) := by
      rw [positionals_all args h 0 k]; simp [hk]
    simp only [validateArgs, findNamed_none pn args h 0, hpos]
    cases m with
    | zero =>
      simp at hbad
      simp [hbad]
    | succ m =>
      apply List.mem_append_right
      have := ih (k + 1) m (by simpa using hm) (by omega) (by
        have e : k + 1 + m = k + (m + 1) := by omega
        simpa [e] using hbad)
      have e : k + 1 + m = k + (m + 1) := by omega
      rwa [e] at this

/-- MAIN (arguments): in a call with positional arguments, every argument whose type the parameter at the same
position does not accept is reported — whatever the other parameters are (a trait-typed parameter earlier in the
list does not end the check). -/
theorem wrong_argument_reported (ok : String → String → Bool) (args : List CArg) (ps : List (String × String))
    (h : ∀ a ∈ args, a.name = none) (j : Nat) (hp : j < ps.length) (ha : j < args.length)
    (hbad : ok (args[j]).ty (ps[j]).2 = false) : j ∈ validateArgs ok args ps 0 := by
  have := validate_positional_aux ok args h ps 0 j hp (by simpa using ha) (by simpa using hbad)
  simpa using this

/-- A keyword argument of the wrong type is reported wherever its parameter stands. -/
theorem wrong_named_argument_reported (ok : String → String → Bool) (args : List CArg) (ps : List (String × String))
    (pn pt : String) (hmem : (pn, pt) ∈ ps) (i : Nat) (aty : String) (hf : findNamed pn args 0 = some (i, aty))
    (hbad : ok aty pt = false) (k : Nat) : i ∈ validateArgs ok args ps k := by
  induction ps generalizing k with
  | nil => simp at hmem
  | cons p ps ih =>
    obtain ⟨qn, qt⟩ := p
    rcases List.mem_cons.1 hmem with heq | hrest
    · cases heq
      simp [validateArgs, hf, hbad]
    · unfold validateArgs
      split
      · exact List.mem_append_right _ (ih hrest k)
      · split
        · exact List.mem_append_right _ (ih hrest (k + 1))
        · exact ih hrest k

/-- Nothing is reported on a call whose arguments all fit (no false alarm), positional case. -/
theorem fitting_arguments_accepted (ok : String → String → Bool) (args : List CArg) (ps : List (String × String))
    (h : ∀ a ∈ args, a.name = none) (k : Nat)
    (hok : ∀ m, (hm : m < ps.length) → (hj : k + m < args.length) → ok (args[k + m]).ty (ps[m]).2 = true) :
    validateArgs ok args ps k = [] := by
  induction ps generalizing k with
  | nil => rfl
  | cons p ps ih =>
    obtain ⟨pn, pt⟩ := p
    simp only [validateArgs, findNamed_none pn args h 0]
    rw [positionals_all args h 0 k]
    by_cases hk : k < args.length
    · have h0 := hok 0 (by simp) (by simpa using hk)
      simp at h0
      simp only [List.getElem?_eq_getElem hk, Option.map_some, Nat.zero_add, h0, if_true, List.nil_append]
      apply ih
      intro m hm hj
      have := hok (m + 1) (by simpa using hm) (by omega)
      have e : k + (m + 1) = k + 1 + m := by omega
      simpa [e] using this
    · simp only [List.getElem?_eq_none (Nat.le_of_not_lt hk), Option.map_none]
      apply ih
      intro m hm hj
      omega

-- the shape that was lost when the loop left at the first trait-typed parameter
example : validateArgs (fun a e => a == e || (e == "Named" && a == "Dog"))
    [⟨none, "Dog"⟩, ⟨none, "str"⟩] [("who", "Named"), ("times", "int")] 0 = [1] := by decide
example : validateArgs (fun a e => a == e) [⟨none, "int"⟩, ⟨some "b", "str"⟩, ⟨some "b", "int"⟩]
    [("a", "int"), ("b", "int")] 0 = [] := by decide

/-! ### Arity -/

theorem consumed_positional (args : List CArg) (h : ∀ a ∈ args, a.name = none) (ps : List (String × String)) (k : Nat) :
    consumedPositionals args ps k = min (k + ps.length) (max k args.length) := by
  induction ps generalizing k with
  | nil => simp [consumedPositionals]; omega
  | cons p ps ih =>
    obtain ⟨pn, pt⟩ := p
    simp only [consumedPositionals, findNamed_none pn args h 0]
    rw [positionals_all args h 0 k]
    by_cases hk : k < args.length
    · simp only [List.getElem?_eq_getElem hk, Option.map_some]
      rw [ih]; simp; omega
    · simp only [List.getElem?_eq_none (Nat.le_of_not_lt hk), Option.map_none]
      rw [ih]; simp; omega

/-- MAIN (arity, too many): a call with more positional arguments than parameters is reported, on the first
argument no parameter takes. -/
theorem surplus_argument_reported (args : List CArg) (ps : List (String × String))
    (h : ∀ a ∈ args, a.name = none) (hlen : ps.length < args.length) :
    ps.length ∈ surplusArgs args ps := by
  unfold surplusArgs
  apply List.mem_append_left
  have hc : consumedPositionals args ps 0 = ps.length := by
    rw [consumed_positional args h]; simp; omega
  rw [hc, positionals_all args h 0 ps.length]
  simp [hlen]

/-- A keyword that names no parameter is reported on that argument. -/
theorem unknown_keyword_reported (args : List CArg) (ps : List (String × String)) (i : Nat) (hi : i < args.length)
    (n : String) (hn : (args[i]).name = some n) (hnot : n ∉ ps.map (·.1)) : i ∈ surplusArgs args ps := by
  unfold surplusArgs
  apply List.mem_append_right
  apply List.mem_filter.2
  refine ⟨List.mem_range.2 hi, ?_⟩
  have hc : (ps.map (·.1)).contains n = false := by
    cases hcc : (ps.map (·.1)).contains n with
    | false => rfl
    | true => exact absurd (List.contains_iff_mem.1 hcc) hnot
  simp only [List.getElem?_eq_getElem hi, Option.bind_some, hn, hc, Bool.not_false]

theorem missing_positional_aux (args : List CArg) (h : ∀ a ∈ args, a.name = none) (defaults : List String)
    (ps : List (String × String)) (left : Nat) (j : Nat) (hj : j < ps.length) (hleft : left ≤ j)
    (hd : (ps[j]).1 ∉ defaults) : (ps[j]).1 ∈ missingParams args defaults ps left := by
  induction ps generalizing left j with
  | nil => simp at hj
  | cons p ps ih =>
    obtain ⟨pn, pt⟩ := p
    have hany : args.any (fun a => a.name == some pn) = false := by
      rw [List.any_eq_false]; intro a ha; simp [h a ha]
    simp only [missingParams, hany, Bool.false_eq_true, if_false]
    cases j with
    | zero =>
      have hl : left = 0 := by omega
      subst hl
      have hdc : defaults.contains pn = false := by
        cases hc : defaults.contains pn with
        | false => rfl
        | true => exact absurd (List.contains_iff_mem.1 hc) (by simpa using hd)
      simp only [Nat.lt_irrefl, if_false, hdc, Bool.false_eq_true, List.getElem_cons_zero]
      exact List.mem_append_left _ (List.mem_singleton.2 rfl)
    | succ j =>
      have hj' : j < ps.length := by simpa using hj
      by_cases hl : left > 0
      · simp only [hl, if_true]
        exact ih (left - 1) j hj' (by omega) (by simpa using hd)
      · simp only [hl, if_false]
        apply List.mem_append_right
        exact ih left j hj' (by omega) (by simpa using hd)

/-- MAIN (defaults): a default value whose type the parameter does not accept is reported, at that parameter. -/
theorem wrong_default_reported (ok : String → String → Bool) (ps : List (String × String × Option String))
    (i : Nat) (n t d : String) (h : ps[i]? = some (n, t, some d)) (hbad : ok d t = false) :
    i ∈ defaultErrors ok ps := by
  unfold defaultErrors
  have hi : i < ps.length := by
    rcases Nat.lt_or_ge i ps.length with hlt | hge
    · exact hlt
    · rw [List.getElem?_eq_none hge] at h; exact absurd h (by simp)
  exact List.mem_filter.2 ⟨List.mem_range.2 hi, by simp [h, hbad]⟩

/-- … and nothing else is: a declaration whose defaults all fit (or that has none) gets no default diagnostic. -/
theorem fitting_defaults_accepted (ok : String → String → Bool) (ps : List (String × String × Option String))
    (h : ∀ (i : Nat) (n t d : String), ps[i]? = some (n, t, some d) → ok d t = true) : defaultErrors ok ps = [] := by
  unfold defaultErrors
  apply List.filter_eq_nil_iff.2
  intro i _
  cases hp : ps[i]? with
  | none => simp
  | some p =>
    obtain ⟨n, t, d⟩ := p
    cases d with
    | none => simp
    | some d => simp [h i n t d hp]

example : defaultErrors (· == ·) [("a", "int", some "int"), ("b", "str", some "int"), ("c", "bool", none)] = [1] := by decide

/-- MAIN (arity, too few): in a positional call, every parameter beyond the arguments that has no default value is
reported missing. -/
theorem missing_argument_reported (args : List CArg) (h : ∀ a ∈ args, a.name = none) (defaults : List String)
    (ps : List (String × String)) (j : Nat) (hj : j < ps.length) (hbeyond : args.length ≤ j)
    (hd : (ps[j]).1 ∉ defaults) : (ps[j]).1 ∈ missingParams args defaults ps (positionalCount args) := by
  apply missing_positional_aux args h defaults ps _ j hj _ hd
  unfold positionalCount
  exact Nat.le_trans (List.length_filter_le _ _) hbeyond

example : surplusArgs [⟨none, "int"⟩, ⟨none, "int"⟩] [("v", "int")] = [1] := by decide
example : surplusArgs [⟨none, "int"⟩, ⟨some "nope", "int"⟩] [("v", "int")] = [1] := by decide
example : missingParams [⟨none, "int"⟩] ["c"] [("a", "int"), ("b", "int"), ("c", "int")] 1 = ["b"] := by decide

/-! ### Trait adoption -/

/-- MAIN (adoption, methods): a required method (no default body) that the adopter does not have is reported. -/
theorem missing_required_method_reported (okTy okSig : String → String → Bool) (t : TraitSpec) (a : Adopter)
    (m sig : String) (hm : (m, false, sig) ∈ t.methods) (hno : lookupS m a.methods = none) :
    .missingMethod m ∈ conformance okTy okSig t a := by
  unfold conformance
  apply List.mem_append_right
  apply List.mem_flatMap.2
  exact ⟨(m, false, sig), hm, by simp [hno]⟩

/-- A required method implemented with another signature is reported. -/
theorem wrong_signature_reported (okTy okSig : String → String → Bool) (t : TraitSpec) (a : Adopter)
    (m sig s : String) (hm : (m, false, sig) ∈ t.methods) (hs : lookupS m a.methods = some s)
    (hbad : okSig sig s = false) : .methodSig m ∈ conformance okTy okSig t a := by
  unfold conformance
  apply List.mem_append_right
  apply List.mem_flatMap.2
  exact ⟨(m, false, sig), hm, by simp [hs, hbad]⟩

/-- MAIN (adoption, fields): a `@requires` field the adopter lacks, or has with an incompatible type, is reported. -/
theorem missing_required_field_reported (okTy okSig : String → String → Bool) (t : TraitSpec) (a : Adopter)
    (f ty : String) (hf : (f, ty) ∈ t.requires) (hno : lookupS f a.fields = none) :
    .missingField f ∈ conformance okTy okSig t a := by
  unfold conformance
  apply List.mem_append_left
  apply List.mem_flatMap.2
  exact ⟨(f, ty), hf, by simp [hno]⟩

theorem wrong_field_type_reported (okTy okSig : String → String → Bool) (t : TraitSpec) (a : Adopter)
    (f ty fty : String) (hf : (f, ty) ∈ t.requires) (hs : lookupS f a.fields = some fty)
    (hbad : okTy fty ty = false) : .fieldType f ∈ conformance okTy okSig t a := by
  unfold conformance
  apply List.mem_append_left
  apply List.mem_flatMap.2
  exact ⟨(f, ty), hf, by simp [hs, hbad]⟩

/-- No false alarm: an adopter with every required field (compatible type) and every required method
(compatible signature) is accepted; default methods need not be re-declared. -/
theorem conforming_adopter_accepted (okTy okSig : String → String → Bool) (t : TraitSpec) (a : Adopter)
    (hf : ∀ f ty, (f, ty) ∈ t.requires → ∃ fty, lookupS f a.fields = some fty ∧ okTy fty ty = true)
    (hm : ∀ m sig, (m, false, sig) ∈ t.methods → ∃ s, lookupS m a.methods = some s ∧ okSig sig s = true) :
    conformance okTy okSig t a = [] := by
  unfold conformance
  rw [List.append_eq_nil_iff]
  constructor
  · apply List.flatMap_eq_nil_iff.2
    intro x hx
    obtain ⟨f, ty⟩ := x
    obtain ⟨fty, h1, h2⟩ := hf f ty hx
    simp [h1, h2]
  · apply List.flatMap_eq_nil_iff.2
    intro x hx
    obtain ⟨m, hasBody, sig⟩ := x
    cases hasBody with
    | true => simp
    | false =>
      obtain ⟨s, h1, h2⟩ := hm m sig hx
      simp [h1, h2]

example : conformance (· == ·) (· == ·) ⟨[("name", "str")], [("area", false, "()->int"), ("describe", true, "()->str")]⟩
    ⟨[("w", "int")], [("describe", "()->str")]⟩ = [.missingField "name", .missingMethod "area"] := by decide

end Incan.Checker
