import IncanModel.Syntax.Layout
/-
C10 — Layout and comments never change how a program is parsed (lexer layer).

Each theorem quantifies over **every lexer state and every continuation `rest`**, i.e. over every
position of every file at once: the lexer is a left fold, so an edit that leaves the state unchanged
at the point where it occurs leaves the whole token stream unchanged.
-/
namespace Incan.Layout

def IsBlankCh (c : Char) : Prop := c = ' ' ∨ c = '\t' ∨ c = '\r'

theorem run1_cons (s : S1) (it : Item) (rest : List Item) : run1 s (it :: rest) = run1 (step1 s it) rest := rfl

theorem run1_append (s : S1) (a b : List Item) : run1 s (a ++ b) = run1 (run1 s a) b := by
  simp [run1, List.foldl_append]

/-- Trailing / interior spaces and tabs inside a logical line are ignored. -/
theorem space_in_line_ignored (s : S1) (hm : s.mode = .code) (c : Char) (hc : c = ' ' ∨ c = '\t') (rest : List Item) :
    run1 s (.ch c :: rest) = run1 s rest := by
  rw [run1_cons]
  congr 1
  rcases hc with rfl | rfl <;> simp [step1, hm, codeStep] <;> cases s <;> simp_all

/-- A carriage return is ignored in every state (CRLF = LF). -/
theorem cr_ignored (s : S1) (rest : List Item) : run1 s (.ch '\r' :: rest) = run1 s rest := by
  rw [run1_cons]
  congr 1
  cases s with
  | mk mode depth out =>
    cases mode <;> simp [step1, codeStep]

/-- Reading a comment body (no newline in it) from comment mode changes nothing. -/
theorem comment_body_skipped (s : S1) (hm : s.mode = .cmtCode ∨ s.mode = .cmtLs) (body : List Char)
    (hb : '\n' ∉ body) : run1 s (body.map .ch) = s := by
  induction body with
  | nil => rfl
  | cons c cs ih =>
    have hc : c ≠ '\n' := fun h => hb (by simp [h])
    have hcs : '\n' ∉ cs := fun h => hb (by simp [h])
    simp only [List.map_cons, run1_cons]
    have : step1 s (.ch c) = s := by
      rcases hm with hm | hm <;> simp [step1, hm] <;> split <;> simp_all
    rw [this]; exact ih hcs

/-- A trailing comment is invisible: `code  # comment⏎` lexes like `code⏎`. -/
theorem trailing_comment_ignored (s : S1) (hm : s.mode = .code) (body : List Char) (hb : '\n' ∉ body)
    (rest : List Item) :
    run1 s (.ch '#' :: (body.map .ch ++ .ch '\n' :: rest)) = run1 s (.ch '\n' :: rest) := by
  rw [run1_cons, run1_append]
  have h1 : step1 s (.ch '#') = { s with mode := .cmtCode } := by simp [step1, hm, codeStep]
  rw [h1, comment_body_skipped _ (Or.inl rfl) body hb, run1_cons, run1_cons]
  congr 1
  cases s with
  | mk mode depth out =>
    simp only at hm; subst hm
    simp [step1, codeStep]

/-- Leading blanks at the start of a line only accumulate a width. -/
def width : List Char → Nat
  | [] => 0
  | ' ' :: r => 1 + width r
  | '\t' :: r => 4 + width r
  | _ :: r => width r

theorem leading_blanks (s : S1) (n : Nat) (hm : s.mode = .ls n) (ws : List Char) (hws : ∀ c ∈ ws, IsBlankCh c) :
    run1 s (ws.map .ch) = { s with mode := .ls (n + width ws) } := by
  induction ws generalizing s n with
  | nil => cases s; simp_all [run1, width]
  | cons c cs ih =>
    have hc := hws c (by simp)
    have hcs : ∀ c ∈ cs, IsBlankCh c := fun x hx => hws x (by simp [hx])
    simp only [List.map_cons, run1_cons]
    rcases hc with rfl | rfl | rfl
    · rw [ih (step1 s (.ch ' ')) (n + 1) (by simp [step1, hm]) hcs]
      cases s; simp_all [step1, width]; omega
    · rw [ih (step1 s (.ch '\t')) (n + 4) (by simp [step1, hm]) hcs]
      cases s; simp_all [step1, width]; omega
    · rw [ih (step1 s (.ch '\r')) n (by simp [step1, hm]) hcs]
      cases s; simp_all [step1, width]

/-- A blank line (any blanks, then newline) at the start of a line is invisible. -/
theorem blank_line_ignored (s : S1) (hm : s.mode = .ls 0) (ws : List Char) (hws : ∀ c ∈ ws, IsBlankCh c)
    (rest : List Item) : run1 s (ws.map .ch ++ .ch '\n' :: rest) = run1 s rest := by
  rw [run1_append, leading_blanks s 0 hm ws hws, run1_cons]
  congr 1
  cases s; simp_all [step1]

/-- A comment line with any indentation of its own is invisible. -/
theorem comment_line_ignored (s : S1) (hm : s.mode = .ls 0) (ws : List Char) (hws : ∀ c ∈ ws, IsBlankCh c)
    (body : List Char) (hb : '\n' ∉ body) (rest : List Item) :
    run1 s (ws.map .ch ++ .ch '#' :: (body.map .ch ++ .ch '\n' :: rest)) = run1 s rest := by
  rw [run1_append, leading_blanks s 0 hm ws hws]
  rw [run1_cons, run1_append]
  have h1 : step1 { s with mode := .ls (0 + width ws) } (.ch '#') = { s with mode := .cmtLs } := by
    simp [step1]
  rw [h1, comment_body_skipped _ (Or.inr rfl) body hb, run1_cons]
  congr 1
  cases s; simp_all [step1]

/-- Inside brackets a line break, followed by any continuation indentation, is invisible. -/
theorem newline_in_brackets_ignored (s : S1) (hm : s.mode = .code) (hd : s.depth > 0) (ws : List Char)
    (hws : ∀ c ∈ ws, c = ' ' ∨ c = '\t') (rest : List Item) :
    run1 s (.ch '\n' :: (ws.map .ch ++ rest)) = run1 s rest := by
  rw [run1_cons]
  have h1 : step1 s (.ch '\n') = s := by
    cases s; simp_all [step1, codeStep]
  rw [h1]
  induction ws with
  | nil => rfl
  | cons c cs ih =>
    simp only [List.map_cons, List.cons_append]
    rw [space_in_line_ignored s hm c (hws c (by simp))]
    exact ih (fun x hx => hws x (by simp [hx]))

/-! ### Re-indentation (stage 2) -/

def reindent (f : Nat → Nat) : Event → Event
  | .lineStart n => .lineStart (f n)
  | e => e

def StrictMono0 (f : Nat → Nat) : Prop := f 0 = 0 ∧ ∀ a b, a < b → f a < f b

theorem mono_le {f : Nat → Nat} (hf : StrictMono0 f) (a b : Nat) : a ≤ b ↔ f a ≤ f b := by
  constructor
  · intro h
    rcases Nat.lt_or_eq_of_le h with h | h
    · exact Nat.le_of_lt (hf.2 a b h)
    · subst h; exact Nat.le_refl _
  · intro h
    by_cases hab : a ≤ b
    · exact hab
    · have := hf.2 b a (by omega); omega

theorem mono_lt {f : Nat → Nat} (hf : StrictMono0 f) (a b : Nat) : a < b ↔ f a < f b := by
  have := mono_le hf b a; omega

theorem mono_eq {f : Nat → Nat} (hf : StrictMono0 f) (a b : Nat) : a = b ↔ f a = f b := by
  have h1 := mono_le hf a b; have h2 := mono_le hf b a; omega

theorem popTo_map {f : Nat → Nat} (hf : StrictMono0 f) (n : Nat) (st : List Nat) :
    popTo (f n) (st.map f) = ((popTo n st).1.map f, (popTo n st).2) := by
  induction st with
  | nil => simp [popTo, hf.1]
  | cons top rest ih =>
    simp only [List.map_cons, popTo]
    by_cases h : n ≥ top
    · have h' : f n ≥ f top := (mono_le hf top n).1 h
      simp [h, h']
    · have h' : ¬ f n ≥ f top := fun hh => h ((mono_le hf top n).2 hh)
      simp only [h, h', if_false]
      cases rest with
      | nil => simp [hf.1]
      | cons r rs =>
        simp only [List.map_cons] at ih ⊢
        rw [ih]

theorem headD_map {f : Nat → Nat} (hf : StrictMono0 f) (st : List Nat) : (st.map f).headD 0 = f (st.headD 0) := by
  cases st <;> simp [hf.1]

/-- One event: the states stay related (stack mapped through `f`, same output). -/
theorem step2_reindent {f : Nat → Nat} (hf : StrictMono0 f) (s : S2) (e : Event) :
    step2 { stack := s.stack.map f, out := s.out } (reindent f e)
      = { stack := (step2 s e).stack.map f, out := (step2 s e).out } := by
  cases e with
  | lineStart n =>
    simp only [reindent, step2]
    rw [headD_map hf]
    by_cases h1 : n > s.stack.headD 0
    · have h1' : f n > f (s.stack.headD 0) := (mono_lt hf _ _).1 h1
      rw [if_pos h1, if_pos h1']
      rfl
    · have h1' : ¬ f n > f (s.stack.headD 0) := fun h => h1 ((mono_lt hf _ _).2 h)
      rw [if_neg h1, if_neg h1']
      by_cases h2 : n < s.stack.headD 0
      · have h2' : f n < f (s.stack.headD 0) := (mono_lt hf _ _).1 h2
        rw [if_pos h2, if_pos h2', popTo_map hf]
        simp only
        rw [headD_map hf]
        by_cases h3 : (popTo n s.stack).1.headD 0 ≠ n
        · have h3' : f ((popTo n s.stack).1.headD 0) ≠ f n := fun h => h3 ((mono_eq hf _ _).2 h)
          rw [if_pos h3, if_pos h3']
        · have h3' : ¬ f ((popTo n s.stack).1.headD 0) ≠ f n := fun h => h3 (fun e => h (by rw [e]))
          rw [if_neg h3, if_neg h3']
      · have h2' : ¬ f n < f (s.stack.headD 0) := fun h => h2 ((mono_lt hf _ _).2 h)
        rw [if_neg h2, if_neg h2']
  | tok id => simp [reindent, step2]
  | newline => simp [reindent, step2]
  | bad => simp [reindent, step2]

theorem run2_reindent {f : Nat → Nat} (hf : StrictMono0 f) (s : S2) (evs : List Event) :
    run2 { stack := s.stack.map f, out := s.out } (evs.map (reindent f))
      = { stack := (run2 s evs).stack.map f, out := (run2 s evs).out } := by
  induction evs generalizing s with
  | nil => rfl
  | cons e es ih =>
    simp only [List.map_cons, run2, List.foldl_cons]
    rw [step2_reindent hf]
    exact ih (step2 s e)

/-- **Re-indentation**: replacing every indentation width `n` by `f n`, for any strictly increasing
`f` with `f 0 = 0` (2↔4 spaces, tabs counted as 4 columns, …), yields the same token stream —
block structure depends only on *relative* indentation. -/
theorem reindent_invariant {f : Nat → Nat} (hf : StrictMono0 f) (evs : List Event) :
    tokens (evs.map (reindent f)) = tokens evs := by
  unfold tokens
  have := run2_reindent hf S2.init evs
  simp only [S2.init, List.map_cons, List.map_nil, hf.1] at this
  simp only [S2.init]
  rw [this]
  simp [finish]

/-- A final newline only adds the NEWLINE token that closes the last logical line. -/
theorem final_newline (items : List Item) (hm : (run1 S1.init items).mode = .code)
    (hd : (run1 S1.init items).depth = 0) :
    events (items ++ [.ch '\n']) = events items ++ [.newline] := by
  unfold events
  rw [run1_append]
  generalize run1 S1.init items = s at *
  cases s; simp_all [run1, step1, codeStep]

/-- Blanks after the last line break (no line break after them) are invisible: whatever their width — narrower than,
equal to or wider than the open block — no INDENT, DEDENT or error is produced for them; the file lexes as without. -/
theorem eof_blank_tail_invisible (items : List Item) (n : Nat) (hm : (run1 S1.init items).mode = .ls n)
    (ws : List Char) (hws : ∀ c ∈ ws, IsBlankCh c) :
    lex (items ++ ws.map .ch) = lex items := by
  unfold lex events
  rw [run1_append, leading_blanks _ n hm ws hws]

/-- … and the same for a comment without a line break at the very end of the file. -/
theorem eof_comment_tail_invisible (items : List Item) (n : Nat) (hm : (run1 S1.init items).mode = .ls n)
    (ws : List Char) (hws : ∀ c ∈ ws, IsBlankCh c) (body : List Char) (hb : '\n' ∉ body) :
    lex (items ++ (ws.map .ch ++ .ch '#' :: body.map .ch)) = lex items := by
  unfold lex events
  rw [run1_append, run1_append, leading_blanks _ n hm ws hws, run1_cons]
  have h1 : step1 { run1 S1.init items with mode := .ls (n + width ws) } (.ch '#')
      = { run1 S1.init items with mode := .cmtLs } := by simp [step1]
  rw [h1, comment_body_skipped _ (Or.inr rfl) body hb]

example : lex [.tok 1 false false, .ch '\n', .ch ' ', .ch ' ', .tok 2 false false, .ch '\n', .ch ' ', .ch ' ', .ch ' ', .ch ' ', .ch ' ', .ch '\t']
    = lex [.tok 1 false false, .ch '\n', .ch ' ', .ch ' ', .tok 2 false false, .ch '\n'] := by decide


/-! Concrete instances. -/
example : StrictMono0 (fun n => 2 * n) := ⟨rfl, fun a b h => by show 2 * a < 2 * b; omega⟩

/-- `def f():⏎····x⏎` with 4-space, 2-space and tab indentation, CRLF, comments and blank lines. -/
example :
    lex [.tok 1 false false, .ch '\n', .ch ' ', .ch ' ', .ch ' ', .ch ' ', .tok 2 false false, .ch '\n']
      = lex [.tok 1 false false, .ch ' ', .ch '#', .ch 'c', .ch '\r', .ch '\n', .ch '\n', .ch ' ', .ch '#', .ch '\n',
             .ch '\t', .tok 2 false false, .ch ' ', .ch '\r', .ch '\n'] := by decide

end Incan.Layout
