import IncanModel.Props.C08
import IncanModel.Tool.FmtCli
import IncanModel.Lemmas.Writer
/-
C09 — Formatting is idempotent and consistent with --check.

Three parts:
  * idempotence on the expression ladder, as a corollary of the C08 round trip (for every producible
    expression, formatting the re-parsed formatted text gives the same tokens);
  * the CLI decision logic, stated outright: `--check` / `--diff` never change a file; after a
    rewriting run, `--check` succeeds exactly when the formatter is idempotent on that file;
  * the general fact that makes C09 a consequence of C08 for any printer/parser pair.
Text hygiene: the output writer (indentation, line breaks, blank lines) has a model (Tool/Writer) and a theorem —
it never adds a tab or trailing whitespace to what the formatter hands it; what the formatter hands it (pieces that do not
end a line in a blank) and the single final newline are decided by the oracle.
-/
namespace Incan.Ladder

/-- Any printer/parser pair that round-trips is idempotent: re-formatting formatted output is a no-op. -/
theorem idempotent_of_roundtrip {A T : Type} (fmt : A → T) (parse : T → Option A) (e : A)
    (h : parse (fmt e) = some e) : (parse (fmt e)).map fmt = some (fmt e) := by
  rw [h]; rfl

/-- `fmt (parse (fmt e)) = fmt e` for every producible expression, for every large enough fuel. -/
theorem fmt_idempotent (e : Expr) (h : WL 0 e) :
    ∃ f0, ∀ f, f0 ≤ f → (parse f 0 (fmt e)).map (fun r => fmt r.1) = some (fmt e) := by
  obtain ⟨f0, hf⟩ := roundtrip e h
  exact ⟨f0, fun f hle => by rw [hf f hle]; rfl⟩

end Incan.Ladder

namespace Incan.FmtCli

/-- `--check` and `--diff` are read-only, whatever the formatter does. -/
theorem check_diff_readonly (fmt : String → Option String) (checkMode diffMode : Bool) (source : String)
    (h : checkMode = true ∨ diffMode = true) :
    (perFile fmt checkMode diffMode source).contents = source ∧
    (perFile fmt checkMode diffMode source).formatted = false := by
  unfold perFile
  cases hf : fmt source with
  | none => simp
  | some t =>
    rcases h with h | h
    · simp [h]
    · cases checkMode <;> simp [h]

/-- After `incan fmt` rewrote a file, `incan fmt --check` exits 0 on it — provided the formatter is
idempotent on that file (C09's first clause); and it fails otherwise. -/
theorem check_after_fmt (fmt : String → Option String) (source t : String) (h1 : fmt source = some t) :
    let after := (perFile fmt false false source).contents
    (fmt t = some t → exitOk true false (perFile fmt true false after) = true) ∧
    (∀ t', fmt t = some t' → t' ≠ t → exitOk true false (perFile fmt true false after) = false) := by
  have hafter : (perFile fmt false false source).contents = t := by
    unfold perFile
    simp only [h1]
    by_cases hc : (source != t) = true
    · simp [hc]
    · simp only [hc]
      simp only [bne_iff_ne, ne_eq, Decidable.not_not] at hc
      simp [hc]
  simp only [hafter]
  constructor
  · intro h2
    simp [perFile, h2, exitOk]
  · intro t' h2 hne
    have : (t != t') = true := by simp [bne_iff_ne]; exact fun h => hne h.symm
    simp [perFile, h2, exitOk, this]

/-- A file that does not parse is reported as an error and left untouched in every mode. -/
theorem unparseable_untouched (fmt : String → Option String) (c d : Bool) (source : String)
    (h : fmt source = none) :
    (perFile fmt c d source).contents = source ∧ exitOk c d (perFile fmt c d source) = false := by
  simp [perFile, h, exitOk]

/-- `check_formatted` agrees with the CLI's notion of "changed". -/
theorem checkFormatted_iff (fmt : String → Option String) (source t : String) (h : fmt source = some t) :
    checkFormatted fmt source = some true ↔ (perFile fmt true false source).needsFormatting = false := by
  simp [checkFormatted, perFile, h, bne_iff_ne]

/-- Over a whole directory, `--check` / `--diff` leave **every** file untouched, wherever it comes in
the list and whatever happened to the files before it. -/
theorem runFiles_readonly (fmt : String → Option String) (c d : Bool) (files : List String)
    (h : c = true ∨ d = true) :
    (runFiles fmt c d files).1.map (·.contents) = files := by
  unfold runFiles
  simp only [List.map_map]
  induction files with
  | nil => rfl
  | cons f fs ih =>
    simp only [List.map_cons, Function.comp]
    rw [(check_diff_readonly fmt c d f h).1]
    exact congrArg _ ih

example : (perFile (fun _ => some "x\n") true true "y").contents = "y" := by decide

end Incan.FmtCli

namespace Incan.Writer

/-- MAIN (writer): whatever sequence of operations the formatter performs, as long as its pieces contain no tab and no
line break and it never ends a line right after a piece that ends in a blank, the text has no trailing whitespace (on a finished line or at its very end) and
no tab — indentation and blank lines never add any. -/
theorem writer_hygiene_aux (ops : List Op) (w : W) (pend : Bool) (h : Inv w.out pend) (hc : clientOk pend ops = true) :
    noTrailing (run w ops).out = true ∧ (run w ops).out.all (fun c => !isTab c) = true ∧
      endsBlank (run w ops).out = false := by
  induction ops generalizing w pend with
  | nil =>
    refine ⟨h.trailing, h.tabs, ?_⟩
    have hp : pend = false := by simpa [clientOk] using hc
    cases hb : endsBlank (run w []).out with
    | false => rfl
    | true => exact absurd (h.blank hb) (by rw [hp]; decide)
  | cons op rest ih =>
    cases op with
    | write s =>
      simp only [clientOk, Bool.and_eq_true] at hc
      exact ih (write w s) _ (inv_write w s pend h hc.1) hc.2
    | newline =>
      simp only [clientOk, Bool.and_eq_true, Bool.not_eq_true'] at hc
      have hp : pend = false := hc.1
      subst hp
      exact ih (newline w) false (inv_newline w.out h) hc.2
    | indent =>
      exact ih _ pend h (by simpa [clientOk] using hc)
    | dedent =>
      exact ih _ pend h (by simpa [clientOk] using hc)
    | endLine =>
      simp only [clientOk, Bool.and_eq_true, Bool.not_eq_true'] at hc
      have hp : pend = false := hc.1
      subst hp
      show _ ∧ _
      simp only [run, List.foldl_cons, step]
      cases hw : w.atStart with
      | true => simpa [run] using ih w false h hc.2
      | false => simpa [run] using ih (newline w) false (inv_newline w.out h) hc.2
    | blankLines n =>
      simp only [clientOk, Bool.and_eq_true] at hc
      cases n with
      | zero =>
        have : clientOk pend rest = true := by simpa using hc.2
        simpa [run, step, blank] using ih w pend h this
      | succ k =>
        have hp : pend = false := by simpa using hc.1
        subst hp
        have : clientOk false rest = true := by simpa using hc.2
        simpa [run, step] using ih (blank (k + 1) w) false (inv_blank (k + 1) w h) this

theorem writer_hygiene (ops : List Op) (width : Nat) (hc : clientOk false ops = true) :
    noTrailing (run { width := width } ops).out = true ∧ (run { width := width } ops).out.all (fun c => !isTab c) = true ∧
      endsBlank (run { width := width } ops).out = false :=
  writer_hygiene_aux ops _ false ⟨rfl, rfl, fun h => by simp [endsBlank] at h⟩ hc

/-- A blank line inside an indented block is empty: a line break at line start adds nothing but the line break. -/
theorem blank_line_is_empty (w : W) (_h : w.atStart = true) : (newline w).out = w.out ++ ['\n'] := rfl

/-- The seeded variant (C09-6) that writes the indentation before every line break leaves blanks at the end of a line. -/
def newlineIndenting (w : W) : W := newline (writeIndent w)

theorem indenting_newline_leaves_trailing_blanks :
    noTrailing (newlineIndenting (newline (write { level := 1 } ['x']))).out = false := by decide

end Incan.Writer
