import IncanModel.Lemmas.Cargo
import IncanModel.Tool.Scanners
/-
C15 — The generated Cargo project declares exactly what the code needs, pinned.
-/
namespace Incan.Cargo

/-- Every entry of the known-good table has an explicit version. -/
theorem table_pinned : ∀ e ∈ knownTable, e.2 ≠ Spec.wildcard := by
  decide

theorem known_pinned (name : String) (spec : Spec) (h : known name = some spec) : spec ≠ .wildcard := by
  unfold known at h
  cases hf : knownTable.find? (fun e => e.1 == name) with
  | none => simp [hf] at h
  | some e =>
    simp only [hf, Option.map_some, Option.some.injEq] at h
    subst h
    exact table_pinned e (List.mem_of_find?_eq_some hf)

/-- A crate without a known-good version is refused — the build never continues with it. -/
theorem unknown_refused (imports : List String) (acc : List (String × Spec)) (c : String)
    (hc : c ∈ imports) (hk : known c = none) : ∃ e, addCrates imports acc = .error e := by
  induction imports generalizing acc with
  | nil => cases hc
  | cons x xs ih =>
    unfold addCrates
    cases hx : known x with
    | none => exact ⟨x, rfl⟩
    | some spec =>
      rcases List.mem_cons.1 hc with rfl | hc'
      · rw [hk] at hx; cases hx
      · exact ih _ hc'

/-- Whatever is accepted is pinned: the table built from the imports never contains a wildcard. -/
theorem addCrates_pinned (imports : List String) (acc table : List (String × Spec))
    (hacc : ∀ e ∈ acc, e.2 ≠ .wildcard) (h : addCrates imports acc = .ok table) :
    ∀ e ∈ table, e.2 ≠ .wildcard := by
  induction imports generalizing acc with
  | nil => simp only [addCrates, Except.ok.injEq] at h; subst h; exact hacc
  | cons x xs ih =>
    unfold addCrates at h
    cases hx : known x with
    | none => simp [hx] at h
    | some spec =>
      simp only [hx] at h
      apply ih _ _ h
      intro e he
      rcases List.mem_cons.1 he with rfl | he'
      · exact known_pinned x spec hx
      · exact hacc e (List.mem_filter.1 he').1

theorem fixed_pinned (f : Flags) : ∀ e ∈ fixedDeps f, e.2 ≠ .wildcard := by
  intro e he
  unfold fixedDeps at he
  simp only [List.mem_append, List.mem_cons, List.mem_nil_iff, or_false] at he
  rcases he with ((rfl | rfl) | he) | he
  · simp
  · simp
  · split at he <;> simp_all
    rcases he with rfl | rfl <;> simp
  · split at he
    · simp only [List.mem_cons, List.mem_nil_iff, or_false] at he; rcases he with rfl | rfl <;> simp
    · split at he
      · simp only [List.mem_cons, List.mem_nil_iff, or_false] at he; subst he; simp
      · cases he

/-- **All pinned**: no dependency of the generated manifest is a wildcard. -/
theorem all_pinned (f : Flags) (table : List (Name × Spec)) (ht : ∀ e ∈ table, e.2 ≠ .wildcard) :
    ∀ e ∈ manifestDeps f table, e.2 ≠ .wildcard := by
  intro e he
  unfold manifestDeps rustDeps at he
  rcases List.mem_append.1 he with he | he
  · exact fixed_pinned f e he
  · have := (List.mem_filter.1 he).1
    exact ht e ((List.mergeSort_perm table _).mem_iff.1 this)

/-- **Exactly what is needed**: the declared names are the fixed runtime/feature crates plus the
`rust::` crates — every one of them, and nothing else. -/
theorem deps_exact (f : Flags) (table : List (Name × Spec)) (x : Name) :
    x ∈ (manifestDeps f table).map (·.1) ↔ x ∈ (fixedDeps f).map (·.1) ∨ x ∈ table.map (·.1) := by
  unfold manifestDeps rustDeps
  simp only [List.map_append, List.mem_append, List.mem_map, List.mem_filter]
  constructor
  · rintro (h | ⟨e, ⟨he, _⟩, rfl⟩)
    · exact Or.inl h
    · exact Or.inr ⟨e, (List.mergeSort_perm table _).mem_iff.1 he, rfl⟩
  · rintro (h | ⟨e, he, rfl⟩)
    · exact Or.inl h
    · by_cases hf : ((fixedDeps f).map (·.1)).contains e.1 = true
      · left
        have := List.contains_iff_mem.1 hf
        simpa [List.mem_map] using this
      · right
        exact ⟨e, ⟨(List.mergeSort_perm table _).mem_iff.2 he, by simpa using hf⟩, rfl⟩

theorem fixed_names_nodup (f : Flags) : ((fixedDeps f).map (·.1)).Nodup := by
  obtain ⟨s, t, a⟩ := f
  cases s <;> cases t <;> cases a <;> decide

/-- **Valid manifest**: no dependency name is declared twice (a duplicate key is a TOML error). -/
theorem names_nodup (f : Flags) (table : List (Name × Spec)) (hn : (table.map (·.1)).Nodup) :
    ((manifestDeps f table).map (·.1)).Nodup := by
  unfold manifestDeps
  rw [List.map_append, List.nodup_append]
  refine ⟨fixed_names_nodup f, ?_, ?_⟩
  · unfold rustDeps
    have hperm : ((table.mergeSort (fun a b => lexLe a.1 b.1)).map (·.1)).Perm (table.map (·.1)) :=
      (List.mergeSort_perm table _).map _
    have hnod : ((table.mergeSort (fun a b => lexLe a.1 b.1)).map (·.1)).Nodup := hperm.nodup_iff.2 hn
    exact hnod.sublist ((List.filter_sublist).map _)
  · intro a ha b hb
    unfold rustDeps at hb
    obtain ⟨e, he, rfl⟩ := List.mem_map.1 hb
    have h2 := (List.mem_filter.1 he).2
    intro hab
    subst hab
    have hc : ((fixedDeps f).map (·.1)).contains e.1 = true := List.contains_iff_mem.2 ha
    rw [hc] at h2
    cases h2

example : (fixedDeps ⟨true, false, true⟩).map (·.1) = [n_incan_stdlib, n_incan_derive, n_serde, n_serde_json, n_axum, n_tokio] := by decide

end Incan.Cargo

/-! ### Feature detection reaches every position -/
namespace Incan.Scanners

theorem json_follows_every_step : ∀ s ∈ allSteps, s ∈ jsonSteps := by decide
theorem async_follows_every_step : ∀ s ∈ allSteps, s ∈ asyncSteps := by decide

theorem scans_of_subset (followed path : List String) (h : ∀ s ∈ path, s ∈ followed) : scans followed path = true := by
  unfold scans
  rw [List.all_eq_true]
  intro s hs
  exact List.contains_iff_mem.2 (h s hs)

/-- MAIN (serde detection): a `json_stringify` call at any expression position of a program — in any declaration
that carries code (functions, methods of models / classes / newtypes, trait default methods, const initializers,
field defaults), under any nesting of statements and expressions — is found by the scanner, so `serde` and
`serde_json` are declared. -/
theorem json_trigger_found_everywhere (path : List String) (h : ∀ s ∈ path, s ∈ allSteps) :
    scans jsonSteps path = true :=
  scans_of_subset _ _ fun s hs => json_follows_every_step s (h s hs)

/-- MAIN (async detection): likewise for an `await` / async builtin, so `tokio` is declared. -/
theorem async_trigger_found_everywhere (path : List String) (h : ∀ s ∈ path, s ∈ allSteps) :
    scans asyncSteps path = true :=
  scans_of_subset _ _ fun s hs => async_follows_every_step s (h s hs)

/-- Before the fixes a trigger inside a newtype method (or a chained assignment, an index of an index assignment,
…) was not found: kernel-checked on the scanner as it was. -/
theorem json_trigger_was_missed :
    scans jsonStepsBefore ["Newtype.method", "Return.value"] = false ∧
    scans jsonStepsBefore ["Function.body", "ChainedAssignment.value"] = false ∧
    scans jsonStepsBefore ["Function.body", "IndexAssignment.index", "Call.arg"] = false ∧
    scans jsonStepsBefore ["Function.body", "If.else", "Assignment.value", "Binary.arith.right", "Call.arg"] = true := by
  decide

end Incan.Scanners

