import IncanModel.Sem.Newtype
/-
C17 — a validated newtype can never hold an invalid value.
-/
namespace Incan.Newtype

/-- Sub-values extracted by projections keep the invariant. -/
theorem Inv.of_nt {hooks hook cur T u} (h : Inv hooks hook cur (.nt T u)) : Inv hooks hook cur u := h.2

/-- MAIN (partial: construction sites of the shape `T(x)`; a type name used as a function value is excluded,
see `alias_bypasses`).  Outside `T`'s own methods every `T` value a lowered expression can produce — at any
depth inside lists, tuples, fields, Option/Result payloads — came out of `T`'s validation hook. -/
theorem construction_validated_partial
    (hooks : String → Option String) (hook : String → Val → Option Val) (cur : Option String)
    (env : String → Option Val)
    (henv : ∀ x u, env x = some u → Inv hooks hook cur u)
    (hhook : ∀ T x u, hook T x = some u → Inv hooks hook cur x → Inv hooks hook cur u)
    (e : Expr) (hna : NoAlias e) (v : Val)
    (h : eval hook env (lower hooks cur e) = .ok v) : Inv hooks hook cur v := by
  induction e generalizing v with
  | lit n => simp [lower, eval] at h; subst h; trivial
  | var x =>
    simp only [lower, eval] at h
    split at h
    · rename_i u hu; cases h; exact henv x _ hu
    · cases h
  | ctor T a ih =>
    simp only [lower] at h
    cases hh : hooks T with
    | none =>
      simp only [hh, eval] at h
      split at h
      · rename_i u hu; cases h
        exact ⟨by simp [hh], ih hna u hu⟩
      · cases h
    | some hk =>
      simp only [hh] at h
      by_cases hc : cur = some T
      · simp only [hc, if_true, eval] at h
        split at h
        · rename_i u hu; cases h
          refine ⟨fun _ hne => absurd hc hne, ?_⟩
          exact ih hna u (by simpa [hc] using hu)
        · cases h
      · simp only [hc, if_false, eval] at h
        split at h
        · rename_i u hu
          split at h
          · rename_i w hw; cases h
            exact ⟨fun _ _ => ⟨u, hw⟩, hhook T u w hw (ih hna u hu)⟩
          · cases h
        · cases h
  | ctorNamed T a _ => simp [lower, eval] at h
  | alias T a _ => exact absurd hna (by simp [NoAlias])
  | pair a b iha ihb =>
    simp only [lower, eval] at h
    split at h
    · rename_i va hva
      split at h
      · rename_i vb hvb; cases h
        exact ⟨iha hna.1 va hva, ihb hna.2 vb hvb⟩
      · cases h
    · cases h
  | wrap a ih =>
    simp only [lower, eval] at h
    split at h
    · rename_i u hu; cases h; exact ih hna u hu
    · cases h
  | fst a ih =>
    simp only [lower, eval] at h
    split at h
    · rename_i x y hxy; cases h; exact (ih hna _ hxy).1
    · cases h
    · cases h
  | snd a ih =>
    simp only [lower, eval] at h
    split at h
    · rename_i x y hxy; cases h; exact (ih hna _ hxy).2
    · cases h
    · cases h
  | unwrap a ih =>
    simp only [lower, eval] at h
    split at h
    · rename_i x hx; cases h
      have := ih hna _ hx
      simpa [Inv] using this
    · cases h
    · cases h
  | under a ih =>
    simp only [lower, eval] at h
    split at h
    · rename_i T x hx; cases h; exact (ih hna _ hx).2
    · cases h
    · cases h
  | add a b _ _ =>
    simp only [lower, eval] at h
    split at h
    · split at h
      · cases h; trivial
      · cases h
      · cases h
    · cases h
    · cases h

/-- With an argument the hook rejects, the construction stops with the validation failure naming the type
and the hook — it does not produce a `T`. -/
theorem rejected_argument_stops
    (hooks : String → Option String) (hook : String → Val → Option Val) (cur : Option String)
    (env : String → Option Val) (T h : String) (a : Expr) (x : Val)
    (hh : hooks T = some h) (hc : cur ≠ some T)
    (ha : eval hook env (lower hooks cur a) = .ok x) (hrej : hook T x = none) :
    eval hook env (lower hooks cur (.ctor T a)) = .error (.validation T h) := by
  simp [lower, hh, hc, eval, ha, hrej]

/-- A failure inside any sub-expression propagates: no enclosing construct swallows it. -/
theorem failure_propagates_pair
    (hook : String → Val → Option Val) (env : String → Option Val) (a b : Ir) (s : Stop)
    (h : eval hook env a = .error s) : eval hook env (.pair a b) = .error s := by
  simp [eval, h]

/-- The exemption is exactly "inside `T`'s own methods": there the construction is the raw wrap … -/
theorem own_methods_exempt (hooks : String → Option String) (T : String) (a : Expr) :
    lower hooks (some T) (.ctor T a) = .raw T (lower hooks (some T) a) := by
  simp only [lower]
  cases hooks T <;> simp

/-- … and inside any *other* type's methods (or in a function) it is checked. -/
theorem other_methods_checked (hooks : String → Option String) (cur : Option String) (T h : String) (a : Expr)
    (hh : hooks T = some h) (hc : cur ≠ some T) :
    lower hooks cur (.ctor T a) = .checked T h (lower hooks cur a) := by
  simp [lower, hh, hc]

/-! ### Hook selection -/

/-- The selected hook is always a declared static method of the right shape. -/
theorem select_sound (d : Decl) (h : String) (hs : selectHook d = some h) :
    ∃ m ∈ d.methods, m.name = h ∧ isCandidate d m = true := by
  unfold selectHook at hs
  simp only at hs
  split at hs
  · rename_i hany
    cases hs
    obtain ⟨m, hm, hn⟩ := List.any_eq_true.1 hany
    have := List.mem_filter.1 hm
    exact ⟨m, this.1, by simpa using hn, this.2⟩
  · split at hs
    · rename_i m hm
      cases hs
      have : m ∈ d.methods.filter (isCandidate d) := by rw [hm]; simp
      have := List.mem_filter.1 this
      exact ⟨m, this.1, rfl, this.2⟩
    · cases hs

/-- A well-shaped `from_underlying` is always the hook, whatever else is declared. -/
theorem select_from_underlying (d : Decl) (m : Method) (hm : m ∈ d.methods)
    (hc : isCandidate d m = true) (hn : m.name = "from_underlying") :
    selectHook d = some "from_underlying" := by
  unfold selectHook
  simp only
  have : (d.methods.filter (isCandidate d)).any (fun m => m.name == "from_underlying") = true :=
    List.any_eq_true.2 ⟨m, List.mem_filter.2 ⟨hm, hc⟩, by simp [hn]⟩
  simp [this]

/-- A single well-shaped `from_*` is the hook. -/
theorem select_single (d : Decl) (m : Method) (hone : d.methods.filter (isCandidate d) = [m]) :
    selectHook d = some (if m.name = "from_underlying" then "from_underlying" else m.name) := by
  unfold selectHook
  simp only [hone, List.any_cons, List.any_nil, Bool.or_false]
  by_cases h : m.name = "from_underlying" <;> simp [h]

/-- Distinct newtypes are never interchangeable: named types are compatible only with themselves. -/
theorem nominal (a b : String) : namedCompatible a b = true ↔ a = b := by
  simp [namedCompatible]

/-! ### The full statement does not hold: a type name used as a function value -/

def posHooks : String → Option String := fun T => if T == "Pos" then some "from_underlying" else none
def posHook : String → Val → Option Val := fun _ v => match v with
  | .int n => if n ≤ 0 then none else some (.int n)
  | _ => none

/-- `f = Pos; f(-1)`: the hook rejects -1, yet a `Pos` holding -1 is produced. -/
theorem alias_bypasses :
    posHook "Pos" (.int (-1)) = none ∧
    eval posHook (fun _ => none) (lower posHooks none (.alias "Pos" (.lit (-1)))) = .ok (.nt "Pos" (.int (-1))) ∧
    ¬ Inv posHooks posHook none (.nt "Pos" (.int (-1))) := by
  refine ⟨by decide, by rfl, ?_⟩
  intro h
  obtain ⟨x, hx⟩ := h.1 (by decide) (by decide)
  unfold posHook at hx
  cases x with
  | int n =>
    simp only at hx
    split at hx
    · cases hx
    · rename_i hn
      injection hx with hx
      injection hx with hx
      omega
  | nt _ _ => simp at hx
  | pair _ _ => simp at hx
  | wrap _ => simp at hx

/-- Non-vacuity: the same site written as `Pos(-1)` stops, and `Pos(5)` yields a validated value. -/
example : eval posHook (fun _ => none) (lower posHooks none (.ctor "Pos" (.lit (-1)))) = .error (.validation "Pos" "from_underlying") := by decide
example : eval posHook (fun _ => none) (lower posHooks none (.wrap (.pair (.ctor "Pos" (.lit 5)) (.lit 2)))) =
    .ok (.wrap (.pair (.nt "Pos" (.int 5)) (.int 2))) := by decide

end Incan.Newtype
