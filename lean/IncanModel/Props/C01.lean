import IncanModel.Sem.Regroup
import IncanModel.Props.C20
import IncanModel.Sem.Comprehension
/-
C01 — compiled programs behave as the source says (core fragment; restructuring steps of the compiler).
-/
namespace Incan.Core

variable (call1 : String → V → List String → R V) (call2 : String → V → V → List String → R V)

/-- Dropping the parenthesis *nodes* does not change the value of an expression tree.  (What the flat token
text re-parses to under Rust's precedence is a separate question: see `Safe` below and DESIGN.md.) -/
theorem desugarE_sound (env : Env) (out : List String) (e : E) :
    evalE call1 call2 env out (desugarE e) = evalE call1 call2 env out e := by
  induction e generalizing env out with
  | int _ | bool _ | str _ | list _ | var _ => simp [desugarE]
  | neg e ih => simp [desugarE, evalE, ih]
  | not_ e ih => simp [desugarE, evalE, ih]
  | arith op l r ihl ihr => simp [desugarE, evalE, ihl, ihr]
  | cmp op l r ihl ihr => simp [desugarE, evalE, ihl, ihr]
  | and_ l r ihl ihr => simp [desugarE, evalE, ihl, ihr]
  | or_ l r ihl ihr => simp [desugarE, evalE, ihl, ihr]
  | concat l r ihl ihr => simp [desugarE, evalE, ihl, ihr]
  | len e ih => simp [desugarE, evalE, ih]
  | index xs i ihx ihi => simp [desugarE, evalE, ihx, ihi]
  | call1 f a ih => simp [desugarE, evalE, ih]
  | call2 f a b iha ihb => simp [desugarE, evalE, iha, ihb]
  | paren e ih => simp [desugarE, evalE, ih]

theorem bind_flow_id (r : R (Flow × Env)) :
    (r.bind fun fe o => match fe with
      | (.next, env') => R.ok (Flow.next, env') o
      | other => R.ok other o) = r := by
  cases r with
  | stop w o => rfl
  | ok fe o =>
    obtain ⟨f, e⟩ := fe
    cases f <;> rfl

/-- A block of one statement is that statement. -/
theorem execB_single (fuel : Nat) (env : Env) (out : List String) (s : S) :
    execB call1 call2 fuel env out (.cons s .nil) = execS call1 call2 fuel env out s := by
  simp only [execB]
  cases execS call1 call2 fuel env out s with
  | stop w o => rfl
  | ok fe o =>
    obtain ⟨f, e⟩ := fe
    cases f <;> rfl

mutual
  /-- MAIN: the compiler's restructuring (elif chains into nested if/else, compound assignment into plain
  assignment, parenthesis nodes removed) preserves the meaning of every statement — printed output, final
  variables, control flow and the way a run stops — for programs of any shape and nesting depth, every
  call oracle and every fuel. -/
  theorem desugarS_sound (fuel : Nat) (env : Env) (out : List String) (s : S) :
      execS call1 call2 fuel env out (desugarS s) = execS call1 call2 fuel env out s := by
    match s with
    | .letS m x e => simp [desugarS, execS, desugarE_sound]
    | .assign x e => simp [desugarS, execS, desugarE_sound]
    | .aug x op e =>
      simp only [desugarS, execS, evalE, desugarE_sound]
      cases hx : env.get x with
      | none => simp [R.bind]
      | some xv =>
        simp only [R.bind]
        cases evalE call1 call2 env out e with
        | stop w o => rfl
        | ok v o => rfl
    | .ifS c thn els =>
      simp only [desugarS, execS, desugarE_sound]
      congr 1
      funext v o
      cases v with
      | bool b => cases b <;> simp [desugarB_sound fuel env o thn, desugarElse_sound fuel env o els]
      | _ => rfl
    | .whileS c body =>
      simp only [desugarS, execS, desugarE_sound]
      congr 1
      funext en o
      exact desugarB_sound fuel en o body
    | .forRange x lo hi body =>
      simp only [desugarS, execS, desugarE_sound]
      have : (fun en o => execB call1 call2 fuel en o (desugarB body)) = fun en o => execB call1 call2 fuel en o body := by
        funext en o; exact desugarB_sound fuel en o body
      simp only [this]
    | .forList x xs body =>
      simp only [desugarS, execS, desugarE_sound]
      have : (fun en o' => execB call1 call2 fuel en o' (desugarB body)) = fun en o' => execB call1 call2 fuel en o' body := by
        funext en o; exact desugarB_sound fuel en o body
      simp only [this]
    | .append x e => simp [desugarS, execS, desugarE_sound]
    | .ret e => simp [desugarS, execS, desugarE_sound]
    | .print e => simp [desugarS, execS, desugarE_sound]
    | .print2 a b => simp [desugarS, execS, desugarE_sound]
    | .exprS e => simp [desugarS, execS, desugarE_sound]
    | .brk => simp [desugarS]
    | .cont => simp [desugarS]
  theorem desugarB_sound (fuel : Nat) (env : Env) (out : List String) (b : Blk) :
      execB call1 call2 fuel env out (desugarB b) = execB call1 call2 fuel env out b := by
    match b with
    | .nil => simp [desugarB]
    | .cons s rest =>
      simp only [desugarB, execB, desugarS_sound fuel env out s]
      congr 1
      funext fe o
      obtain ⟨f, e⟩ := fe
      cases f <;> simp [desugarB_sound fuel e o rest]
  theorem desugarElse_sound (fuel : Nat) (env : Env) (out : List String) (els : Else) :
      execElse call1 call2 fuel env out (desugarElse els) = execElse call1 call2 fuel env out els := by
    match els with
    | .none => simp [desugarElse]
    | .else_ body => simp [desugarElse, execElse, desugarB_sound fuel env out body]
    | .elif c thn rest =>
      -- else { if c { thn } else { rest } }  =  elif c: thn … rest
      simp only [desugarElse, execElse]
      rw [execB_single]
      simp only [execS, desugarE_sound]
      congr 1
      funext v o
      cases v with
      | bool b => cases b <;> simp [desugarB_sound fuel env o thn, desugarElse_sound fuel env o rest]
      | _ => rfl
end

mutual
  /-- The restructured program only uses the core constructs (nested if/else, plain assignment). -/
  theorem desugarS_core (s : S) : coreS (desugarS s) = true := by
    match s with
    | .letS _ _ _ | .assign _ _ | .aug _ _ _ | .append _ _ | .ret _ | .print _ | .print2 _ _ | .exprS _ | .brk | .cont => simp [desugarS, coreS]
    | .ifS c thn els => simp [desugarS, coreS, desugarB_core thn, desugarElse_core els]
    | .whileS c body => simp [desugarS, coreS, desugarB_core body]
    | .forRange x lo hi body => simp [desugarS, coreS, desugarB_core body]
    | .forList x xs body => simp [desugarS, coreS, desugarB_core body]
  theorem desugarB_core (b : Blk) : coreB (desugarB b) = true := by
    match b with
    | .nil => simp [desugarB, coreB]
    | .cons s rest => simp [desugarB, coreB, desugarS_core s, desugarB_core rest]
  theorem desugarElse_core (els : Else) : coreElse (desugarElse els) = true := by
    match els with
    | .none => simp [desugarElse, coreElse]
    | .else_ body => simp [desugarElse, coreElse, desugarB_core body]
    | .elif c thn rest => simp [desugarElse, coreElse, coreB, coreS, desugarB_core thn, desugarElse_core rest]
end

/-- The same restructuring applied to every function of a program. -/
def desugarFn (fn : Fn) : Fn := { fn with body := desugarB fn.body }

theorem findFn_map (fns : List Fn) (f : String) :
    findFn (fns.map desugarFn) f = (findFn fns f).map desugarFn := by
  unfold findFn
  induction fns with
  | nil => rfl
  | cons g gs ih =>
    simp only [List.map_cons, List.find?_cons]
    have : (desugarFn g).name = g.name := rfl
    rw [this]
    split
    · rfl
    · exact ih

/-- Whole programs: calling any function of the restructured program gives what the source program gives
(value, output, stop reason), for every call depth. -/
theorem program_desugar_sound (fns : List Fn) (n : Nat) (f : String) (v : V) (out : List String) :
    runCall1 (fns.map desugarFn) n f v out = runCall1 fns n f v out := by
  induction n generalizing f v out with
  | zero => rfl
  | succ n ih =>
    simp only [runCall1, findFn_map]
    cases findFn fns f with
    | none => rfl
    | some fn =>
      simp only [Option.map]
      have hcall : runCall1 (fns.map desugarFn) n = runCall1 fns n := by
        funext f' v' o'; exact ih f' v' o'
      have hp : (desugarFn fn).params = fn.params := rfl
      have hb : (desugarFn fn).body = desugarB fn.body := rfl
      rw [hp, hb, hcall]
      cases fn.params with
      | nil => rfl
      | cons p ps =>
        cases ps with
        | nil => simp only [desugarB_sound]
        | cons _ _ => rfl

/-- An `elif` chain is tried in source order: the first branch whose condition holds runs, and only it. -/
theorem elif_order (fuel : Nat) (env : Env) (out : List String) (c1 c2 : E) (b1 b2 : Blk) (rest : Else)
    (o1 : List String) (h1 : evalE call1 call2 env out c1 = .ok (.bool true) o1) :
    execElse call1 call2 fuel env out (.elif c1 b1 (.elif c2 b2 rest)) = execB call1 call2 fuel env o1 b1 := by
  simp [execElse, h1, R.bind]

/-! ### The string comparison helpers -/

theorem strCmp_refl (a : List Char) : strCmp a a = .eq := by
  induction a with
  | nil => rfl
  | cons x xs ih => simp [strCmp, ih]

theorem strCmp_swap (a b : List Char) : strCmp b a = (strCmp a b).swap := by
  induction a generalizing b with
  | nil => cases b <;> simp [strCmp, Ordering.swap]
  | cons x xs ih =>
    cases b with
    | nil => simp [strCmp, Ordering.swap]
    | cons y ys =>
      simp only [strCmp]
      by_cases h1 : x.toNat < y.toNat
      · have : ¬ y.toNat < x.toNat := by omega
        simp [h1, this, Ordering.swap]
      · by_cases h2 : y.toNat < x.toNat
        · simp [h1, h2, Ordering.swap]
        · simp [h1, h2, ih ys]

/-- `<=` is "less or equal", `>=` is "not less", and both hold on equal strings (incl. two empty ones). -/
theorem strRel_le (a b : List Char) : strRel .le a b = (strRel .lt a b || strRel .eq a b) := by
  unfold strRel; cases strCmp a b <;> rfl
theorem strRel_ge (a b : List Char) : strRel .ge a b = (strRel .gt a b || strRel .eq a b) := by
  unfold strRel; cases strCmp a b <;> rfl
theorem strRel_refl (a : List Char) : strRel .le a a = true ∧ strRel .ge a a = true ∧ strRel .eq a a = true ∧ strRel .lt a a = false := by
  simp [strRel, strCmp_refl]
theorem strRel_flip (a b : List Char) : strRel .gt a b = strRel .lt b a ∧ strRel .ge a b = strRel .le b a := by
  unfold strRel
  rw [strCmp_swap a b]
  cases strCmp a b <;> simp [Ordering.swap]

/-! ### Grouping -/

/-- Binding strength of the Incan operators that are emitted as Rust infix/prefix operators, and of their Rust
images.  (`//`, `%`, string operators, `len`, indexing and calls are emitted as function calls, whose
arguments are delimited by the call's own parentheses.) -/
inductive Infix where | or_ | and_ | not_ | cmp | addsub | mul | neg
deriving DecidableEq, Repr

def incanLevel : Infix → Nat
  | .or_ => 0 | .and_ => 1 | .not_ => 2 | .cmp => 3 | .addsub => 5 | .mul => 6 | .neg => 8
def rustLevel : Infix → Nat
  | .or_ => 0 | .and_ => 1 | .cmp => 3 | .addsub => 5 | .mul => 6 | .neg => 8 | .not_ => 8   -- `!` is a unary operator

/-- Two operators nest the same way in both languages when their relative binding strength agrees. -/
def sameNesting (p q : Infix) : Bool :=
  (incanLevel p < incanLevel q) == (rustLevel p < rustLevel q) &&
  (incanLevel q < incanLevel p) == (rustLevel q < rustLevel p)

/-- Without parentheses, the only operator whose Rust image nests differently is `not`
(`not a == b` is `not (a == b)` in Incan, `(!a) == b` in Rust). -/
theorem only_not_regroups : ∀ p q : Infix, p ≠ .not_ → q ≠ .not_ → sameNesting p q = true := by
  intro p q hp hq
  cases p <;> cases q <;> first | rfl | exact absurd rfl hp | exact absurd rfl hq

theorem not_regroups : sameNesting .not_ .cmp = false ∧ sameNesting .not_ .addsub = false := by decide

/-- `Safe b`: rustc reads the text emitted for `b` with exactly the grouping of the source tree (decidable: the
check computes it for every generated program and reports the unsafe ones under the recorded finding). -/
def Safe (b : Blk) : Prop := regroupB b = some (desugarB b)

/-- MAIN (partial: programs whose emitted text rustc groups as the source does — `Safe`; the full statement is
false, see `grouping_lost_witness`).  For a Safe body, the program rustc compiles means what the source means:
same output, same final variables, same control flow, same way of stopping — any shape, any depth. -/
theorem compile_preserves_meaning_partial (b compiled : Blk) (hs : Safe b) (hc : regroupB b = some compiled)
    (fuel : Nat) (env : Env) (out : List String) :
    execB call1 call2 fuel env out compiled = execB call1 call2 fuel env out b := by
  unfold Safe at hs
  rw [hs] at hc
  injection hc with hc
  subst hc
  exact desugarB_sound call1 call2 fuel env out b

/-- The full statement fails: `(a + b) * (a - b)` is emitted as `a + b * a - b`, which rustc reads as
`a + (b * a) - b`; likewise `not (a < b)` becomes `!a < b`, i.e. `(!a) < b`.  Kernel-checked re-readings. -/
theorem grouping_lost_witness :
    regroupE (.arith .mul (.paren (.arith .add (.var "a") (.var "b"))) (.paren (.arith .sub (.var "a") (.var "b")))) =
      some (.arith .sub (.arith .add (.var "a") (.arith .mul (.var "b") (.var "a"))) (.var "b")) ∧
    regroupE (.not_ (.paren (.cmp .lt (.var "a") (.var "b")))) = some (.cmp .lt (.not_ (.var "a")) (.var "b")) ∧
    regroupS (.aug "acc" .mul (.arith .sub (.var "b") (.int 6))) =
      some (.assign "acc" (.arith .sub (.arith .mul (.var "acc") (.var "b")) (.int 6))) := by
  refine ⟨?_, ?_, ?_⟩ <;>
    simp [regroupS, regroupE, flat, parseFlat, parsePrimary, parseClimb, parseRhs, BinTok.prec, BinTok.build, isStrE]

/-- Non-vacuity: programs without such operator nestings are Safe (and most generated programs are). -/
example : Safe (.cons (.print (.arith .add (.arith .mul (.var "a") (.var "b")) (.int 1))) (.cons (.aug "acc" .add (.arith .mul (.var "a") (.int 2))) .nil)) := by
  unfold Safe
  simp [regroupB, regroupS, regroupE, flat, parseFlat, parsePrimary, parseClimb, parseRhs, BinTok.prec, BinTok.build, isStrE,
    desugarB, desugarS, desugarE]

example : desugarElse (.elif (.var "a") .nil (.else_ .nil)) = .else_ (.cons (.ifS (.var "a") .nil (.else_ .nil)) .nil) := by rfl

end Incan.Core

/-! ### Classes: overriding (model and proofs in Sem/Derive, Props/C20 — restated here because it is program
behaviour: which body a method call runs) -/
namespace Incan.Derive

/-- MAIN (dynamic dispatch along `extends`): calling `m` on an instance of `Ci` runs the body written in the most
derived class of `C0 <- … <- Ci` that declares `m`. -/
theorem method_call_runs_most_derived_body (levels : List (String × List String))
    (hnd : (levels.map (·.1)).Nodup) (i : Nat) (hi : i < levels.length) (m : String) :
    dispatch (inheritedMethods (chainDecls levels none) (chainDecls (α := List String) levels none).length (levels[i]).1) m
      = specOwner (levels.take (i + 1)) m := override_wins levels hnd i hi m

/-- an overriding method is never shadowed by the inherited one -/
theorem redeclared_method_is_own (levels : List (String × List String))
    (hnd : (levels.map (·.1)).Nodup) (i : Nat) (hi : i < levels.length) (m : String) (hm : m ∈ (levels[i]).2) :
    dispatch (inheritedMethods (chainDecls levels none) (chainDecls (α := List String) levels none).length (levels[i]).1) m
      = some (levels[i]).1 := by
  rw [override_wins levels hnd i hi m, List.take_succ_eq_append_getElem hi, specOwner_snoc]
  simp [hm]

end Incan.Derive

/-! ### List comprehensions: the emitted iterator chain means what the source says -/
namespace Incan.Comp

/-- The emitted iterator chain computes the comprehension's meaning, for every list, condition and element. -/
theorem emitted_eq_meaning {α β : Type} (xs : List α) (cond : α → Bool) (elem : α → β) :
    emitted xs cond elem = meaning xs cond elem := by
  unfold emitted
  induction xs with
  | nil => rfl
  | cons x rest ih =>
    simp only [meaning, List.filter_cons]
    cases cond x <;> simp [ih]

/-- Every collected value comes from an element that passed the condition (nothing is filtered on the mapped value). -/
theorem meaning_mem {α β : Type} (xs : List α) (cond : α → Bool) (elem : α → β) (y : β) :
    y ∈ meaning xs cond elem ↔ ∃ x ∈ xs, cond x = true ∧ elem x = y := by
  rw [← emitted_eq_meaning]
  unfold emitted
  simp [List.mem_map, List.mem_filter, and_assoc]

/-- `[x + 1 for x in range(6) if x % 2 == 0]`: map-then-filter answers `[2, 4, 6]`… wrong: it keeps the even *results*. -/
theorem map_then_filter_differs :
    meaning [0, 1, 2, 3, 4, 5] (fun x => x % 2 == 0) (fun x => x + 1) = [1, 3, 5] ∧
    mapThenFilter [0, 1, 2, 3, 4, 5] (fun x => x % 2 == 0) (fun x => x + 1) = [2, 4, 6] := by decide

end Incan.Comp
