import IncanModel.Sem.Names
/-
C13 — any legal Incan name is safe to use (identifier level).
-/
namespace Incan.Names
open Generated

/-- The repo's table contains every Rust 2021 strict/reserved keyword (`self`/`Self` are special-cased). -/
theorem table_complete : ∀ k ∈ reference2021, k ∈ rustKeywords ∨ k = "self" ∨ k = "Self" := by decide

/-- … and nothing else: escaping is never applied to a name rustc would have accepted plainly. -/
theorem table_sound : ∀ k ∈ rustKeywords, k ∈ reference2021 := by decide

/-- Every Rust keyword that the Incan lexer accepts as an identifier can be written as a raw identifier,
except `Self` (recorded finding). -/
theorem legal_keywords_rawable : ∀ k ∈ rustKeywordsLegalInIncan, k ≠ "Self" → k ∉ nonRawable := by decide

/-- The exception is real: `Self` is a legal Incan identifier that has no Rust spelling. -/
theorem self_type_name_unemittable :
    "Self" ∈ rustKeywordsLegalInIncan ∧ validTok (emitTok "Self") = false := by decide

/-- MAIN (partial: names other than `Self`, and not clashing with generated temporaries / relied-on type names,
which the token level cannot see).  For every name that is either not a Rust keyword at all or one of the Rust
keywords the Incan lexer accepts, at every binding position, the emitted token is an identifier rustc accepts. -/
theorem emitted_identifier_valid_partial (p : Pos) (n : String)
    (hlegal : n ∉ reference2021 ∨ n ∈ rustKeywordsLegalInIncan) (hself : n ≠ "Self") :
    validTok (emitAt p n) = true := by
  unfold emitAt emitTok
  by_cases hs : n = "self" ∨ n = "Self"
  · rcases hs with h | h
    · subst h
      rcases hlegal with h | h
      · exact absurd (by decide : "self" ∈ reference2021) h
      · exact absurd h (by decide)
    · exact absurd h hself
  · simp only [hs, if_false]
    by_cases hk : n ∈ rustKeywords
    · simp only [hk, if_true, validTok]
      rcases hlegal with h | h
      · exact absurd (table_sound n hk) h
      · have := legal_keywords_rawable n h hself
        simpa using this
    · simp only [hk, if_false, validTok]
      rcases hlegal with h | h
      · simpa using h
      · -- a legal keyword outside the table would be left unescaped: impossible, the table is complete
        have : n ∈ rustKeywords := by
          have hall : ∀ k ∈ rustKeywordsLegalInIncan, k ≠ "Self" → k ∈ rustKeywords := by decide
          exact hall n h hself
        exact absurd this hk

/-- Emission is injective: distinct names stay distinct, so the binding structure of a consistently renamed
program is the binding structure of the original. -/
theorem emit_injective (a b : String) (h : emitTok a = emitTok b) : a = b := by
  unfold emitTok at h
  split at h <;> split at h
  all_goals first
    | (injection h)
    | (split at h <;> first | (injection h) | skip)
    | skip
  all_goals (try (split at h)) <;> (try (injection h))

theorem rename_preserves_binding (p : Pos) (ρ : String → String) (hρ : ∀ x y, ρ x = ρ y → x = y) (a b : String) :
    emitAt p (ρ a) = emitAt p (ρ b) ↔ a = b := by
  constructor
  · intro h; exact hρ _ _ (emit_injective _ _ h)
  · intro h; rw [h]

/-- A raw identifier is produced only for table entries (plain names are left exactly as written). -/
theorem plain_names_untouched (n : String) (h : n ∉ rustKeywords) : emitTok n = .plain n := by
  unfold emitTok
  by_cases hs : n = "self" ∨ n = "Self" <;> simp [hs, h]

example : emitTok "loop" = .raw "loop" ∧ emitTok "zeta" = .plain "zeta" ∧ validTok (emitTok "try") = true := by decide

end Incan.Names
