import IncanModel.Sem.Names
/-
C13 — any legal Incan name is safe to use (identifier level).
-/
namespace Incan.Names
open Generated

/-- The repo's table contains every Rust 2021 strict/reserved keyword (`self`/`Self` are special-cased). -/
theorem table_complete : ∀ k ∈ reference2021, k ∈ rustKeywords ∨ k = "self" ∨ k = "Self" := by decide

/-- … and nothing else: escaping is never applied to a name rustc would have accepted plainly. -/
theorem table_sound : ∀ k ∈ rustKeywords, k ∈ reference2021 := by decide

/-- Every Rust keyword that the Incan lexer accepts as an identifier can be written as a raw identifier,
except `Self` (recorded finding). -/
theorem legal_keywords_rawable : ∀ k ∈ rustKeywordsLegalInIncan, k ≠ "Self" → k ∉ nonRawable := by decide

/-- The exception is real: `Self` is a legal Incan identifier that has no Rust spelling. -/
theorem self_type_name_unemittable :
    "Self" ∈ rustKeywordsLegalInIncan ∧ validTok (emitTok "Self") = false := by decide

/-- MAIN (partial: names other than `Self`, and not clashing with generated temporaries / relied-on type names,
which the token level cannot see).  For every name that is either not a Rust keyword at all or one of the Rust
keywords the Incan lexer accepts, at every binding position, the emitted token is an identifier rustc accepts. -/
theorem emitted_identifier_valid_partial (p : Pos) (n : String)
    (hlegal : n ∉ reference2021 ∨ n ∈ rustKeywordsLegalInIncan) (hself : n ≠ "Self") :
    validTok (emitAt p n) = true := by
  unfold emitAt emitTok
  by_cases hs : n = "self" ∨ n = "Self"
  · rcases hs with h | h
    · subst h
      rcases hlegal with h | h
      · exact absurd (by decide : "self" ∈ reference2021) h
      · exact absurd h (by decide)
    · exact absurd h hself
  · simp only [hs, if_false]
    by_cases hk : n ∈ rustKeywords
    · simp only [hk, if_true, validTok]
      rcases hlegal with h | h
      · exact absurd (table_sound n hk) h
      · have := legal_keywords_rawable n h hself
        simpa using this
    · simp only [hk, if_false, validTok]
      rcases hlegal with h | h
      · simpa using h
      · -- a legal keyword outside the table would be left unescaped: impossible, the table is complete
        have : n ∈ rustKeywords := by
          have hall : ∀ k ∈ rustKeywordsLegalInIncan, k ≠ "Self" → k ∈ rustKeywords := by decide
          exact hall n h hself
        exact absurd this hk

/-- Emission is injective: distinct names stay distinct, so the binding structure of a consistently renamed
program is the binding structure of the original. -/
theorem emit_injective (a b : String) (h : emitTok a = emitTok b) : a = b := by
  unfold emitTok at h
  split at h <;> split at h
  all_goals first
    | (injection h)
    | (split at h <;> first | (injection h) | skip)
    | skip
  all_goals (try (split at h)) <;> (try (injection h))

theorem rename_preserves_binding (p : Pos) (ρ : String → String) (hρ : ∀ x y, ρ x = ρ y → x = y) (a b : String) :
    emitAt p (ρ a) = emitAt p (ρ b) ↔ a = b := by
  constructor
  · intro h; exact hρ _ _ (emit_injective _ _ h)
  · intro h; rw [h]

/-- A raw identifier is produced only for table entries (plain names are left exactly as written). -/
theorem plain_names_untouched (n : String) (h : n ∉ rustKeywords) : emitTok n = .plain n := by
  unfold emitTok
  by_cases hs : n = "self" ∨ n = "Self" <;> simp [hs, h]

example : emitTok "loop" = .raw "loop" ∧ emitTok "zeta" = .plain "zeta" ∧ validTok (emitTok "try") = true := by decide

/-! ### Program level: scopes, shadowing and duplicate binders under a consistent renaming -/

/-- Name resolution in a scope chain (innermost binder first): which binder a use refers to. -/
def resolve {α : Type} [DecidableEq α] : List α → α → Option Nat
  | [], _ => none
  | y :: ys, x => if y = x then some 0 else (resolve ys x).map (· + 1)

/-- Resolution commutes with any injective map on names. -/
theorem resolve_map {α β : Type} [DecidableEq α] [DecidableEq β] (f : α → β) (hf : ∀ x y, f x = f y → x = y)
    (scope : List α) (x : α) : resolve (scope.map f) (f x) = resolve scope x := by
  induction scope with
  | nil => rfl
  | cons y ys ih =>
    simp only [List.map, resolve]
    by_cases h : y = x
    · subst h; simp
    · have : f y ≠ f x := fun e => h (hf _ _ e)
      simp [h, this, ih]

/-- Program level: after a consistent (injective) renaming, every use in the emitted Rust resolves to the binder it
resolved to in the source — including shadowing (first match in the scope chain), at any scope depth and for
any mix of keyword and non-keyword names. -/
theorem renamed_use_resolves_to_same_binder (p : Pos) (ρ : String → String) (hρ : ∀ x y, ρ x = ρ y → x = y)
    (scope : List String) (x : String) :
    resolve (scope.map fun n => emitAt p (ρ n)) (emitAt p (ρ x)) = resolve scope x :=
  resolve_map (fun n => emitAt p (ρ n)) (fun _ _ h => hρ _ _ (emit_injective _ _ h)) scope x

/-- … and an unbound name stays unbound: escaping never captures a use (`r#loop` never meets a plain `loop`). -/
theorem renamed_free_stays_free (p : Pos) (ρ : String → String) (hρ : ∀ x y, ρ x = ρ y → x = y)
    (scope : List String) (x : String) (h : x ∉ scope) :
    emitAt p (ρ x) ∉ scope.map fun n => emitAt p (ρ n) := by
  intro hm
  rcases List.mem_map.mp hm with ⟨y, hy, e⟩
  have := hρ _ _ (emit_injective _ _ e)
  subst this; exact h hy

/-- Distinct binders of one scope (parameters of a function, fields of a model, variants of an enum) stay distinct:
rustc's duplicate-definition errors appear in the renamed program exactly where the checker reports them. -/
theorem renamed_scope_nodup (p : Pos) (ρ : String → String) (hρ : ∀ x y, ρ x = ρ y → x = y) (names : List String) :
    (names.map fun n => emitAt p (ρ n)).Nodup ↔ names.Nodup := by
  induction names with
  | nil => simp
  | cons a as ih =>
    simp only [List.map, List.nodup_cons, ih]
    constructor
    · rintro ⟨h1, h2⟩
      refine ⟨fun ha => h1 (List.mem_map.mpr ⟨a, ha, rfl⟩), h2⟩
    · rintro ⟨h1, h2⟩
      exact ⟨renamed_free_stays_free p ρ hρ as a h1, h2⟩

/-- Every identifier of a renamed program is one rustc accepts, provided each new name is legal and not `Self`. -/
theorem renamed_program_tokens_valid (p : Pos) (ρ : String → String) (names : List String)
    (hl : ∀ n ∈ names, (ρ n ∉ reference2021 ∨ ρ n ∈ rustKeywordsLegalInIncan) ∧ ρ n ≠ "Self") :
    ∀ t ∈ names.map (fun n => emitAt p (ρ n)), validTok t = true := by
  intro t ht
  rcases List.mem_map.mp ht with ⟨n, hn, rfl⟩
  exact emitted_identifier_valid_partial p (ρ n) (hl n hn).1 (hl n hn).2

/-- Shadowing example: inner `loop` shadows outer `loop`; `x` is found one level further out. -/
example : resolve (["loop", "x", "loop"].map fun n => emitAt .local_ n) (emitAt .local_ "loop") = some 0
  ∧ resolve (["loop", "x", "loop"].map fun n => emitAt .local_ n) (emitAt .local_ "x") = some 1 := by decide


end Incan.Names
